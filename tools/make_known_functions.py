#!/venv/bin/python
"""Regenerate reference/known_functions.json: the qualified names (with a rename-invariant structural fingerprint each) of the functions of the analysed packages at the commit the
rules were confirmed against.  The list is NOT part of any verdict: the abstract evaluator uses it only to decide how to look at
a call - a function that is not in the list (a helper introduced by a later change) is always followed into, so that moving
statements into a new helper shows the rules the same terms and effects as before.  usage: make_known_functions.py [repo]"""
import json, sys
from pathlib import Path

sys.path.insert(0, str(Path(__file__).resolve().parent.parent))
from sa.index import Repo, fingerprint  # noqa: E402


def main():
    repo = Repo(sys.argv[1] if len(sys.argv) > 1 else "/repo")
    names = {}
    for m in repo.modules.values():
        for f in m.functions.values():
            names[f.fq] = dict(zip(("fp", "attrs"), fingerprint(f.node, with_attrs=True)), params=f.params())
        for c in m.classes.values():
            for f in c.methods.values():
                names[f.fq] = dict(zip(("fp", "attrs"), fingerprint(f.node, with_attrs=True)), params=f.params())
    out = Path(__file__).resolve().parent.parent / "reference" / "known_functions.json"
    out.write_text(json.dumps(dict(sorted(names.items())), indent=0) + "\n")
    print(f"{len(names)} functions -> {out}")


if __name__ == "__main__":
    main()
