#!/bin/bash
# usage: process_seed.sh Cxx  — confirm (scratch worktree) and evaluate every delivered patch of /tmp/seed/Cxx_out
id=$1
cd /verif
for i in 1 2 3 4; do
  p=${SEEDROOT:-/tmp/seed}/${id}_out/patch$i.diff; d=${SEEDROOT:-/tmp/seed}/${id}_out/demo$i.py
  [ -f $p ] || continue
  [ -f $d ] || d=$(ls ${SEEDROOT:-/tmp/seed}/${id}_out/*demo$i*.py 2>/dev/null | head -1)
  ( r=$(./tools/confirm_seed.py $p $d --orig-root ${SEEDROOT:-/tmp/seed}/$id 2>&1 | tail -2 | tr '\n' ' '); e=$(./tools/eval_seeded.py $p 2>&1 | cut -c1-300); echo "=== $id/$i :: ${r:0:200}"; echo "$e" ) &
done
wait
