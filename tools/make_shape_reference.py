#!/venv/bin/python
"""One-off generator of reference/schema_shape.json from a tree whose shape was reviewed by hand against the
CDDL (DESIGN.md Appendix B).  Never run by a check; the committed file is the oracle."""
import json, sys
from pathlib import Path
sys.path.insert(0, str(Path(__file__).resolve().parent.parent))
from sa.index import Repo
from sa.schema import Schema

repo = Repo(sys.argv[1] if len(sys.argv) > 1 else "/repo")
g = Schema(repo).shape_graph()
for n in g["nodes"].values():
    n.pop("hint", None)
out = Path(__file__).resolve().parent.parent / "reference" / "schema_shape.json"
out.write_text(json.dumps(g, indent=0, sort_keys=False))
print(len(g["nodes"]), "nodes ->", out)
