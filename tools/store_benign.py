#!/venv/bin/python
"""Store a round of sub-agent refactorings into /verif/benign after confirming each one myself.

usage: store_benign.py <root> [--jobs N]      (<root>/<Cxx>_out/patch<i>.diff, notes<i>.md, check<i>.py)

For every patch: it must apply to /repo's HEAD (scratch copy under /var/tmp, removed afterwards) and the pinned test suite must
still pass there (tools/baseline_check.py).  Confirmed patches are stored as benign/<Cxx>-b<n>/ with n continuing the numbering
already used for that property; nothing is written for a patch that does not apply or breaks a stable test."""
import argparse, json, re, shutil, subprocess, sys, tempfile
from concurrent.futures import ThreadPoolExecutor
from pathlib import Path

VERIF = Path(__file__).resolve().parent.parent


def confirm(p):
    tmp = Path(tempfile.mkdtemp(prefix="sgstore_", dir="/var/tmp"))
    try:
        subprocess.run(["git", "-C", "/repo", "archive", "--format=tar", "HEAD", "-o", str(tmp / "r.tar")], check=True)
        subprocess.run(["tar", "-xf", str(tmp / "r.tar"), "-C", str(tmp)], check=True)
        (tmp / "r.tar").unlink()
        r = subprocess.run(["patch", "-p1", "-s", "-d", str(tmp), "-i", str(p)], capture_output=True, text=True)
        if r.returncode != 0:
            return p, False, "does not apply: " + (r.stdout + r.stderr).strip()[-120:]
        r = subprocess.run([str(VERIF / "tools/baseline_check.py"), str(tmp)], capture_output=True, text=True)
        line = r.stdout.strip().splitlines()[0] if r.stdout.strip() else r.stderr[-200:]
        return p, r.returncode == 0, line
    finally:
        shutil.rmtree(tmp, ignore_errors=True)


def main():
    ap = argparse.ArgumentParser()
    ap.add_argument("root")
    ap.add_argument("--jobs", type=int, default=8)
    ap.add_argument("--round", default="2")
    a = ap.parse_args()
    patches = sorted(Path(a.root).glob("*_out/patch*.diff"))
    with ThreadPoolExecutor(a.jobs) as ex:
        res = list(ex.map(confirm, patches))
    stored = 0
    for p, ok, line in res:
        prop = p.parent.name.replace("_out", "")
        i = re.search(r"patch(\d+)", p.name).group(1)
        print(f"{prop}/{p.name}: {'ok' if ok else 'REJECTED'} {line}")
        if not ok:
            continue
        used = [int(d.name.split("-b")[1]) for d in (VERIF / "benign").glob(f"{prop}-b*")]
        n = max(used, default=0) + 1
        dst = VERIF / "benign" / f"{prop}-b{n}"
        dst.mkdir(parents=True)
        shutil.copy(p, dst / "patch.diff")
        notes = p.parent / f"notes{i}.md"
        if notes.exists():
            shutil.copy(notes, dst / "notes.md")
        for extra in (f"check{i}.py", "_harness.py"):
            if (p.parent / extra).exists():
                shutil.copy(p.parent / extra, dst / extra)
        files = re.findall(r"^\+\+\+ b/(\S+)", p.read_text(), re.M)
        meta = {
            "id": dst.name, "written_for": prop, "round": a.round, "kind": "behaviour-preserving refactoring",
            "origin": "sub-agent given only the property text and a scratch git worktree of /repo; asked for a refactoring a "
                      "maintainer could make that changes no observable behaviour",
            "files": files,
            "confirmed": f"applies to /repo HEAD; pinned test suite run by tools/store_benign.py: {line}; differential comparison "
                         "against the pristine tree by the sub-agent's own script (see notes.md)",
            "expected": "every check stays silent (exit 0) with the patch applied",
        }
        (dst / "meta.json").write_text(json.dumps(meta, indent=1) + "\n")
        stored += 1
    print(f"stored {stored}/{len(res)}")


if __name__ == "__main__":
    sys.exit(main())
