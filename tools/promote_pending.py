#!/venv/bin/python
"""Re-evaluate the refactorings kept under benign_pending/ (open false alarms of the machinery): one on which every check is
silent now moves to benign/ (and is audited from then on); the others get their `fires` list refreshed.

usage: promote_pending.py [--jobs N]"""
import argparse, json, shutil, subprocess, tempfile
from concurrent.futures import ThreadPoolExecutor
from pathlib import Path

V = Path(__file__).resolve().parent.parent
ALL = [f"C{i:02d}" for i in range(1, 21)]


def one(d):
    t = Path(tempfile.mkdtemp(prefix="promote_", dir="/var/tmp"))
    try:
        subprocess.run(f"git -C /repo archive HEAD | tar -x -C {t}", shell=True, check=True)
        subprocess.run(["patch", "-p1", "-s", "-d", str(t), "-i", str(d / "patch.diff")], check=True, capture_output=True)

        def chk(c):
            pr = subprocess.run([str(V / "check"), c, "--repo", str(t), "--no-write"], capture_output=True, text=True)
            first = next((l.strip() for l in pr.stdout.splitlines() if l.startswith("  ") and "[" in l), "") if pr.returncode == 1 else \
                next((l for l in pr.stdout.splitlines() if "ANALYSIS-ERROR" in l), "")
            return c, pr.returncode, first[:300]
        with ThreadPoolExecutor(4) as ex:
            return d, [r for r in ex.map(chk, ALL) if r[1] != 0]
    finally:
        shutil.rmtree(t, ignore_errors=True)


def main():
    ap = argparse.ArgumentParser()
    ap.add_argument("--jobs", type=int, default=4)
    a = ap.parse_args()
    ids = [d for d in sorted((V / "benign_pending").iterdir()) if (d / "meta.json").exists()]
    with ThreadPoolExecutor(a.jobs) as ex:
        for d, res in ex.map(one, ids):
            m = json.loads((d / "meta.json").read_text())
            if not res:
                m.pop("fires", None)
                m["expected"] = "every check stays silent (exit 0) with the patch applied"
                (d / "meta.json").write_text(json.dumps(m, indent=1) + "\n")
                shutil.move(str(d), str(V / "benign" / d.name))
                print(d.name, "PROMOTED")
            else:
                m["fires"] = [{"check": c, "exit": rc, "report": first} for c, rc, first in res]
                (d / "meta.json").write_text(json.dumps(m, indent=1) + "\n")
                print(d.name, "pending", [(c, rc) for c, rc, _ in res])


if __name__ == "__main__":
    main()
