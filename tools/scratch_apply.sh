#!/bin/sh
# usage: scratch_apply.sh <patch.diff> <dir>   - scratch copy of /repo's packages with the patch applied (caller removes <dir>)
set -e
d=$2; rm -rf "$d"; mkdir -p "$d"
for c in suit_generator ncs build_configuration requirements.txt; do [ -e /repo/$c ] && cp -r /repo/$c "$d/"; done
find "$d" -name __pycache__ -prune -exec rm -rf {} + 2>/dev/null || true
patch -p1 -s -d "$d" -i "$(readlink -f $1)"
