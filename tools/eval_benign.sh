#!/bin/sh
# usage: eval_benign.sh <root> [ids...]   - run every check against every <root>/<id>_out/patch*.diff; expected: nothing fires
root=$1; shift
ids=${*:-$(ls -d $root/*_out | xargs -n1 basename | sed 's/_out//')}
for id in $ids; do for p in $root/${id}_out/patch*.diff; do
  [ -f "$p" ] || continue
  r=$(/verif/tools/eval_seeded.py "$p" 2>&1)
  echo "== $id/$(basename $p .diff): $(echo "$r" | tail -1)"
  echo "$r" | grep -v "^FIRED" | grep -v "rc=0" | cut -c1-300
done; done
