#!/venv/bin/python
"""Confirm a seeded change before it is kept under /verif/seeded/.

usage: confirm_seed.py <patch.diff> <demo.py> [--orig-root /tmp/seed/Cxx] [--skip-baseline]

In a scratch git worktree of /repo's HEAD (under /var/tmp, removed afterwards):
  1. the demonstration passes on the pristine tree (exit 0),
  2. the patch applies with `git apply`,
  3. the demonstration fails with the patch (exit != 0),
  4. the pinned test suite still passes with the patch (tools/baseline_check.py: "stable tests not passing: 0"),
  5. the patched tree byte-compiles.
The demonstration is run with PYTHONPATH=<worktree> and cwd=<worktree>; a path of the seeding worktree hard-coded in the
demonstration (--orig-root) is rewritten to the scratch worktree (and to the SEED_REPO environment variable when stored).
Prints CONFIRMED or the first step that failed."""
import argparse, os, shutil, subprocess, sys, tempfile
from pathlib import Path

HERE = Path(__file__).resolve().parent


def run_demo(demo: Path, wt: Path):
    env = dict(os.environ, PYTHONPATH=str(wt), SEED_REPO=str(wt))
    if demo.name.startswith("test_") or "import pytest" in demo.read_text() and "__main__" not in demo.read_text():
        cmd = ["/venv/bin/python", "-m", "pytest", "-q", "-x", "-p", "no:cacheprovider", str(demo)]
    else:
        cmd = ["/venv/bin/python", str(demo)]
    pr = subprocess.run(cmd, cwd=str(wt), env=env, capture_output=True, text=True, timeout=900)
    return pr.returncode, (pr.stdout + pr.stderr)[-600:]


def main():
    ap = argparse.ArgumentParser()
    ap.add_argument("patch")
    ap.add_argument("demo")
    ap.add_argument("--orig-root", default=None)
    ap.add_argument("--skip-baseline", action="store_true")
    a = ap.parse_args()
    patch = Path(a.patch).resolve()
    base = Path(tempfile.mkdtemp(prefix="sgconfirm_", dir="/var/tmp"))
    wt = base / "wt"
    ok = False
    try:
        subprocess.check_call(["git", "-C", "/repo", "worktree", "add", "-q", "--detach", str(wt), "HEAD"])
        demo = base / Path(a.demo).name
        text = Path(a.demo).read_text()
        if a.orig_root:
            text = text.replace(a.orig_root.rstrip("/"), str(wt))
        demo.write_text(text)
        rc, out = run_demo(demo, wt)
        if rc != 0:
            print(f"FAIL step1: demonstration does not pass on the pristine tree (rc={rc})\n{out}")
            return 1
        r = subprocess.run(["git", "-C", str(wt), "apply", str(patch)], capture_output=True, text=True)
        if r.returncode != 0:
            print(f"FAIL step2: patch does not apply: {r.stderr[-300:]}")
            return 1
        rc, out = run_demo(demo, wt)
        if rc == 0:
            print("FAIL step3: demonstration still passes with the patch")
            return 1
        print(f"demo with patch: rc={rc}: {out.strip().splitlines()[-1][:200] if out.strip() else ''}")
        r = subprocess.run(["/venv/bin/python", "-m", "compileall", "-q", "suit_generator", "ncs"], cwd=str(wt), capture_output=True, text=True)
        if r.returncode != 0:
            print(f"FAIL step5: does not compile: {r.stdout[-300:]}")
            return 1
        if not a.skip_baseline:
            r = subprocess.run(["/venv/bin/python", str(HERE / "baseline_check.py"), str(wt)], capture_output=True, text=True)
            line = next((l for l in r.stdout.splitlines() if "stable tests not passing" in l), r.stdout[-300:])
            print(line)
            if "stable tests not passing: 0" not in r.stdout:
                print("FAIL step4: pinned tests do not all pass with the patch")
                return 1
        ok = True
        print("CONFIRMED")
        return 0
    finally:
        subprocess.run(["git", "-C", "/repo", "worktree", "remove", "--force", str(wt)], capture_output=True)
        shutil.rmtree(base, ignore_errors=True)
        subprocess.run(["git", "-C", "/repo", "worktree", "prune"], capture_output=True)


if __name__ == "__main__":
    sys.exit(main())
