#!/venv/bin/python
"""Run every check against every seeded change (scratch copies under /var/tmp) and record the outcome.

usage: seed_matrix.py [id ...]
Writes checks = {fired: [...], errors: [...]} into seeded/<id>/meta.json and the table seeded/MATRIX.md."""
import json, subprocess, sys
from concurrent.futures import ThreadPoolExecutor
from pathlib import Path

VERIF = Path(__file__).resolve().parent.parent
ids = sys.argv[1:] or sorted(p.parent.name for p in (VERIF / "seeded").glob("*/meta.json"))


def one(sid):
    pr = subprocess.run([str(VERIF / "tools" / "eval_seeded.py"), str(VERIF / "seeded" / sid / "patch.diff")], capture_output=True, text=True)
    last = pr.stdout.strip().splitlines()[-1] if pr.stdout.strip() else ""
    fired, errors = [], []
    if last.startswith("FIRED:"):
        a, b = last.split("|")
        fired = [x for x in a.split(":", 1)[1].strip().split(",") if x and x != "none"]
        errors = [x for x in b.split(":", 1)[1].strip().split(",") if x and x != "none"]
    rules = {}
    for l in pr.stdout.splitlines():
        if " rc=1 " in l and "[" in l:
            rules[l.split()[0]] = l[l.index("[") + 1:l.index("]")]
    return sid, fired, errors, rules


with ThreadPoolExecutor(4) as ex:
    res = list(ex.map(one, ids))
for sid, fired, errors, rules in res:
    mp = VERIF / "seeded" / sid / "meta.json"
    meta = json.loads(mp.read_text())
    meta["checks"] = {"fired": fired, "errors": errors, "rules": rules}
    mp.write_text(json.dumps(meta, indent=1) + "\n")
    print(sid, "FIRED", ",".join(fired) or "-", "ERR", ",".join(errors) or "-")
rows = []
for mp in sorted((VERIF / "seeded").glob("*/meta.json")):
    m = json.loads(mp.read_text())
    c = m.get("checks", {})
    own = "yes" if m["property"] in c.get("fired", []) else ("other" if c.get("fired") else "NO")
    rows.append(f"| {m['id']} | {m['change'][:110]} | {', '.join(c.get('fired', [])) or '-'} | {'; '.join(f'{k}: {v}' for k, v in c.get('rules', {}).items())[:140]} | {own} |")
(VERIF / "seeded" / "MATRIX.md").write_text("| seeded change | what | checks that fire | rule | own property fires |\n|---|---|---|---|---|\n" + "\n".join(rows) + "\n")
