#!/usr/bin/env python3
"""Run the pinned baseline test command in a directory and compare with BASELINE.json stable_pass.
usage: baseline_check.py <repo dir>"""
import json, subprocess, sys, tempfile, os, xml.etree.ElementTree as ET
d = sys.argv[1]
base = json.load(open('/root/.vp/BASELINE.json'))
junit = tempfile.mktemp(suffix='.xml', dir='/var/tmp')
subprocess.run(['/venv/bin/python','-m','pytest','-ra','-q','-p','no:cacheprovider','--timeout=900','--continue-on-collection-errors',f'--junitxml={junit}'],cwd=d,stdout=subprocess.DEVNULL,stderr=subprocess.DEVNULL)
passed=set()
for tc in ET.parse(junit).getroot().iter('testcase'):
    if not any(ch.tag in('failure','error','skipped') for ch in tc):
        passed.add(f"{tc.get('classname')}::{tc.get('name')}")
os.unlink(junit)
stable=set(base['stable_pass'])
missing=sorted(stable-passed)
print(f"passed {len(passed)}; stable_pass {len(stable)}; stable tests not passing: {len(missing)}")
for m in missing[:20]: print('  MISSING',m)
for f in os.listdir(d):
    if f.startswith('suit-generator.log.') : os.unlink(os.path.join(d,f))
sys.exit(1 if missing else 0)
