#!/venv/bin/python
"""Blind-spot probe: classic mutation operators on the anchored files, checked by the properties anchored there.

usage: mutation_probe.py <relpath> [--max N] [--seed S] [--props C01,C02] [--jobs J]

Each mutant is one AST edit of <relpath> in a scratch copy (under /var/tmp, removed afterwards).  The probe prints the mutants
on which every listed check stays silent (exit 0) - candidates for a missing rule.  Many of them are equivalent or irrelevant
to the properties (messages, logging, defensive checks); they are triaged by hand, the probe itself is not a verdict and is
not registered in MANIFEST.json.  Mutants are NOT filtered by the test suite."""
import argparse, ast, copy, json, random, shutil, subprocess, sys, tempfile
from concurrent.futures import ThreadPoolExecutor
from pathlib import Path

VERIF = Path(__file__).resolve().parent.parent
COPY = ("suit_generator", "ncs", "build_configuration", "requirements.txt")

CMP = {ast.Lt: ast.LtE, ast.LtE: ast.Lt, ast.Gt: ast.GtE, ast.GtE: ast.Gt, ast.Eq: ast.NotEq, ast.NotEq: ast.Eq, ast.Is: ast.IsNot, ast.IsNot: ast.Is,
       ast.In: ast.NotIn, ast.NotIn: ast.In}
BIN = {ast.Add: ast.Sub, ast.Sub: ast.Add, ast.Mult: ast.FloorDiv, ast.FloorDiv: ast.Mult, ast.LShift: ast.RShift, ast.RShift: ast.LShift,
       ast.BitAnd: ast.BitOr, ast.BitOr: ast.BitAnd, ast.Mod: ast.FloorDiv}


def sites(tree):
    """[(kind, node-index, detail)] enumerated deterministically"""
    out = []
    nodes = list(ast.walk(tree))
    for i, n in enumerate(nodes):
        if isinstance(n, ast.Compare) and len(n.ops) == 1 and type(n.ops[0]) in CMP:
            out.append(("cmp", i, None))
        elif isinstance(n, ast.BinOp) and type(n.op) in BIN and not (isinstance(n.left, ast.Constant) and isinstance(n.left.value, str)):
            out.append(("bin", i, None))
        elif isinstance(n, ast.BoolOp):
            out.append(("bool", i, None))
        elif isinstance(n, ast.Constant) and isinstance(n.value, int) and not isinstance(n.value, bool):
            out.append(("int+1", i, None))
        elif isinstance(n, ast.UnaryOp) and isinstance(n.op, ast.Not):
            out.append(("not", i, None))
        elif isinstance(n, ast.Call) and len(n.args) >= 2 and not any(isinstance(a, ast.Starred) for a in n.args):
            out.append(("swapargs", i, None))
        elif isinstance(n, (ast.If,)) and not n.orelse:
            out.append(("if-true", i, None))
        elif isinstance(n, ast.Expr) and isinstance(n.value, ast.Call):
            out.append(("delcall", i, None))
        elif isinstance(n, ast.Return) and n.value is not None and not isinstance(n.value, ast.Constant):
            out.append(("retnone", i, None))
        elif isinstance(n, ast.Subscript) and isinstance(n.slice, ast.Slice):
            out.append(("slice", i, None))
        elif isinstance(n, ast.Continue):
            out.append(("cont2break", i, None))
        elif isinstance(n, ast.Break):
            out.append(("break2cont", i, None))
        if isinstance(n, ast.Compare) and len(n.ops) == 1 and isinstance(n.ops[0], (ast.Is, ast.IsNot)) and isinstance(n.comparators[0], ast.Constant) \
                and n.comparators[0].value is None:
            out.append(("none2falsy", i, None))
    return out


def mutate(src, kind, idx):
    tree = ast.parse(src)
    nodes = list(ast.walk(tree))
    n = nodes[idx]
    line = getattr(n, "lineno", 0)
    before = ast.unparse(n)[:90]
    if kind == "cmp":
        n.ops = [CMP[type(n.ops[0])]()]
    elif kind == "bin":
        n.op = BIN[type(n.op)]()
    elif kind == "bool":
        n.op = ast.Or() if isinstance(n.op, ast.And) else ast.And()
    elif kind == "int+1":
        n.value = n.value + 1
    elif kind == "not":
        parent_fix = n.operand
        for p in nodes:
            for f, v in ast.iter_fields(p):
                if v is n:
                    setattr(p, f, parent_fix)
                elif isinstance(v, list) and n in v:
                    v[v.index(n)] = parent_fix
    elif kind == "swapargs":
        n.args[0], n.args[1] = n.args[1], n.args[0]
    elif kind == "if-true":
        n.test = ast.Constant(True)
    elif kind == "delcall":
        for p in nodes:
            for f, v in ast.iter_fields(p):
                if isinstance(v, list) and n in v:
                    v[v.index(n)] = ast.Pass()
    elif kind in ("cont2break", "break2cont", "none2falsy"):
        new = ast.Break() if kind == "cont2break" else ast.Continue() if kind == "break2cont" else (
            ast.UnaryOp(op=ast.Not(), operand=n.left) if isinstance(n.ops[0], ast.Is) else n.left)
        for p in nodes:
            for f, v in ast.iter_fields(p):
                if v is n:
                    setattr(p, f, new)
                elif isinstance(v, list) and n in v:
                    v[v.index(n)] = new
        n = new
    elif kind == "retnone":
        n.value = ast.Constant(None)
    elif kind == "slice":
        s = n.slice
        if s.upper is not None:
            s.upper = ast.BinOp(left=s.upper, op=ast.Sub(), right=ast.Constant(1))
        elif s.lower is not None:
            s.lower = ast.BinOp(left=s.lower, op=ast.Add(), right=ast.Constant(1))
        else:
            return None
    ast.fix_missing_locations(tree)
    try:
        out = ast.unparse(tree) + "\n"
        compile(out, "m", "exec")
    except Exception:
        return None
    after = ast.unparse(n)[:90] if kind not in ("not", "delcall") else "(removed)"
    return out, line, before, after


def run(rel, props, mutant):
    kind, idx, out, line, before, after = mutant
    d = Path(tempfile.mkdtemp(prefix="sgmut_", dir="/var/tmp"))
    try:
        for c in COPY:
            src = Path("/repo") / c
            if src.is_dir():
                shutil.copytree(src, d / c, ignore=shutil.ignore_patterns("__pycache__", "*.pyc"))
            elif src.is_file():
                shutil.copy(src, d / c)
        (d / rel).write_text(out)
        rcs = {}
        for p in props:
            pr = subprocess.run([str(VERIF / "check"), p, "--repo", str(d), "--no-write"], capture_output=True, text=True, cwd=str(VERIF))
            rcs[p] = pr.returncode
        return kind, line, before, after, rcs
    finally:
        shutil.rmtree(d, ignore_errors=True)


def main():
    ap = argparse.ArgumentParser()
    ap.add_argument("rel")
    ap.add_argument("--max", type=int, default=200)
    ap.add_argument("--seed", type=int, default=1)
    ap.add_argument("--props", default=None)
    ap.add_argument("--jobs", type=int, default=14)
    ap.add_argument("--lines", default=None, help="restrict to a line range a-b of the ORIGINAL file")
    ap.add_argument("--kinds", default=None, help="restrict to these mutation kinds (comma separated)")
    a = ap.parse_args()
    anchors = {}
    for l in open(VERIF / "properties.jsonl"):
        p = json.loads(l)
        for f in p["anchors"]["files"]:
            anchors.setdefault(f, []).append(p["id"])
    props = a.props.split(",") if a.props else anchors.get(a.rel, [])
    src = (Path("/repo") / a.rel).read_text()
    # normalise first so that line numbers of mutants refer to the unparsed original
    base = ast.unparse(ast.parse(src)) + "\n"
    ss = sites(ast.parse(base))
    if a.lines:
        lo, hi = map(int, a.lines.split("-"))
        nodes = list(ast.walk(ast.parse(base)))
        ss = [s for s in ss if lo <= getattr(nodes[s[1]], "lineno", 0) <= hi]
    if a.kinds:
        ss = [s for s in ss if s[0] in a.kinds.split(",")]
    random.Random(a.seed).shuffle(ss)
    muts = []
    for kind, idx, _ in ss:
        m = mutate(base, kind, idx)
        if m is None:
            continue
        muts.append((kind, idx) + m)
        if len(muts) >= a.max:
            break
    with ThreadPoolExecutor(a.jobs) as ex:
        res = list(ex.map(lambda m: run(a.rel, props, m), muts))
    det = sum(1 for r in res if any(v == 1 for v in r[4].values()))
    err = sum(1 for r in res if not any(v == 1 for v in r[4].values()) and any(v == 2 for v in r[4].values()))
    print(f"{a.rel}: {len(res)} mutants, props {props}: reported {det}, analysis-error only {err}, silent {len(res) - det - err}")
    for kind, line, before, after, rcs in sorted(res, key=lambda r: r[1]):
        if not any(v == 1 for v in rcs.values()):
            tag = "ERR " if any(v == 2 for v in rcs.values()) else "MISS"
            print(f"  {tag} line {line:4d} {kind:8s} {before!r} -> {after!r}")
    return 0


if __name__ == "__main__":
    sys.exit(main())
