#!/venv/bin/python
"""Re-confirm every kept seeded change against /repo's current HEAD (after later fix: commits): the patch still applies with
`git apply`, the demonstration passes without it and fails with it.  usage: reconfirm_all.py [--refresh] [ids...]
--refresh: when `git apply` fails but `patch -p1 --fuzz=3` succeeds, rewrite patch.diff as the diff against the current HEAD."""
import json, os, shutil, subprocess, sys, tempfile
from concurrent.futures import ThreadPoolExecutor
from pathlib import Path

VERIF = Path(__file__).resolve().parent.parent
refresh = "--refresh" in sys.argv
ids = [a for a in sys.argv[1:] if not a.startswith("--")] or sorted(p.parent.name for p in (VERIF / "seeded").glob("*/meta.json"))


def demo(wt, demo_src):
    d = Path(wt).parent / "demo.py"
    d.write_text(demo_src.replace("/repo", str(wt)))
    env = dict(os.environ, PYTHONPATH=str(wt), SEED_REPO=str(wt), SUIT_REPO=str(wt), SUIT_ROOT=str(wt))
    try:
        import re
        takes_tree = re.search(r"=\s*sys\.argv\[1\]\s+if\s+len\(sys\.argv\)\s*>\s*1", demo_src) is not None
        pr = subprocess.run(["/venv/bin/python", str(d)] + ([str(wt)] if takes_tree else []), cwd=str(wt), env=env, capture_output=True, text=True, timeout=1200)
        return pr.returncode
    except subprocess.TimeoutExpired:
        return 124


def one(sid):
    sd = VERIF / "seeded" / sid
    base = Path(tempfile.mkdtemp(prefix="sgre_", dir="/var/tmp"))
    wt = base / "wt"
    try:
        subprocess.check_call(["git", "-C", "/repo", "worktree", "add", "-q", "--detach", str(wt), "HEAD"])
        src = (sd / "demo.py").read_text()
        before = demo(wt, src)
        r = subprocess.run(["git", "-C", str(wt), "apply", str(sd / "patch.diff")], capture_output=True, text=True)
        how = "git-apply"
        if r.returncode != 0:
            r2 = subprocess.run(["patch", "-p1", "-s", "--fuzz=3", "-d", str(wt), "-i", str(sd / "patch.diff")], capture_output=True, text=True)
            if r2.returncode != 0:
                return sid, "NO-APPLY", before, None
            how = "fuzz"
            for junk in list(wt.rglob("*.orig")) + list(wt.rglob("*.rej")):
                junk.unlink()
            if refresh:
                diff = subprocess.check_output(["git", "-C", str(wt), "diff"], text=True)
                (sd / "patch.diff").write_text(diff)
        after = demo(wt, src)
        return sid, how, before, after
    finally:
        subprocess.run(["git", "-C", "/repo", "worktree", "remove", "--force", str(wt)], capture_output=True)
        shutil.rmtree(base, ignore_errors=True)


with ThreadPoolExecutor(8) as ex:
    res = list(ex.map(one, ids))
subprocess.run(["git", "-C", "/repo", "worktree", "prune"])
bad = 0
for sid, how, b, a in res:
    ok = how != "NO-APPLY" and b == 0 and a not in (0, None)
    if not ok or how == "fuzz":
        print(f"{sid}: {how} demo without={b} with={a} {'OK' if ok else 'PROBLEM'}")
    bad += 0 if ok else 1
print(f"{len(res) - bad}/{len(res)} seeded changes re-confirmed against HEAD")
