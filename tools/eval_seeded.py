#!/venv/bin/python
"""Evaluate the checks against a seeded change.

usage: eval_seeded.py <patch.diff> [--props C01,C02|all] [--in-place]
  default: the patch is applied to a scratch copy of /repo's packages (under /var/tmp) and every requested check runs with
           --repo <copy> --no-write;
  --in-place: apply to /repo itself with `git apply`, run the checks, and undo with `git checkout -- .` (what the task
           description prescribes for the final confirmation).
Prints one line per property: exit code and the first violation line."""
import argparse, os, shutil, subprocess, sys, tempfile
from concurrent.futures import ThreadPoolExecutor
from pathlib import Path

VERIF = Path(__file__).resolve().parent.parent
ALL = [f"C{i:02d}" for i in range(1, 21)]
COPY = ("suit_generator", "ncs", "build_configuration", "requirements.txt")


def run_check(prop, repo, tier):
    pr = subprocess.run([str(VERIF / "check"), prop, "--repo", str(repo), "--no-write", "--tier", tier], capture_output=True, text=True, cwd=str(VERIF))
    first = next((l.strip() for l in pr.stdout.splitlines() if l.startswith("  ") and "[" in l), "")
    if pr.returncode == 2:
        first = next((l for l in pr.stdout.splitlines() if "ANALYSIS-ERROR" in l), "")
    return prop, pr.returncode, first[:230]


def main():
    ap = argparse.ArgumentParser()
    ap.add_argument("patch")
    ap.add_argument("--props", default="all")
    ap.add_argument("--in-place", action="store_true")
    ap.add_argument("--tier", default="quick")
    a = ap.parse_args()
    props = ALL if a.props == "all" else a.props.split(",")
    patch = Path(a.patch).resolve()
    if a.in_place:
        subprocess.check_call(["git", "-C", "/repo", "apply", str(patch)])
        try:
            with ThreadPoolExecutor(8) as ex:
                res = list(ex.map(lambda p: run_check(p, "/repo", a.tier), props))
        finally:
            subprocess.check_call(["git", "-C", "/repo", "checkout", "--", "."])
    else:
        d = Path(tempfile.mkdtemp(prefix="sgseed_", dir="/var/tmp"))
        try:
            for c in COPY:
                src = Path("/repo") / c
                if src.is_dir():
                    shutil.copytree(src, d / c, ignore=shutil.ignore_patterns("__pycache__", "*.pyc"))
                elif src.is_file():
                    shutil.copy(src, d / c)
            r = subprocess.run(["patch", "-p1", "-s", "-d", str(d), "-i", str(patch)], capture_output=True, text=True)
            if r.returncode != 0:
                print("PATCH DOES NOT APPLY:", r.stdout[-300:], r.stderr[-300:])
                return 3
            with ThreadPoolExecutor(8) as ex:
                res = list(ex.map(lambda p: run_check(p, d, a.tier), props))
        finally:
            shutil.rmtree(d, ignore_errors=True)
    fired = [p for p, rc, _ in res if rc == 1]
    for p, rc, first in res:
        if rc != 0:
            print(f"{p} rc={rc} {first}")
    print("FIRED:", ",".join(fired) or "none", "| ERRORS:", ",".join(p for p, rc, _ in res if rc == 2) or "none")
    return 0


if __name__ == "__main__":
    sys.exit(main())
