#!/venv/bin/python
"""Regenerate MANIFEST.json from the table below (kept in one place so that it stays valid at all times)."""
import json
import sys
from pathlib import Path

VERIF = Path(__file__).resolve().parent.parent

TB = ("Trusted base: CPython ast; the engine in sa/ (resolver, abstract evaluator, call graph); the reference tables "
      "under reference/ (transcribed from the specifications / device ABI, see DESIGN.md appendices). ")

CLAIMS = {
    "C02": dict(
        text="Static, partial: decides the table-driven part of the wire format on every run — every member/command/"
             "parameter/algorithm code, every bstr wrap layer, container kind, pair grouping, union order and tag equals "
             "a reference shape keyed by registry codes; generic encoders keep description order, use default cbor2 "
             "options, write codes/look up names, add exactly one layer per cbstr and have no value-dependent branching. "
             "Right level because the format is defined by finite tables that a static extractor sees completely.",
        note=TB + "NOT decided: shortest-form/definite-length encoding of values (cbor2 behaviour), byte-for-byte equality "
                  "with a reference encoder over generated descriptions.",
        technique="schema-graph extraction from Metadata tables + lock-step comparison with a spec-derived reference shape; "
                  "abstract evaluation of generic encoders; call-graph effect scan",
        ref="5/C02"),
    "C08": dict(
        text="Static, exhaustive: every (key space, name, code) triple of the vocabulary is extracted from source and "
             "compared with a registry written from the specifications; uniqueness per key space and across the shared "
             "command code space; tags; enums restated in ncs/; generic lookup code proven to use the node's own table by "
             "name when encoding and by id when decoding and to reject unknown names. The vocabulary is finite, so this is "
             "a complete enumeration rather than a sample.",
        note=TB + "The registry's names are the tool's documented vocabulary; its codes come from the drafts/RFCs.",
        technique="exhaustive table extraction (ast constant folding) + registry comparison; abstract evaluation of the generic lookup methods",
        ref="5/C08"),

    "C04": dict(
        text="Static, partial: abstract evaluation of the signer decides that the KMS input is exactly "
             "cbor(['Signature1', bstr(protected), h'', bstr(digest of this envelope)]), that the block appended is "
             "bstr(cbor(Tag18([same protected bstr, {}, nil, KMS result]))) stored back under key 2 and nothing else is "
             "written, that {1: alg, 4: bstr(cbor(key id))} holds with the algorithm table total and equal to the registry "
             "for all five members, that r||s widths are one expression independent of the signature value giving "
             "32/48/66, curve->hash table, EdDSA/HashEdDSA dispatch, CLI load/sign/save wiring, and that no decoded tag "
             "content is mutated in place (cbor2>=6).",
        note=TB + "NOT decided: that the signature verifies under the public key; byte identity of cbor2.dump(cbor2.load(x)).",
        technique="abstract evaluation to byte-layout terms; table folding; data-independence of a width; write-set and "
                  "provenance (interprocedural) analysis",
        ref="5/C04"),
    "C06": dict(
        text="Static, partial: the hard-coded AAD literal is compared with cbor(['Encrypt', <protected bstr actually "
             "emitted>, h'']) (the tie no test makes); provenance of plaintext/AAD/key into AES-GCM; digest, size and "
             "ciphertext consume the same firmware bytes; asset layout nonce(12)|tag(16)|ct and parse boundaries coincide; "
             "both CLI writers emit tag||ct and the other artifacts into the right files; COSE_Encrypt shape/codes with "
             "exactly two dumps layers; wrap-depth algebra of the raw/file encryption-info form; sibling digest tables.",
        note=TB + "NOT decided: that the ciphertext decrypts; that the key file holds a 256-bit key.",
        technique="abstract evaluation to byte-layout terms + constant folding with the verifier's own CBOR encoder; provenance analysis",
        ref="5/C06"),
    "C12": dict(
        text="Static, near-full: MpiGenerator.generate is evaluated to a byte-layout term; the complete 2x2x3 policy "
             "decision table plus rejection is expanded and compared with the reference record (01|dp|iu|sv|FFx12|vid|cid, "
             "0xFF padding to size, placed at address, written to the output file); merge: bounds test in linear normal "
             "form raising before the merge, overlap='error', 0xFF fill before extraction, inclusive end giving exactly "
             "size bytes, SHA-256 over exactly that string, appended, placed at address; CLI choices and argument plumbing.",
        note=TB + "Library facts about intelhex (merge default overlap='error', tobinstr inclusive end) are assumed from "
                  "the installed source. NOT decided: Intel-HEX rendering.",
        technique="abstract evaluation to byte-layout terms; exhaustive decision-table expansion; linear normal forms; effect ordering on all paths",
        ref="5/C12"),
    "C13": dict(
        text="Static, full for the derivations: the three sites (description encoder, MPI record, storage role table) "
             "evaluate to the same canonical uuid5 terms; lookup key equals store key; Kconfig plumbing reads vendor and "
             "class from the same manifest, maps ROOT/APP_LOCAL_1/RAD_LOCAL_1 to the intended roles, and rejects a "
             "duplicate pair before recording it. The derivation is pure, so term equality is the property.",
        note=TB + "uuid.UUID.hex == UUID.bytes.hex() (CPython library fact).",
        technique="canonical-term equality of sibling derivations (abstract evaluation); structure checks on the Kconfig plumbing",
        ref="5/C13"),
    "C14": dict(
        text="Static, structure of freshness: every AEAD encryption site is found; its nonce argument must be a direct "
             "os.urandom(12) draw inside the same activation (single reaching definition), never stored, with no cache "
             "decorator on the encrypt path; the value used is element 0 of the result, bytes [0,12) of the asset, and the "
             "only value under header key 5. A constant, counter, class-level, default-argument, cached or "
             "plaintext-derived nonce is reported.",
        note=TB + "NOT decided: pairwise distinctness of 10^5 draws (statistical property of the OS RNG).",
        technique="provenance (reaching-definition) analysis on abstract terms + call-graph scan for memoisation + byte-layout terms",
        ref="5/C14"),
    "C16": dict(
        text="Static, near-full: create_files_for_update is evaluated end-to-end (helpers inlined) with symbolic cache "
             "count: little-endian u32 fields, field count == value count for every k, values [0x55AA55AA, 1, partition "
             "address, getsize(same input file)] + k x [0,0], placed alone at the info address, written to the storage "
             "file; bin2hex(input, partition file, partition address) with error check; argument plumbing from the CLI and "
             "ncs/build.py by name.",
        note=TB + "NOT decided: Intel-HEX extended-address rendering (library).",
        technique="abstract evaluation with symbolic repeat count; struct-format folding; provenance; argument-name binding rule",
        ref="5/C16"),
    "C20": dict(
        text="Static, partial: pre-release table folded to {alpha<beta<rc<0}; converter outcomes (numeric->int, label->"
             "exact-name member value, failure->ValueError, other types rejected); '-' normalised before splitting; default "
             "sequence number extracted as a shift polynomial with decreasing shifts and gaps >= 8 (closed-form "
             "monotonicity for lower fields < 256), and when the stored term is not that normal form it is evaluated on ordered "
             "version tuples to find a concrete counterexample; labels the build glue can emit (regex flags included) are labels "
             "the encoder accepts; the position of the pre-release label is independent of the field count (necessary for the "
             "order to coincide across field counts - violated today: one recorded known finding).",
        note=TB + "NOT decided: order isomorphism for all pairs of strings (relation over values).",
        technique="table folding; outcome enumeration by abstract evaluation; polynomial extraction; refutation by term evaluation; regex AST parsing",
        ref="5/C20"),

    "C01": dict(
        text="Static, partial: typestate over every construction site of the full envelope model proves that each site that "
             "serialises (3 today) calls update_severable_digests then update_digest before to_cbor/get_manifest_digest on every "
             "path; access-path analysis proves that each refresher hashes the byte-string-wrapped member taken from the same "
             "envelope map (wrap decided on the schema graph), reads the algorithm from position 0 of the very digest whose "
             "position 1 it overwrites, for the manifest and for each of the six severable members, that no member the "
             "manifest can reference by digest is missing from the list, that the overwrite is not control-dependent on the "
             "supplied digest, and that the hash table has the five algorithms with the stated output lengths.",
        note=TB + "NOT decided: numeric equality of a digest with the bytes; that to_cbor() of the parsed member reproduces the "
                  "bytes for every integer/length width (cbor2 round trip on values).",
        technique="typestate (must-precede on all paths) + access-path/provenance analysis on abstract terms + table folding",
        ref="5/C01"),
    "C05": dict(
        text="Static, partial: for every reference form the value create stores is compared with the reference derivation: "
             "file -> SuitHash(object's own algorithm).hash(whole binary content of that branch's path), file_direct -> whole "
             "content as hex, envelope -> child built from inline description or whole file, refreshed, manifest digest under "
             "the parent's algorithm, raw -> identity; sizes via getsize / len(processed child) / int(text) / identity; payloads "
             "inline / path / hex; embedded dependency goes through the same four-call pipeline as stand-alone creation. The "
             "hex-before-path classification order is a recorded known finding.",
        note=TB + "Recognised 'whole binary content' idiom: open(p,'rb') + read() with no argument. NOT decided: equality of "
                  "digests/sizes with the files' contents.",
        technique="provenance analysis (backward slice on abstract terms) per reference form; sibling agreement of pipelines",
        ref="5/C05"),
    "C07": dict(
        text="Static, partial: both SoC slot tables folded and checked (roles unique/complete, slots disjoint, domain = role & "
             "0xF0, equal to the storage ABI reference), default class tables; add_envelope evaluated abstractly: slot record "
             "cbor({0:1,1:offset,2:envelope}), class id = 16 bytes at the recorded offset of the same bytes that are stored, "
             "prefix constant re-derived from the schema with the verifier's CBOR encoder, five rejections each dominating the "
             "single commit with the exact size comparison; placement/padding/domain filter all from one layout entry; all "
             "adds precede the first write (across loop iterations); sever list vs. schema-derived severable set.",
        note=TB + "reference/storage_abi.json is the device ABI transcribed from the pinned tree (no independent source offline); "
                  "the structural invariants are independent of it. NOT decided: byte identity of the re-encoded "
                  "manifest/wrapper; that the byte search hits the component id and not an earlier coincidence.",
        technique="table folding + arithmetic on constants; abstract evaluation; dominance (reject-before-commit, add-before-write)",
        ref="5/C07"),
    "C09": dict(
        text="Static, partial: every already-signed action has its own branch with its own effect set (error raises before any "
             "change; remove-old removes the matched tag-18 block and stores the list back and falls through; skip only sets "
             "a flag that is reset per call and tested before the KMS/add_signature); key/algorithm check dominates signing, "
             "fails closed and accepts exactly {EC-n: es-n, Ed: eddsa|hash-eddsa}; no output before signing returned, no "
             "swallowing handler, dependency checks (4 refusals) before any signature; recursive wiring (child = own bytes, own "
             "config, own name, inherited script/KMS/alg/context; node's own key; bottom-up; stored back under the same name; "
             "omit-signing guards only the node's signature); configuration keys never read unguarded; decoded-tag mutation rule.",
        note=TB + "NOT decided: that the right key produced a verifying signature; byte identity after cbor2 re-encoding.",
        technique="abstract evaluation with guard-indexed effects; dominance/typestate; enum exhaustiveness; configuration-key contradiction rule (AST dominance)",
        ref="5/C09"),
    "C10": dict(
        text="Static, partial: slot layout [BF]|cbor(uri)|5A|u32be len(data)|data with header byte checked against the width "
             "that follows and the value encoded; BF only under the first-slot guard cleared in the same branch; padding "
             "arithmetic decided without enumerating sizes: round-up recognised, invariant rounded-len==padding on every "
             "path (linear normal forms), padding in {0,1} cannot reach the header code (tiny integer-constraint check over "
             "the remainder and block size), header bytes emitted == declared bookkeeping, declared length fits the header "
             "form in each branch, zero fill; duplicate URI raises before anything is recorded; close appends one FF before "
             "the only write; merge re-adds every non-empty key with its own value through add_cache_slot. When the padding "
             "arithmetic is not in a recognised form the result term of add_padding is evaluated on a grid of sizes: a malformed "
             "result is reported with the sizes as witness, no counterexample stays ANALYSIS-ERROR (prove or refute).",
        note=TB + "NOT decided: that the file decodes to exactly the supplied pairs (cbor2 decoder on the indefinite map).",
        technique="byte-layout abstract evaluation + linear/interval reasoning on the padding size + dominance; refutation by term evaluation",
        ref="5/C10"),
    "C11": dict(
        text="Static, partial: the two lists the extraction loop and the dependency loop walk are extracted as terms and evaluated "
             "on a grid of key sets x patterns (fullmatch vs match/search, both polarities, None, non-string keys, a key matching "
             "both patterns; loops folded with Python's live-list semantics) against the specification - dependencies = string "
             "keys fully matching the dependency pattern, extracted = the other string keys not fully matching the omit pattern, "
             "disjoint (rules on normal forms as fallback); each extracted key popped (not copied) and handed to the "
             "cache under the same key; each dependency recursed with the same two patterns and stored back under its own "
             "key; write set on the envelope map is exactly that; result re-encodes the same tag; single extraction pops, "
             "optionally replaces under the same name with the whole replacement file, writes the popped bytes unmodified, "
             "dumps after the modification; decoded-tag mutation rule.",
        note=TB + "NOT decided: byte identity of untouched members after cbor2.dumps.",
        technique="abstract evaluation (same-key pairing, write-set, provenance) + evaluation of the extracted selection terms on a separating grid + interprocedural provenance fixpoint for decoded tag content",
        ref="5/C11"),
    "C15": dict(
        text="Static, partial: X||Y widths are one expression independent of the coordinate values evaluating to 32/48/66, big "
             "endian, X then Y; raw fallback only on AttributeError; key bytes depend on the key file only (no converter option "
             "reaches them); rows cover every byte once in order, trailing comma removal, sizeof(<same array>); generator call "
             "passes a curve instance as the installed cryptography requires; curve table, Ed dispatch, exactly one key "
             "generated per pair and public derived from it, encodings/formats from the CLI tables whose choices are the "
             "tables' own keys; ValueError -> GeneratorError.",
        note=TB + "Library fact: cryptography rejects a curve class ('curve must be an EllipticCurve instance'). NOT decided: "
                  "that the files load with standard tooling.",
        technique="data-independence of a width (abstract terms) + non-interference + library-fact call conformance + table checks",
        ref="5/C15"),

    "C03": dict(
        text="Static, partial (structural necessary conditions of the round trip): keys a custom to_obj emits are keys its "
             "from_obj accepts; paired conversions are inverses (hex/unhex over the full value, json dumps/loads for structured "
             "map keys, star expansion of tuple names, no filtering/slicing/case change in any renderer); every dump of the "
             "parse output keeps key order; format tables symmetric and dispatched by their own key; hierarchy expansion "
             "replaces a dependency only by the parse of that very value, YAML anchors precede aliases, expansion only on "
             "request; union alternatives, their order and the size constraints that disambiguate byte strings equal the "
             "reference; validator symmetry between the parse and create entry points of each leaf type (two recorded known "
             "findings).",
        note=TB + "NOT decided: byte identity of manifest / wrapper / severed members after parse->create; equality of payload "
                  "sets; full round-trip equality over the recursive grammar (relation over values).",
        technique="writer/reader agreement by abstract evaluation + AST facts; schema-shape comparison; predicate-set comparison of sibling entry points",
        ref="5/C03"),
    "C17": dict(
        text="Static, error discipline: a may-escape analysis with untrusted-value narrowing over all from_cbor / to_obj / "
             "__init__ / helper methods of the schema classes (47 functions): every operation on a decoder-controlled value "
             "must be dominated by a type/length check, go through the converting helpers or sit in a handler; classes that "
             "can leave the parser must be within {ValueError family, SUITError, CBORDecodeError}; every from_cbor call passes "
             "bytes; sibling signatures; nullable metadata fields; cbor2.loads only inside deserialize_cbor after validation "
             "under a converting catch-all; the decoded item passes a value-sharing guard before it is returned (CBOR tags 28/29, "
             "repaired in fe22bac) and refuses a Decimal signaling NaN, the one decoder product whose == raises (repaired in "
             "40cfe16); every while loop of the parser advances on each path back to its head; schema cycles "
             "through a byte-string-wrapped edge need a depth guard (one recorded known finding).",
        note=TB + "Exception hierarchy and decoder facts (cbor2 max_depth=400; hasattr(x,'tag') only for CBORTag) are library "
                  "facts. NOT decided: time and memory proportional to the input.",
        technique="may-escape (exception) analysis with flow-sensitive type narrowing of untrusted values; signature conformance; SCC analysis of the schema graph",
        ref="5/C17"),
    "C18": dict(
        text="Static, effect freedom: over the call graph of create/parse/image/mpi/cache_create/payload_extract/convert (145 "
             "functions) no clock, RNG, uuid1/uuid4, id(), hash(), environment, cwd, unsorted listing or set construction is "
             "reachable and no cache decorator exists; on sign/encrypt only the KMS signature, the one os.urandom(12) and the "
             "module-name uuid4 (proved to flow only into the sys.modules key) are allowed; all 250 functions scanned: no store "
             "to a module global, class attribute or class-level container, type metadata written only by the three "
             "module-level patches; signer/encryptor attributes assigned in the same activation before any read; both text "
             "loaders return the parsed description unmodified into one pipeline.",
        note=TB + "Call graph: name-based class-hierarchy analysis (over-approximation), unresolved call sites counted in the "
                  "evidence. NOT decided: equality of outputs across process histories (needs execution).",
        technique="effect analysis over a whole-program call graph (CHA) + write-set scan for shared state + per-call state by abstract evaluation",
        ref="5/C18"),
    "C19": dict(
        text="Static, all paths: the Jinja AST of both shipped templates is interpreted over every configuration of the "
             "`is defined` atoms (root: 7 non-empty image subsets x sequence/version variables x radio aliases x "
             "default/custom MPI names = 896; top: 16) with placeholder tokens for unknown leaves; each resulting document is "
             "type-checked against the schema graph extracted from the encoder (every key in the key space of its position, "
             "every enum literal, every policy bit) and walked: component indices in range, dependency keys are manifest "
             "components, each fetched #name embedded under that name with its digest computed from the embedded file, "
             "components/identifiers follow the present images and configured-or-default names whose defaults carry the "
             "expected roles in the storage table; build glue order.",
        note=TB + "jinja2 and PyYAML are used as parsers only. NOT decided: behaviour with concrete child envelopes (equality of "
                  "the digests themselves is C05).",
        technique="abstract interpretation of the Jinja AST (exhaustive over configurations) + schema type-check + manifest walk",
        ref="5/C19"),
}

NOT_YET = "check not built yet in this round (see DESIGN.md section 9 build order)"

ALL = [f"C{i:02d}" for i in range(1, 21)]


def main():
    sys.path.insert(0, str(VERIF))
    from rules.borrowed import BORROWED
    checks = []
    for pid in ALL:
        if pid not in CLAIMS:
            continue
        c = dict(CLAIMS[pid])
        c["note"] += (" Where an obligation is a function of finitely many guards or of a small concrete domain it is decided on the term "
                      "extracted from the source (decision table / evaluation on a separating grid); the shape rules are the proof form "
                      "(DESIGN.md 10.9). An unrecognised form is exit 2, never a VIOLATION.")
        if pid in BORROWED:
            shared = "; ".join(f"{nb}: " + ", ".join(r.split(" ")[0] for r in rules) for nb, rules in BORROWED[pid].items())
            c["note"] += f" The check also takes over rules of neighbouring checks that seeded changes showed necessary for this property ({shared}; rules/borrowed.py, DESIGN.md 10.10)."
        checks.append({
            "property_id": pid,
            "quick_cmd": f"./check {pid} --tier quick",
            "thorough_cmd": f"./check {pid} --tier thorough",
            "evidence_file": f"evidence/{pid}.json",
            "replay_cmd_template": f"./check {pid} --explain {{path}}",
            "engine": "sa",
            "level_claimed": {"category": "other", "text": c["text"], "design_ref": c["ref"]},
            "level_note": c["note"],
            "technique": c["technique"],
        })
    na = [{"property_id": p, "reason": NOT_YET} for p in ALL if p not in CLAIMS]
    man = {
        "version": 1,
        "setup_cmd": "/venv/bin/python -m compileall -q sa rules check >/dev/null && ./check C08 --tier quick --no-write >/dev/null",
        "hooks": {
            "guard": "SUIT_GENERATOR_VERIF",
            "enable": "none needed: the checks read the source only (static analysis); no hook commits exist",
            "baseline_off_cmd": "cd /repo && /venv/bin/python -m pytest -ra -q -p no:cacheprovider --timeout=900 --continue-on-collection-errors",
            "source_commits": [],
            "add_only": True,
        },
        "engines": [{"name": "sa", "path": "sa/", "serves_properties": [c["property_id"] for c in checks],
                     "kind_free_text": "repository-specific static analysis on Python ast: resolver, schema-graph extractor, "
                                       "structured abstract evaluator over a term domain, call graph, effect/escape analyses"}],
        "checks": checks,
        "not_applicable": na,
        "notes": "All checks are static analyses of /repo's current working tree (stdlib ast under /venv/bin/python; nothing of the "
                 "repository is imported or executed). exit 2 + ANALYSIS-ERROR means the analysis cannot stand behind a verdict.",
    }
    (VERIF / "MANIFEST.json").write_text(json.dumps(man, indent=1) + "\n")
    print("MANIFEST.json:", len(checks), "checks,", len(na), "not applicable")


if __name__ == "__main__":
    main()
