#!/venv/bin/python
"""Regenerate MANIFEST.json from the table below (kept in one place so that it stays valid at all times)."""
import json
import sys
from pathlib import Path

VERIF = Path(__file__).resolve().parent.parent

TB = ("Trusted base: CPython ast; the engine in sa/ (resolver, abstract evaluator, call graph); the reference tables "
      "under reference/ (transcribed from the specifications / device ABI, see DESIGN.md appendices). ")

CLAIMS = {
    "C02": dict(
        text="Static, partial: decides the table-driven part of the wire format on every run — every member/command/"
             "parameter/algorithm code, every bstr wrap layer, container kind, pair grouping, union order and tag equals "
             "a reference shape keyed by registry codes; generic encoders keep description order, use default cbor2 "
             "options, write codes/look up names, add exactly one layer per cbstr and have no value-dependent branching. "
             "Right level because the format is defined by finite tables that a static extractor sees completely.",
        note=TB + "NOT decided: shortest-form/definite-length encoding of values (cbor2 behaviour), byte-for-byte equality "
                  "with a reference encoder over generated descriptions.",
        technique="schema-graph extraction from Metadata tables + lock-step comparison with a spec-derived reference shape; "
                  "abstract evaluation of generic encoders; call-graph effect scan",
        ref="5/C02"),
    "C08": dict(
        text="Static, exhaustive: every (key space, name, code) triple of the vocabulary is extracted from source and "
             "compared with a registry written from the specifications; uniqueness per key space and across the shared "
             "command code space; tags; enums restated in ncs/; generic lookup code proven to use the node's own table by "
             "name when encoding and by id when decoding and to reject unknown names. The vocabulary is finite, so this is "
             "a complete enumeration rather than a sample.",
        note=TB + "The registry's names are the tool's documented vocabulary; its codes come from the drafts/RFCs.",
        technique="exhaustive table extraction (ast constant folding) + registry comparison; abstract evaluation of the generic lookup methods",
        ref="5/C08"),
}

NOT_YET = "check not built yet in this round (see DESIGN.md section 9 build order)"

ALL = [f"C{i:02d}" for i in range(1, 21)]


def main():
    checks = []
    for pid in ALL:
        if pid not in CLAIMS:
            continue
        c = CLAIMS[pid]
        checks.append({
            "property_id": pid,
            "quick_cmd": f"./check {pid} --tier quick",
            "thorough_cmd": f"./check {pid} --tier thorough",
            "evidence_file": f"evidence/{pid}.json",
            "replay_cmd_template": f"./check {pid} --explain {{path}}",
            "engine": "sa",
            "level_claimed": {"category": "other", "text": c["text"], "design_ref": c["ref"]},
            "level_note": c["note"],
            "technique": c["technique"],
        })
    na = [{"property_id": p, "reason": NOT_YET} for p in ALL if p not in CLAIMS]
    man = {
        "version": 1,
        "setup_cmd": "/venv/bin/python -m compileall -q sa rules check >/dev/null && ./check C08 --tier quick --no-write >/dev/null",
        "hooks": {
            "guard": "SUIT_GENERATOR_VERIF",
            "enable": "none needed: the checks read the source only (static analysis); no hook commits exist",
            "baseline_off_cmd": "cd /repo && /venv/bin/python -m pytest -ra -q -p no:cacheprovider --timeout=900 --continue-on-collection-errors",
            "source_commits": [],
            "add_only": True,
        },
        "engines": [{"name": "sa", "path": "sa/", "serves_properties": [c["property_id"] for c in checks],
                     "kind_free_text": "repository-specific static analysis on Python ast: resolver, schema-graph extractor, "
                                       "structured abstract evaluator over a term domain, call graph, effect/escape analyses"}],
        "checks": checks,
        "not_applicable": na,
        "notes": "All checks are static analyses of /repo's current working tree (stdlib ast under /venv/bin/python; nothing of the "
                 "repository is imported or executed). exit 2 + ANALYSIS-ERROR means the analysis cannot stand behind a verdict.",
    }
    (VERIF / "MANIFEST.json").write_text(json.dumps(man, indent=1) + "\n")
    print("MANIFEST.json:", len(checks), "checks,", len(na), "not applicable")


if __name__ == "__main__":
    main()
