#!/venv/bin/python
"""Regenerate MANIFEST.json from the table below (kept in one place so that it stays valid at all times)."""
import json
import sys
from pathlib import Path

VERIF = Path(__file__).resolve().parent.parent

TB = ("Trusted base: CPython ast; the engine in sa/ (resolver, abstract evaluator, call graph); the reference tables "
      "under reference/ (transcribed from the specifications / device ABI, see DESIGN.md appendices). ")

CLAIMS = {
    "C02": dict(
        text="Static, partial: decides the table-driven part of the wire format on every run — every member/command/"
             "parameter/algorithm code, every bstr wrap layer, container kind, pair grouping, union order and tag equals "
             "a reference shape keyed by registry codes; generic encoders keep description order, use default cbor2 "
             "options, write codes/look up names, add exactly one layer per cbstr and have no value-dependent branching. "
             "Right level because the format is defined by finite tables that a static extractor sees completely.",
        note=TB + "NOT decided: shortest-form/definite-length encoding of values (cbor2 behaviour), byte-for-byte equality "
                  "with a reference encoder over generated descriptions.",
        technique="schema-graph extraction from Metadata tables + lock-step comparison with a spec-derived reference shape; "
                  "abstract evaluation of generic encoders; call-graph effect scan",
        ref="5/C02"),
    "C08": dict(
        text="Static, exhaustive: every (key space, name, code) triple of the vocabulary is extracted from source and "
             "compared with a registry written from the specifications; uniqueness per key space and across the shared "
             "command code space; tags; enums restated in ncs/; generic lookup code proven to use the node's own table by "
             "name when encoding and by id when decoding and to reject unknown names. The vocabulary is finite, so this is "
             "a complete enumeration rather than a sample.",
        note=TB + "The registry's names are the tool's documented vocabulary; its codes come from the drafts/RFCs.",
        technique="exhaustive table extraction (ast constant folding) + registry comparison; abstract evaluation of the generic lookup methods",
        ref="5/C08"),

    "C04": dict(
        text="Static, partial: abstract evaluation of the signer decides that the KMS input is exactly "
             "cbor(['Signature1', bstr(protected), h'', bstr(digest of this envelope)]), that the block appended is "
             "bstr(cbor(Tag18([same protected bstr, {}, nil, KMS result]))) stored back under key 2 and nothing else is "
             "written, that {1: alg, 4: bstr(cbor(key id))} holds with the algorithm table total and equal to the registry "
             "for all five members, that r||s widths are one expression independent of the signature value giving "
             "32/48/66, curve->hash table, EdDSA/HashEdDSA dispatch, CLI load/sign/save wiring, and that no decoded tag "
             "content is mutated in place (cbor2>=6).",
        note=TB + "NOT decided: that the signature verifies under the public key; byte identity of cbor2.dump(cbor2.load(x)).",
        technique="abstract evaluation to byte-layout terms; table folding; data-independence of a width; write-set and "
                  "provenance (interprocedural) analysis",
        ref="5/C04"),
    "C06": dict(
        text="Static, partial: the hard-coded AAD literal is compared with cbor(['Encrypt', <protected bstr actually "
             "emitted>, h'']) (the tie no test makes); provenance of plaintext/AAD/key into AES-GCM; digest, size and "
             "ciphertext consume the same firmware bytes; asset layout nonce(12)|tag(16)|ct and parse boundaries coincide; "
             "both CLI writers emit tag||ct and the other artifacts into the right files; COSE_Encrypt shape/codes with "
             "exactly two dumps layers; wrap-depth algebra of the raw/file encryption-info form; sibling digest tables.",
        note=TB + "NOT decided: that the ciphertext decrypts; that the key file holds a 256-bit key.",
        technique="abstract evaluation to byte-layout terms + constant folding with the verifier's own CBOR encoder; provenance analysis",
        ref="5/C06"),
    "C12": dict(
        text="Static, near-full: MpiGenerator.generate is evaluated to a byte-layout term; the complete 2x2x3 policy "
             "decision table plus rejection is expanded and compared with the reference record (01|dp|iu|sv|FFx12|vid|cid, "
             "0xFF padding to size, placed at address, written to the output file); merge: bounds test in linear normal "
             "form raising before the merge, overlap='error', 0xFF fill before extraction, inclusive end giving exactly "
             "size bytes, SHA-256 over exactly that string, appended, placed at address; CLI choices and argument plumbing.",
        note=TB + "Library facts about intelhex (merge default overlap='error', tobinstr inclusive end) are assumed from "
                  "the installed source. NOT decided: Intel-HEX rendering.",
        technique="abstract evaluation to byte-layout terms; exhaustive decision-table expansion; linear normal forms; effect ordering on all paths",
        ref="5/C12"),
    "C13": dict(
        text="Static, full for the derivations: the three sites (description encoder, MPI record, storage role table) "
             "evaluate to the same canonical uuid5 terms; lookup key equals store key; Kconfig plumbing reads vendor and "
             "class from the same manifest, maps ROOT/APP_LOCAL_1/RAD_LOCAL_1 to the intended roles, and rejects a "
             "duplicate pair before recording it. The derivation is pure, so term equality is the property.",
        note=TB + "uuid.UUID.hex == UUID.bytes.hex() (CPython library fact).",
        technique="canonical-term equality of sibling derivations (abstract evaluation); structure checks on the Kconfig plumbing",
        ref="5/C13"),
    "C14": dict(
        text="Static, structure of freshness: every AEAD encryption site is found; its nonce argument must be a direct "
             "os.urandom(12) draw inside the same activation (single reaching definition), never stored, with no cache "
             "decorator on the encrypt path; the value used is element 0 of the result, bytes [0,12) of the asset, and the "
             "only value under header key 5. A constant, counter, class-level, default-argument, cached or "
             "plaintext-derived nonce is reported.",
        note=TB + "NOT decided: pairwise distinctness of 10^5 draws (statistical property of the OS RNG).",
        technique="provenance (reaching-definition) analysis on abstract terms + call-graph scan for memoisation + byte-layout terms",
        ref="5/C14"),
    "C16": dict(
        text="Static, near-full: create_files_for_update is evaluated end-to-end (helpers inlined) with symbolic cache "
             "count: little-endian u32 fields, field count == value count for every k, values [0x55AA55AA, 1, partition "
             "address, getsize(same input file)] + k x [0,0], placed alone at the info address, written to the storage "
             "file; bin2hex(input, partition file, partition address) with error check; argument plumbing from the CLI and "
             "ncs/build.py by name.",
        note=TB + "NOT decided: Intel-HEX extended-address rendering (library).",
        technique="abstract evaluation with symbolic repeat count; struct-format folding; provenance; argument-name binding rule",
        ref="5/C16"),
    "C20": dict(
        text="Static, partial: pre-release table folded to {alpha<beta<rc<0}; converter outcomes (numeric->int, label->"
             "exact-name member value, failure->ValueError, other types rejected); '-' normalised before splitting; default "
             "sequence number extracted as a shift polynomial with decreasing shifts and gaps >= 8 (closed-form "
             "monotonicity for lower fields < 256); labels the build glue can emit are labels the encoder accepts.",
        note=TB + "NOT decided: order isomorphism for all pairs of strings (relation over values).",
        technique="table folding; outcome enumeration by abstract evaluation; polynomial extraction; regex AST parsing",
        ref="5/C20"),
}

NOT_YET = "check not built yet in this round (see DESIGN.md section 9 build order)"

ALL = [f"C{i:02d}" for i in range(1, 21)]


def main():
    checks = []
    for pid in ALL:
        if pid not in CLAIMS:
            continue
        c = CLAIMS[pid]
        checks.append({
            "property_id": pid,
            "quick_cmd": f"./check {pid} --tier quick",
            "thorough_cmd": f"./check {pid} --tier thorough",
            "evidence_file": f"evidence/{pid}.json",
            "replay_cmd_template": f"./check {pid} --explain {{path}}",
            "engine": "sa",
            "level_claimed": {"category": "other", "text": c["text"], "design_ref": c["ref"]},
            "level_note": c["note"],
            "technique": c["technique"],
        })
    na = [{"property_id": p, "reason": NOT_YET} for p in ALL if p not in CLAIMS]
    man = {
        "version": 1,
        "setup_cmd": "/venv/bin/python -m compileall -q sa rules check >/dev/null && ./check C08 --tier quick --no-write >/dev/null",
        "hooks": {
            "guard": "SUIT_GENERATOR_VERIF",
            "enable": "none needed: the checks read the source only (static analysis); no hook commits exist",
            "baseline_off_cmd": "cd /repo && /venv/bin/python -m pytest -ra -q -p no:cacheprovider --timeout=900 --continue-on-collection-errors",
            "source_commits": [],
            "add_only": True,
        },
        "engines": [{"name": "sa", "path": "sa/", "serves_properties": [c["property_id"] for c in checks],
                     "kind_free_text": "repository-specific static analysis on Python ast: resolver, schema-graph extractor, "
                                       "structured abstract evaluator over a term domain, call graph, effect/escape analyses"}],
        "checks": checks,
        "not_applicable": na,
        "notes": "All checks are static analyses of /repo's current working tree (stdlib ast under /venv/bin/python; nothing of the "
                 "repository is imported or executed). exit 2 + ANALYSIS-ERROR means the analysis cannot stand behind a verdict.",
    }
    (VERIF / "MANIFEST.json").write_text(json.dumps(man, indent=1) + "\n")
    print("MANIFEST.json:", len(checks), "checks,", len(na), "not applicable")


if __name__ == "__main__":
    main()
