#!/venv/bin/python
"""Copy confirmed seeded changes from the seeding output directories into /verif/seeded/<id>/.

usage: store_seeds.py [Cxx-i ...]      (default: every entry of seeded/TABLE.json whose source files exist)
Each entry gets patch.diff, demo.py, notes.md (the seeding agent's own notes) and meta.json.  The demonstration's default tree
path (/tmp/seed/Cxx) is rewritten to /repo so that it runs against /repo after `git -C /repo apply seeded/<id>/patch.diff`
(PYTHONPATH=/repo, cwd anywhere); undo with `git -C /repo checkout -- .`."""
import json, shutil, sys
from pathlib import Path

VERIF = Path(__file__).resolve().parent.parent
TABLE = json.loads((VERIF / "seeded" / "TABLE.json").read_text())
want = set(sys.argv[1:])
for sid, e in TABLE.items():
    if want and sid not in want:
        continue
    prop, i = sid.split("-")[0], sid.split("-")[-1]
    root = e.get("root", "/tmp/seed")
    src = Path(f"{root}/{prop}_out")
    if not (src / f"patch{i}.diff").exists():
        continue
    d = VERIF / "seeded" / sid
    d.mkdir(parents=True, exist_ok=True)
    shutil.copy(src / f"patch{i}.diff", d / "patch.diff")
    demo = (src / f"demo{i}.py").read_text().replace(f"{root}/{prop}_out", "/var/tmp/seed_demo_out").replace(f"{root}/{prop}", "/repo")
    (d / "demo.py").write_text(demo)
    if (src / f"notes{i}.md").exists():
        (d / "notes.md").write_text((src / f"notes{i}.md").read_text().replace(f"{root}/{prop}", "<worktree>"))
    meta = {
        "id": sid,
        "property": prop,
        "origin": "sub-agent given only the property text and a scratch git worktree of /repo",
        "change": e["change"],
        "needs_to_manifest": e["needs"],
        "confirmed": {
            "how": "tools/confirm_seed.py in a scratch git worktree of /repo HEAD under /var/tmp (removed afterwards): demonstration exit 0 "
                   "on the pristine tree, patch applies with git apply, demonstration exit != 0 with the patch, tree byte-compiles, "
                   "tools/baseline_check.py (pinned pytest command) reports 'stable tests not passing: 0'",
            "result": "CONFIRMED",
        },
        "run_demo": "git -C /repo apply /verif/seeded/%s/patch.diff && PYTHONPATH=/repo /venv/bin/python /verif/seeded/%s/demo.py; "
                    "git -C /repo checkout -- ." % (sid, sid),
    }
    old = d / "meta.json"
    if old.exists():
        o = json.loads(old.read_text())
        for k in ("checks",):
            if k in o:
                meta[k] = o[k]
    (d / "meta.json").write_text(json.dumps(meta, indent=1) + "\n")
    print("stored", sid)
