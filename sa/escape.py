"""T9 — may-escape analysis with untrusted-value narrowing (DESIGN Appendix C).

For every function of the parser the analysis tracks, for each local, whether its *type* is controlled by the
input ("untrusted") and which types it can still have after the isinstance / hasattr / len checks that dominate
a use.  Every operation applied to an insufficiently narrowed untrusted value is a may-raise site of an internal
error (TypeError / AttributeError / IndexError / KeyError); explicit ``raise`` statements and known library
may-raise sets are collected as well.  ``try`` handlers remove the classes they catch.  What the analysis does
not understand on an untrusted value is reported as a may-raise site (never silently accepted); what it does
not understand on internal values is ignored (internal invariants are the subject of other rules).
"""
from __future__ import annotations

import ast
from dataclasses import dataclass, field
from typing import Optional

from .index import AnalysisError, FuncInfo, Repo

ATOMS = frozenset({"bytes", "str", "int", "bool", "none", "list", "dict", "tuple", "tag", "float", "other"})
SIZED = frozenset({"bytes", "str", "list", "dict", "tuple"})
INTLIKE = frozenset({"int", "bool"})
SEQ = frozenset({"bytes", "str", "list", "tuple"})

# exception hierarchy facts (CPython / cbor2 stubs): subclass -> ancestors
EXC_PARENTS = {
    "UnicodeDecodeError": ["UnicodeError", "ValueError", "Exception"],
    "UnicodeError": ["ValueError", "Exception"],
    "binascii.Error": ["ValueError", "Exception"],
    "JSONDecodeError": ["ValueError", "Exception"],
    "ValueError": ["Exception"], "TypeError": ["Exception"], "AttributeError": ["Exception"],
    "IndexError": ["LookupError", "Exception"], "KeyError": ["LookupError", "Exception"], "LookupError": ["Exception"],
    "RecursionError": ["RuntimeError", "Exception"], "RuntimeError": ["Exception"], "OverflowError": ["ArithmeticError", "Exception"],
    "struct.error": ["Exception"], "Exception": [], "ImportError": ["Exception"],
    "SUITError": ["Exception"], "GeneratorError": ["Exception"], "SignerError": ["Exception"],
    "CBORDecodeError": ["CBORError", "Exception"], "NotImplementedError": ["RuntimeError", "Exception"],
}


def exc_is(name: str, handler: str) -> bool:
    name, handler = name.split(".")[-1] if name not in EXC_PARENTS else name, handler.split(".")[-1] if handler not in EXC_PARENTS else handler
    if name == handler or handler in ("BaseException",):
        return True
    return handler in EXC_PARENTS.get(name, ["Exception"])


@dataclass(frozen=True)
class Val:
    """Abstract value: possible type atoms; untrusted = the type is controlled by the parsed input."""
    kinds: frozenset
    untrusted: bool = False
    hashable: bool = True
    minlen: int = 0

    def narrowed(self, kinds):
        return Val(frozenset(kinds) & self.kinds if self.untrusted else frozenset(kinds), self.untrusted, True, self.minlen)


TRUSTED = Val(frozenset({"other"}), False)
ANY = Val(ATOMS, True, hashable=False)
HANY = Val(ATOMS - {"list", "dict"}, True, hashable=True)  # key of a decoded dict
BYTES_U = Val(frozenset({"bytes"}), True)


def tval(*kinds):
    return Val(frozenset(kinds), False)


@dataclass
class Site:
    func: FuncInfo
    node: ast.AST
    exc: str
    why: str

    @property
    def key(self):
        return (self.func.fq, ast.unparse(self.node)[:120], self.exc)


TYPE_NAMES = {"bytes": "bytes", "str": "str", "int": "int", "bool": "bool", "list": "list", "dict": "dict", "tuple": "tuple",
              "float": "float"}


class FunctionAnalysis:
    def __init__(self, repo: Repo, fi: FuncInfo, params: dict, helpers_safe: set, from_cbor_bytes_obligation=True):
        self.repo = repo
        self.fi = fi
        self.sites: list = []  # escaping may-raise sites
        self.obligations: list = []  # (node, description, ok)
        self.helpers_safe = helpers_safe
        self.env = dict(params)
        self.run()

    # ------------------------------------------------------------------ reporting
    def site(self, node, exc, why, handlers):
        for h in handlers:
            if any(exc_is(exc, c) for c in h):
                return
        self.sites.append(Site(self.fi, node, exc, why))

    # ------------------------------------------------------------------ expressions
    def ty(self, e, env, handlers) -> Val:
        m = getattr(self, "t_" + type(e).__name__, None)
        if m is None:
            for c in ast.iter_child_nodes(e):
                if isinstance(c, ast.expr):
                    self.ty(c, env, handlers)
            return TRUSTED
        return m(e, env, handlers)

    def t_Constant(self, e, env, h):
        v = e.value
        k = "none" if v is None else type(v).__name__ if type(v).__name__ in ATOMS else "other"
        return tval(k)

    def t_Name(self, e, env, h):
        return env.get(e.id, TRUSTED)

    def t_NamedExpr(self, e, env, h):
        v = self.ty(e.value, env, h)
        env[e.target.id] = v
        return v

    def t_JoinedStr(self, e, env, h):
        for v in e.values:
            if isinstance(v, ast.FormattedValue):
                self.ty(v.value, env, h)
        return tval("str")

    def t_List(self, e, env, h):
        for x in e.elts:
            self.ty(x, env, h)
        return tval("list")

    def t_Tuple(self, e, env, h):
        for x in e.elts:
            self.ty(x, env, h)
        return tval("tuple")

    def t_Dict(self, e, env, h):
        for k in e.keys:
            if k is not None:
                kv = self.ty(k, env, h)
                if kv.untrusted and not kv.hashable:
                    self.site(k, "TypeError", "untrusted value of unknown type used as a dict key (may be unhashable)", h)
        for v in e.values:
            self.ty(v, env, h)
        return tval("dict")

    def t_IfExp(self, e, env, h):
        self.ty(e.test, env, h)
        t_env, f_env = dict(env), dict(env)
        self.narrow(e.test, t_env, True)
        self.narrow(e.test, f_env, False)
        a, b = self.ty(e.body, t_env, h), self.ty(e.orelse, f_env, h)
        return Val(a.kinds | b.kinds, a.untrusted or b.untrusted, a.hashable and b.hashable)

    def t_BoolOp(self, e, env, h):
        cur = dict(env)
        out = None
        for v in e.values:
            out = self.ty(v, cur, h)
            self.narrow(v, cur, isinstance(e.op, ast.And))
        return tval("bool") if out is None else Val(out.kinds | {"bool"}, out.untrusted)

    def t_UnaryOp(self, e, env, h):
        v = self.ty(e.operand, env, h)
        if isinstance(e.op, ast.Not):
            return tval("bool")
        if v.untrusted and not v.kinds <= INTLIKE | {"float"}:
            self.site(e, "TypeError", "arithmetic on an untrusted value that was not checked to be a number", h)
        return v

    def t_BinOp(self, e, env, h):
        l, r = self.ty(e.left, env, h), self.ty(e.right, env, h)
        for side, v in ((e.left, l), (e.right, r)):
            if v.untrusted:
                ok = v.kinds <= INTLIKE | {"float"}
                if isinstance(e.op, ast.Add) and (v.kinds <= {"bytes"} or v.kinds <= {"str"} or v.kinds <= {"list"}):
                    ok = True
                if isinstance(e.op, ast.Mod) and isinstance(e.left, ast.Constant):
                    ok = True  # "fmt" % value
                if not ok:
                    self.site(e, "TypeError", f"operator {type(e.op).__name__} applied to an untrusted value whose type was not checked "
                              f"(possible types: {sorted(v.kinds)[:4]}…)", h)
        return tval("int") if (l.kinds | r.kinds) <= INTLIKE else TRUSTED

    def t_Compare(self, e, env, h):
        vals = [self.ty(e.left, env, h)] + [self.ty(c, env, h) for c in e.comparators]
        for i, op in enumerate(e.ops):
            l, r = vals[i], vals[i + 1]
            if isinstance(op, (ast.Lt, ast.LtE, ast.Gt, ast.GtE)):
                for v in (l, r):
                    if v.untrusted and not v.kinds <= INTLIKE | {"float"}:
                        self.site(e, "TypeError", "ordering comparison on an untrusted value that was not checked to be a number", h)
            if isinstance(op, (ast.In, ast.NotIn)):
                # membership in dict / set hashes the left operand
                cont = e.comparators[i]
                is_listish = isinstance(cont, (ast.List, ast.ListComp, ast.Tuple)) or r.kinds <= {"list", "tuple", "str", "bytes"}
                if l.untrusted and not l.hashable and not is_listish:
                    self.site(e, "TypeError", "untrusted value of unknown type tested for membership in a mapping (may be unhashable)", h)
                if r.untrusted and not r.kinds <= SIZED:
                    self.site(e, "TypeError", "membership test in an untrusted value that was not checked to be a container", h)
        return tval("bool")

    def t_Subscript(self, e, env, h):
        base = self.ty(e.value, env, h)
        is_slice = isinstance(e.slice, ast.Slice)
        if is_slice:
            for p in (e.slice.lower, e.slice.upper, e.slice.step):
                if p is not None:
                    self.ty(p, env, h)
        else:
            idx = self.ty(e.slice, env, h)
        if not base.untrusted:
            if not is_slice and idx.untrusted and not idx.hashable:
                self.site(e, "TypeError", "internal container subscripted with an untrusted value of unknown type (unhashable key / non-integer index)", h)
            if base.kinds <= {"list", "tuple"} and base is not TRUSTED and not is_slice and getattr(base, "minlen", 0) >= 0:
                # internal list indexed by a variable: IndexError unless bounded — only for lists holding untrusted content
                pass
            return Val(ATOMS, True, hashable=False) if getattr(self, "_content_untrusted", {}).get(id(base)) else TRUSTED
        # untrusted base
        if not base.kinds <= SEQ | {"dict"}:
            self.site(e, "TypeError", "subscript on an untrusted value that was not checked to be a sequence or mapping", h)
        if not is_slice:
            if base.kinds & SEQ:
                need = None
                if isinstance(e.slice, ast.Constant) and isinstance(e.slice.value, int) and e.slice.value >= 0:
                    need = e.slice.value + 1
                bounded = isinstance(e.slice, ast.Name) and isinstance(e.value, ast.Name) \
                    and (e.slice.id, e.value.id) in env.get("__bounds__", frozenset())
                if not bounded and (need is None or base.minlen < need):
                    self.site(e, "IndexError", "index into an untrusted sequence whose length was not checked", h)
            if "dict" in base.kinds:
                self.site(e, "KeyError", "lookup in an untrusted mapping without a presence check", h)
        if base.kinds <= {"bytes"}:
            return BYTES_U if is_slice else Val(frozenset({"int"}), True)
        if base.kinds <= {"str"}:
            return Val(frozenset({"str"}), True)
        if is_slice and base.kinds <= {"list", "tuple"}:
            return Val(base.kinds, True)
        return ANY

    def t_Attribute(self, e, env, h):
        base = self.ty(e.value, env, h)
        if not base.untrusted:
            return TRUSTED
        if e.attr in ("tag", "value") and base.kinds <= {"tag"}:
            return Val(frozenset({"int"}), True) if e.attr == "tag" else ANY
        self._attr_check(e, base, e.attr, h)
        return TRUSTED

    METHODS = {
        "bytes": {"hex": ("str", []), "decode": ("str", ["UnicodeDecodeError"]), "startswith": ("bool", []), "endswith": ("bool", [])},
        "str": {"isalpha": ("bool", []), "encode": ("bytes", []), "endswith": ("bool", []), "startswith": ("bool", []),
                "replace": ("str", []), "lower": ("str", []), "upper": ("str", []), "isnumeric": ("bool", []), "split": ("list", [])},
        "dict": {"items": ("other", []), "keys": ("other", []), "values": ("other", []), "get": ("other", [])},
        "list": {"append": ("none", []), "index": ("int", ["ValueError"])},
    }

    def _attr_check(self, node, base: Val, attr: str, h):
        ok = all(attr in self.METHODS.get(k, {}) for k in base.kinds) and bool(base.kinds)
        if not ok:
            self.site(node, "AttributeError", f"attribute .{attr} on an untrusted value that was not checked to have it "
                      f"(possible types: {sorted(base.kinds)[:4]}…)", h)

    def t_Call(self, e, env, h):
        f = e.func
        # evaluate arguments first
        argv = [self.ty(a.value if isinstance(a, ast.Starred) else a, env, h) for a in e.args]
        for k in e.keywords:
            self.ty(k.value, env, h)
        name = f.id if isinstance(f, ast.Name) else f.attr if isinstance(f, ast.Attribute) else None
        recv = None
        if isinstance(f, ast.Attribute):
            # do not flag attribute access here; handled below by method tables
            if isinstance(f.value, ast.Call) and isinstance(f.value.func, ast.Name) and f.value.func.id == "super":
                recv = TRUSTED
            else:
                recv = self.ty(f.value, env, h)
        # ---- builtins
        if isinstance(f, ast.Name):
            if name in ("isinstance", "hasattr", "print", "repr", "str", "type", "bool", "id", "format"):
                return tval("bool") if name in ("isinstance", "hasattr", "bool") else tval("str")
            if name == "len":
                v = argv[0] if argv else TRUSTED
                if v.untrusted and not v.kinds <= SIZED:
                    self.site(e, "TypeError", "len() of an untrusted value that was not checked to be sized", h)
                return tval("int")
            if name in ("tuple", "list", "set", "sorted", "iter", "dict", "enumerate", "zip", "sum", "min", "max", "all", "any"):
                for v in argv:
                    if v.untrusted and not v.kinds <= SIZED:
                        self.site(e, "TypeError", f"{name}() of an untrusted value that was not checked to be iterable", h)
                return tval("tuple" if name == "tuple" else "list")
            if name in ("int", "float"):
                for v in argv:
                    if v.untrusted and not v.kinds <= INTLIKE | {"str", "bytes", "float"}:
                        self.site(e, "TypeError", f"{name}() of an untrusted value of unchecked type", h)
                    if v.untrusted:
                        self.site(e, "ValueError", f"{name}() conversion", h)
                return tval(name)
            if name in ("range",):
                return tval("list")
            if name in ("getattr", "setattr", "cast"):
                return TRUSTED if name != "cast" else (argv[1] if len(argv) > 1 else TRUSTED)
            if name == "Exception" or name.endswith("Error"):
                return TRUSTED
            # constructor / function by name: class instantiation with untrusted argument is validated by __init__ (analysed separately)
            return TRUSTED
        # ---- method calls
        if isinstance(f, ast.Attribute):
            if name == "deserialize_cbor":
                v = argv[0] if argv else TRUSTED
                if (v.untrusted and not v.kinds <= {"bytes"}):
                    self.site(e, "TypeError", "deserialize_cbor() of an untrusted value that was not checked to be bytes", h)
                return ANY
            if name in ("serialize_cbor", "ensure_cbor"):
                return Val(frozenset({"bytes"}), True)
            if name == "from_cbor":
                v = argv[0] if argv else TRUSTED
                ok = (not v.untrusted and v.kinds <= {"bytes", "other"}) or (v.untrusted and v.kinds <= {"bytes"})
                caught = any(any(c in ("Exception", "BaseException") for c in hh) for hh in h)
                self.obligations.append((e, "from_cbor receives bytes", ok or caught))
                if not (ok or caught):
                    self.site(e, "TypeError", "from_cbor() called with an untrusted value that was not checked to be bytes", h)
                return TRUSTED
            if name in ("to_obj", "to_cbor", "from_obj", "pretty_format_obj", "warning", "debug", "info", "error", "_get_method_and_name"):
                return TRUSTED
            if name == "loads" and isinstance(f.value, ast.Name) and f.value.id == "cbor2":
                self.site(e, "Exception", "cbor2.loads can raise arbitrary exceptions on malformed input", h)
                return ANY
            if name == "unpack" and isinstance(f.value, ast.Name) and f.value.id == "struct":
                self.site(e, "struct.error", "struct.unpack on a short buffer", h)
                return tval("tuple")
            if name == "dumps" and isinstance(f.value, ast.Name) and f.value.id in ("json", "cbor2"):
                if any(v.untrusted for v in argv):
                    self.site(e, "TypeError", f"{f.value.id}.dumps of an untrusted value", h)
                return tval("str")
            if recv is not None and not recv.untrusted and name in ("get", "setdefault", "pop", "__getitem__", "__contains__") and argv \
                    and argv[0].untrusted and not argv[0].hashable:
                # hash-based lookup in an internal mapping with a decoder-controlled key: a list / map key is unhashable
                self.site(e, "TypeError", f".{name}() of an internal mapping with an untrusted key of unknown type (may be unhashable)", h)
                return TRUSTED
            if recv is not None and recv.untrusted:
                tbl = [self.METHODS.get(k, {}).get(name) for k in recv.kinds]
                if recv.kinds and all(t is not None for t in tbl):
                    for t in tbl:
                        for x in t[1]:
                            self.site(e, x, f".{name}() may raise {x}", h)
                    kinds = {t[0] for t in tbl}
                    if name in ("items", "keys", "values"):
                        return Val(frozenset({"other"}), False)
                    return Val(frozenset(kinds), True)
                self.site(e, "AttributeError", f"method .{name}() on an untrusted value that was not checked to have it "
                          f"(possible types: {sorted(recv.kinds)[:4]}…)", h)
                return ANY
            if name == "CBORTag":
                return tval("tag")
        return TRUSTED

    def t_ListComp(self, e, env, h):
        return self._comp(e, env, h)

    t_GeneratorExp = t_ListComp
    t_SetComp = t_ListComp

    def t_DictComp(self, e, env, h):
        return self._comp(e, env, h, dict_=True)

    def _comp(self, e, env, h, dict_=False):
        sub = dict(env)
        for g in e.generators:
            it = self.ty(g.iter, sub, h)
            self.bind_iter(g.target, g.iter, it, sub, h, e)
            for c in g.ifs:
                self.ty(c, sub, h)
                self.narrow(c, sub, True)
        if dict_:
            self.ty(e.key, sub, h)
            self.ty(e.value, sub, h)
        else:
            self.ty(e.elt, sub, h)
        return tval("dict" if dict_ else "list")

    # ------------------------------------------------------------------ binding helpers
    def bind_iter(self, target, iter_expr, it: Val, env, h, node):
        """Bind loop / comprehension targets from an iterable."""
        items_call = isinstance(iter_expr, ast.Call) and isinstance(iter_expr.func, ast.Attribute) and iter_expr.func.attr == "items"
        src = self.ty(iter_expr.func.value, env, []) if items_call else it
        if items_call and src.untrusted:
            if isinstance(target, ast.Tuple) and len(target.elts) == 2:
                self._bind(target.elts[0], HANY, env)
                self._bind(target.elts[1], ANY, env)
                return
        if it.untrusted:
            if not it.kinds <= SIZED:
                self.site(node, "TypeError", "iteration over an untrusted value that was not checked to be iterable", h)
            elem = Val(frozenset({"int"}), True) if it.kinds <= {"bytes"} else (HANY if it.kinds <= {"dict"} else ANY)
            if isinstance(target, ast.Tuple):
                self.site(node, "TypeError", "unpacking elements of an untrusted sequence", h)
                for t in target.elts:
                    self._bind(t, ANY, env)
            else:
                self._bind(target, elem, env)
            return
        for n in ast.walk(target):
            if isinstance(n, ast.Name):
                env[n.id] = TRUSTED

    def _bind(self, target, v, env):
        if isinstance(target, ast.Name):
            env[target.id] = v
        else:
            for n in ast.walk(target):
                if isinstance(n, ast.Name):
                    env[n.id] = v

    # ------------------------------------------------------------------ narrowing
    def narrow(self, test, env, truth: bool):
        """Refine env under ``test == truth``."""
        if isinstance(test, ast.UnaryOp) and isinstance(test.op, ast.Not):
            return self.narrow(test.operand, env, not truth)
        if isinstance(test, ast.BoolOp):
            if isinstance(test.op, ast.And) and truth:
                for v in test.values:
                    self.narrow(v, env, True)
            elif isinstance(test.op, ast.Or) and not truth:
                for v in test.values:
                    self.narrow(v, env, False)
            return
        if isinstance(test, ast.Call) and isinstance(test.func, ast.Name):
            if test.func.id == "isinstance" and len(test.args) == 2:
                tgt = test.args[0]
                name = tgt.id if isinstance(tgt, ast.Name) else (tgt.target.id if isinstance(tgt, ast.NamedExpr) else None)
                if name is None or name not in env:
                    return
                types = test.args[1].elts if isinstance(test.args[1], ast.Tuple) else [test.args[1]]
                kinds = set()
                for t in types:
                    tn = ast.unparse(t)
                    if tn in TYPE_NAMES:
                        kinds.add(TYPE_NAMES[tn])
                        if tn == "int":
                            kinds.add("bool")
                    elif tn.endswith("CBORTag"):
                        kinds.add("tag")
                    else:
                        kinds.add("other")
                v = env[name]
                if truth:
                    env[name] = v.narrowed(kinds)
                else:
                    env[name] = Val(v.kinds - kinds if "bool" not in kinds or "int" in kinds else v.kinds - (kinds - {"bool"}),
                                    v.untrusted, v.hashable, v.minlen) if v.untrusted else v
            if test.func.id == "hasattr" and len(test.args) == 2 and isinstance(test.args[0], ast.Name) \
                    and isinstance(test.args[1], ast.Constant) and test.args[0].id in env:
                v = env[test.args[0].id]
                if truth and test.args[1].value == "tag" and v.untrusted:
                    env[test.args[0].id] = v.narrowed({"tag"})
            return
        if isinstance(test, ast.Compare) and len(test.ops) == 1:
            l, r = test.left, test.comparators[0]
            # index >= len(seq) false  /  index < len(seq) true   =>  seq[index] is in range
            for a, b, op_t, op_f in ((l, r, ast.Lt, ast.GtE), (r, l, ast.Gt, ast.LtE)):
                if isinstance(a, ast.Name) and isinstance(b, ast.Call) and isinstance(b.func, ast.Name) and b.func.id == "len" \
                        and b.args and isinstance(b.args[0], ast.Name):
                    op = test.ops[0]
                    if (isinstance(op, op_t) and truth) or (isinstance(op, op_f) and not truth):
                        env["__bounds__"] = frozenset(env.get("__bounds__", frozenset()) | {(a.id, b.args[0].id)})
            # len(x) < n  (false)  => len >= n ;  len(x) != n false => len == n ; len(x) >= n true
            FLIP = {ast.Lt: ast.Gt, ast.Gt: ast.Lt, ast.LtE: ast.GtE, ast.GtE: ast.LtE, ast.Eq: ast.Eq, ast.NotEq: ast.NotEq}
            op0 = test.ops[0]
            if isinstance(l, ast.Constant) and isinstance(r, ast.Call) and type(op0) in FLIP:
                l, r, op0 = r, l, FLIP[type(op0)]()  # n > len(x)  ==  len(x) < n
            if isinstance(l, ast.Call) and isinstance(l.func, ast.Name) and l.func.id == "len" and l.args \
                    and isinstance(l.args[0], ast.Name) and isinstance(r, ast.Constant) and isinstance(r.value, int) \
                    and l.args[0].id in env:
                n, op, name = r.value, op0, l.args[0].id
                v = env[name]
                lo = None
                if isinstance(op, ast.Lt) and not truth:
                    lo = n
                elif isinstance(op, ast.GtE) and truth:
                    lo = n
                elif isinstance(op, ast.Gt) and truth:
                    lo = n + 1
                elif isinstance(op, ast.LtE) and not truth:
                    lo = n + 1
                elif isinstance(op, ast.NotEq) and not truth:
                    lo = n
                elif isinstance(op, ast.Eq) and truth:
                    lo = n
                elif isinstance(op, ast.Eq) and not truth and n == 0:
                    lo = 1
                elif isinstance(op, ast.NotEq) and truth and n == 0:
                    lo = 1
                if lo is not None:
                    env[name] = Val(v.kinds, v.untrusted, v.hashable, max(v.minlen, lo))
            if isinstance(test.ops[0], (ast.Is, ast.IsNot)) and isinstance(r, ast.Constant) and r.value is None \
                    and isinstance(l, ast.Name) and l.id in env:
                v = env[l.id]
                isnone = isinstance(test.ops[0], ast.Is) == truth
                if v.untrusted:
                    env[l.id] = Val(frozenset({"none"}) & v.kinds if isnone else v.kinds - {"none"}, True, v.hashable, v.minlen)
            return
        if isinstance(test, ast.NamedExpr):
            return

    # ------------------------------------------------------------------ statements
    def run(self):
        self.block(self.fi.node.body, self.env, [])

    def exits(self, body) -> bool:
        return bool(body) and isinstance(body[-1], (ast.Raise, ast.Return, ast.Continue, ast.Break))

    def block(self, body, env, h):
        for s in body:
            self.stmt(s, env, h)

    def stmt(self, s, env, h):
        if isinstance(s, ast.Expr):
            self.ty(s.value, env, h)
        elif isinstance(s, (ast.Assign, ast.AnnAssign)):
            if s.value is None:
                return
            v = self.ty(s.value, env, h)
            targets = s.targets if isinstance(s, ast.Assign) else [s.target]
            for t in targets:
                if isinstance(t, ast.Name):
                    env[t.id] = v
                    env["__bounds__"] = frozenset(b for b in env.get("__bounds__", frozenset()) if t.id not in b)
                elif isinstance(t, (ast.Tuple, ast.List)):
                    if v.untrusted:
                        if not v.kinds <= {"list", "tuple"}:
                            self.site(s, "TypeError", "unpacking an untrusted value that was not checked to be a sequence", h)
                        self.site(s, "ValueError", "unpacking a sequence of the wrong length", h)
                        for x in t.elts:
                            self._bind(x, ANY, env)
                    else:
                        for x in t.elts:
                            self._bind(x, TRUSTED, env)
                elif isinstance(t, ast.Subscript):
                    self.ty(t.value, env, h)
                    kv = self.ty(t.slice, env, h)
                    if kv.untrusted and not kv.hashable:
                        self.site(t, "TypeError", "untrusted value of unknown type used as a dict key (may be unhashable)", h)
                elif isinstance(t, ast.Attribute):
                    self.ty(t.value, env, h)
        elif isinstance(s, ast.AugAssign):
            v = self.ty(s.value, env, h)
            cur = env.get(s.target.id, TRUSTED) if isinstance(s.target, ast.Name) else TRUSTED
            if isinstance(s.target, ast.Name):
                env["__bounds__"] = frozenset(b for b in env.get("__bounds__", frozenset()) if s.target.id not in b)
            if v.untrusted and not v.kinds <= INTLIKE:
                self.site(s, "TypeError", "augmented arithmetic with an untrusted value of unchecked type", h)
        elif isinstance(s, ast.Return):
            if s.value is not None:
                self.ty(s.value, env, h)
        elif isinstance(s, ast.Raise):
            if s.exc is not None:
                self.ty(s.exc, env, h)
                f = s.exc.func if isinstance(s.exc, ast.Call) else s.exc
                name = ast.unparse(f)
                self.site(s, name, "explicit raise", h)
            else:
                self.site(s, "<reraise>", "re-raise", h)
        elif isinstance(s, ast.If):
            self.ty(s.test, env, h)
            t_env, f_env = dict(env), dict(env)
            self.narrow(s.test, t_env, True)
            self.narrow(s.test, f_env, False)
            self.block(s.body, t_env, h)
            self.block(s.orelse, f_env, h)
            te, fe = self.exits(s.body), self.exits(s.orelse) if s.orelse else False
            if te and not fe:
                env.clear(); env.update(f_env)
            elif fe and not te:
                env.clear(); env.update(t_env)
            else:
                merged = {}
                for k in set(t_env) | set(f_env):
                    if k == "__bounds__":
                        merged[k] = frozenset(t_env.get(k, frozenset()) & f_env.get(k, frozenset()))
                        continue
                    a, b = t_env.get(k, TRUSTED), f_env.get(k, TRUSTED)
                    merged[k] = a if a == b else Val(a.kinds | b.kinds, a.untrusted or b.untrusted, a.hashable and b.hashable,
                                                     min(a.minlen, b.minlen))
                env.clear(); env.update(merged)
        elif isinstance(s, (ast.For, ast.While)):
            if isinstance(s, ast.For):
                it = self.ty(s.iter, env, h)
                self.bind_iter(s.target, s.iter, it, env, h, s)
            else:
                self.ty(s.test, env, h)
            # two passes so that types assigned later in the body reach earlier uses
            for _ in range(2):
                self_sites = len(self.sites)
                self.block(s.body, env, h)
                if _ == 0:
                    del self.sites[self_sites:]
            self.block(getattr(s, "orelse", []) or [], env, h)
        elif isinstance(s, ast.Try):
            caught = []
            for hd in s.handlers:
                if hd.type is None:
                    caught.append(["BaseException"])
                else:
                    ts = hd.type.elts if isinstance(hd.type, ast.Tuple) else [hd.type]
                    caught.append([ast.unparse(t) for t in ts])
            flat = [c for cs in caught for c in cs]
            self.block(s.body, env, h + [flat])
            for hd in s.handlers:
                self.block(hd.body, dict(env), h)
            self.block(s.orelse, env, h)
            self.block(s.finalbody, env, h)
        elif isinstance(s, ast.With):
            for it in s.items:
                self.ty(it.context_expr, env, h)
            self.block(s.body, env, h)
        elif isinstance(s, (ast.Pass, ast.Break, ast.Continue, ast.Import, ast.ImportFrom, ast.Global, ast.Nonlocal,
                            ast.FunctionDef, ast.ClassDef, ast.Delete, ast.Assert)):
            return
        else:
            raise AnalysisError(f"escape analysis: statement {type(s).__name__} not modelled in {self.fi.fq}")
