"""Reports, known findings, evidence files and exit-code discipline."""
from __future__ import annotations

import ast
import hashlib
import json
import os
import time
from dataclasses import dataclass, field
from pathlib import Path
from typing import Optional

VERIF = Path(__file__).resolve().parent.parent


@dataclass
class Obligation:
    rule: str
    instance: str
    ok: bool
    detail: str = ""


@dataclass
class Violation:
    prop: str
    rule: str
    instance: str
    file: str
    line: int
    function: str
    construct: str
    expected: str
    found: str
    witness: list = field(default_factory=list)
    key_extra: str = ""

    @property
    def key(self) -> str:
        h = hashlib.sha1((self.construct + "|" + self.key_extra).encode()).hexdigest()[:12]
        return f"{self.prop}|{self.rule}|{self.function}|{h}"

    def to_json(self):
        return {
            "property": self.prop, "rule": self.rule, "instance": self.instance, "file": self.file,
            "line": self.line, "function": self.function, "construct": self.construct,
            "expected": self.expected, "found": self.found, "witness": self.witness, "key": self.key,
        }


class RuleStats:
    def __init__(self, rid: str, floor: int, desc: str = ""):
        self.id = rid
        self.floor = floor
        self.desc = desc
        self.instances = 0
        self.failed = 0
        self.samples = []


class Report:
    """Collects obligations of one property check and turns them into exit code + evidence."""

    def __init__(self, prop: str, tier: str, repo_root: str, explanation: str):
        self.prop = prop
        self.tier = tier
        self.repo_root = repo_root
        self.explanation = explanation
        self.rules: dict = {}
        self.violations: list = []
        self.infos: list = []
        self.files: list = []
        self.analysed: dict = {}
        self.assumptions: list = []
        self.samples: list = []
        self.exhaustive = False
        self.t0 = time.time()
        self.extra_cov: dict = {}
        self._keys: set = set()

    # ------------------------------------------------------------------ rules
    def rule(self, rid: str, floor: int, desc: str = "") -> RuleStats:
        if rid not in self.rules:
            self.rules[rid] = RuleStats(rid, floor, desc)
        return self.rules[rid]

    def ok(self, rid: str, instance: str, detail: str = ""):
        r = self.rules[rid]
        r.instances += 1
        self._keys.add((rid, instance))
        if len(r.samples) < 3:
            r.samples.append({"rule": rid, "instance": instance, "status": "ok", "detail": detail[:300]})

    def fail(self, rid: str, instance: str, *, mod=None, node=None, function="", construct=None, expected="",
             found="", witness=None, file=None, line=None, key_extra=""):
        r = self.rules[rid]
        r.instances += 1
        r.failed += 1
        self._keys.add((rid, instance))
        if construct is None:
            if isinstance(node, (ast.FunctionDef, ast.AsyncFunctionDef)):
                construct = f"def {node.name}"  # a whole-function anchor: the key must not change with unrelated edits of the body
            elif isinstance(node, ast.ClassDef):
                construct = f"class {node.name}"
            else:
                construct = ast.unparse(node) if node is not None else instance
        if len(construct) > 400:
            construct = construct[:400] + "..."
        v = Violation(
            prop=self.prop, rule=rid, instance=instance,
            file=file or (mod.relpath if mod is not None else ""),
            line=line if line is not None else (getattr(node, "lineno", 0) if node is not None else 0),
            function=function, construct=construct, expected=expected, found=found,
            witness=witness or [], key_extra=key_extra,
        )
        self.violations.append(v)
        return v

    def check(self, rid: str, cond: bool, instance: str, **kw):
        if cond:
            self.ok(rid, instance, kw.get("detail", ""))
        else:
            kw.pop("detail", None)
            self.fail(rid, instance, **kw)
        return cond

    def info(self, msg: str):
        self.infos.append(msg)

    def lenient(self, decided_by: str):
        """Context manager for proof rules whose obligation has already been decided another way (e.g. by evaluating the extracted
        term on a separating grid): a rule that fails inside only says that the *form* is not the one it can prove - it becomes an
        informational line, not a violation (`decided_by` names what stands behind the verdict instead)."""
        report = self

        class _Lenient:
            def __enter__(self_):
                self_.n0 = len(report.violations)
                self_.failed0 = {k: r.failed for k, r in report.rules.items()}
                return self_

            def __exit__(self_, et, ev, tb):
                dropped = report.violations[self_.n0:]
                del report.violations[self_.n0:]
                for k, r in report.rules.items():
                    r.failed = self_.failed0.get(k, 0)
                for v in dropped:
                    report.infos.append(f"form not recognised by proof rule {v.rule} ({v.instance[:80]}); obligation {decided_by}")
                return False
        return _Lenient()

    # ------------------------------------------------------------------ finish
    def has_unlisted_violation(self, known_path: Optional[Path] = None) -> bool:
        """Is there a violation that is not an open known finding (i.e. one that makes the run exit 1)?"""
        known_path = known_path or (VERIF / "known_findings.json")
        known = json.loads(known_path.read_text()) if known_path.is_file() else []
        open_keys = {k["key"] for k in known if k.get("status") == "open" and k.get("property") == self.prop}
        return any(v.key not in open_keys for v in self.violations)

    def finish(self, evidence_dir: Optional[Path] = None, known_path: Optional[Path] = None, write=True) -> int:
        evidence_dir = evidence_dir or (VERIF / "evidence")
        known_path = known_path or (VERIF / "known_findings.json")
        known = []
        if known_path.is_file():
            known = json.loads(known_path.read_text())
        open_keys = {k["key"]: k for k in known if k.get("status") == "open" and k.get("property") == self.prop}

        lines = []
        floor_err = []
        for r in self.rules.values():
            lines.append(f"info: rule {r.id}: {r.instances} instances (floor {r.floor}), {r.failed} failed")
            if r.instances < r.floor:
                floor_err.append(f"rule {r.id}: {r.instances} instances < floor {r.floor} (vacuous or anchors moved)")
        for i in self.infos:
            lines.append("info: " + i)

        matched, unlisted = [], []
        seen = set()
        for v in self.violations:
            if v.key in seen:
                continue
            seen.add(v.key)
            if v.key in open_keys:
                matched.append(v)
            else:
                unlisted.append(v)
        for k, entry in open_keys.items():
            if k not in seen:
                lines.append(f"info: stale known finding {k} ({entry.get('what_fails', '')[:80]})")

        for v in matched:
            lines.append(f"KNOWN-FINDING: property={self.prop} {v.rule} {v.file}:{v.function} — "
                         f"{open_keys[v.key].get('what_fails', v.found)}")
        vdir = evidence_dir / "violations"
        replay_paths = []
        if unlisted and write:
            vdir.mkdir(parents=True, exist_ok=True)
        per_rule = {}
        shown = []
        for v in unlisted:
            per_rule[v.rule] = per_rule.get(v.rule, 0) + 1
            if per_rule[v.rule] <= 8:
                shown.append(v)
        for rule, cnt in per_rule.items():
            if cnt > 8:
                lines.append(f"info: rule {rule}: {cnt - 8} further violations of the same rule not listed individually")
        for n, v in enumerate(shown):
            p = vdir / f"{self.prop}-{n}.json"
            if write:
                p.write_text(json.dumps(v.to_json(), indent=1))
            replay_paths.append(p)
            lines.append(f"  {v.file}:{v.line} [{v.rule}] {v.function}: {v.instance}\n"
                         f"      construct: {v.construct}\n      expected: {v.expected}\n      found: {v.found}\n"
                         f"      key: {v.key}")
            lines.append(f"VIOLATION property={self.prop} replay={p}")

        total = sum(r.instances for r in self.rules.values())
        failed = len(unlisted) + len(matched)
        samples = list(self.samples)
        for r in self.rules.values():
            samples.extend(r.samples[:2])
        for v in (unlisted + matched)[:5]:
            samples.append({"rule": v.rule, "instance": v.instance, "status": "violation", "found": v.found[:200]})
        cov = {
            "explanation": self.explanation,
            "exhaustive": self.exhaustive,
            "evaluations": total,
            "distinct_nontrivial": len(self._keys),
            "rule": "one obligation per rule instance extracted from the current source (table row, call site, path, "
                    "schema edge); distinct by (rule, construct); each is non-trivial because it can fail independently",
            "obligations": total,
            "discharged": total - failed,
            "known_findings_matched": len(matched),
            "files": self.files,
            "analysed": self.analysed,
            "rules": [{"id": r.id, "desc": r.desc, "instances": r.instances, "floor": r.floor, "failed": r.failed}
                      for r in self.rules.values()],
            "samples": samples[:40] or [{"note": "no instances"}],
            "trusted_base": ["CPython ast", "sa/ engine (resolver, abstract evaluator)", "reference/*.json oracles"],
        }
        cov.update(self.extra_cov)
        ev = {
            "property_id": self.prop, "tier": self.tier, "seed": int(os.environ.get("VERIF_SEED", "0") or 0),
            "level": "other", "wall_s": round(time.time() - self.t0, 3), "violations": len(unlisted),
            "coverage": cov, "assumptions": self.assumptions,
        }
        if write:
            evidence_dir.mkdir(parents=True, exist_ok=True)
            (evidence_dir / f"{self.prop}.json").write_text(json.dumps(ev, indent=1, default=str))
        print("\n".join(lines))
        if unlisted:
            # a concrete violation stands even when another rule found fewer instances than expected
            for f in floor_err:
                print("info: " + f)
            return 1
        if floor_err:
            for f in floor_err:
                print("ANALYSIS-ERROR " + f)
            return 2
        return 0
