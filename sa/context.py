"""Per-run context shared by all rules of a property."""
from __future__ import annotations

import ast
import json
from pathlib import Path

from .absint import Evaluator
from .index import AnalysisError, Repo
from .report import Report, VERIF


class Ctx:
    def __init__(self, repo_root: str, prop: str, tier: str, explanation: str):
        self.repo = Repo(repo_root)
        self.prop = prop
        self.tier = tier
        self.ev = Evaluator(self.repo)
        self.report = Report(prop, tier, repo_root, explanation or "static analysis of the current source; no "
                             "repository code executed")
        self._schema = None
        self.report.analysed = {
            "modules": len(self.repo.modules),
            "classes": sum(len(m.classes) for m in self.repo.modules.values()),
            "functions": sum(len(m.functions) for m in self.repo.modules.values()),
            "not_consulted": self.repo.not_consulted,
        }
        self.report.assumptions = [
            "CPython ast parses exactly what the interpreter runs",
            "the engine's resolver finds every definition it reports as resolved (unresolved counts are printed)",
        ]

    @property
    def schema(self):
        if self._schema is None:
            from .schema import Schema
            self._schema = Schema(self.repo, self.ev)
            self.report.analysed["schema_classes"] = len(self._schema.reachable())
        return self._schema

    def new_eval(self, **kw) -> Evaluator:
        return Evaluator(self.repo, **kw)

    def reference(self, name: str):
        p = VERIF / "reference" / name
        if not p.is_file():
            raise AnalysisError(f"reference table {name} missing")
        return json.loads(p.read_text())

    def use_files(self, *relpaths):
        have = {f["path"] for f in self.report.files}
        for f in self.repo.files_evidence(set(relpaths)):
            if f["path"] not in have:
                self.report.files.append(f)

    # small helpers used by many rules -----------------------------------------
    def fq(self, fi) -> str:
        return f"{fi.module.name}:{fi.qualname}"

    def where(self, fi):
        return dict(mod=fi.module, function=self.fq(fi))
