"""Thorough tier: quick rules + re-derivation of the library facts the property relies on + the property's variant
corpus as a sensitivity/specificity audit of the analysis on the *current* tree.  A missed breaking variant or a
flagged benign variant indicts the checker (ANALYSIS-ERROR, exit 2), never the repository."""
from __future__ import annotations

import os
import sys
from concurrent.futures import ThreadPoolExecutor
from pathlib import Path

from .index import AnalysisError
from .report import VERIF


def run_thorough(ctx, repo_root):
    R = ctx.report
    from rules import libfacts
    facts = libfacts.check(ctx, ctx.prop)
    if facts:
        R.rule("LIBFACT re-derived from installed files", len(facts), "library facts used by the rules of this property")
        for name, ok in facts:
            if not ok:
                raise AnalysisError(f"library fact no longer holds for the installed files: {name}")
            R.ok("LIBFACT re-derived from installed files", name)
    # variant corpus: an audit of the checker on a tree where the property holds; when the rules already report a
    # violation on this tree the audit is skipped (every benign variant would inherit that violation)
    import json
    known = set()
    kp = VERIF / "known_findings.json"
    if kp.is_file():
        known = {k.get("key") for k in json.loads(kp.read_text()) if k.get("status") == "open"}
    if any(v.key not in known for v in R.violations):
        R.info("variant audit skipped: the rules report a violation on this tree")
        return
    sys.path.insert(0, str(VERIF / "selftest"))
    import run as selftest
    vs = [v for v in selftest.load_variants() if ctx.prop in v["props"]]
    if not vs:
        return
    restricted = []
    for v in vs:
        restricted.append({**v, "props": [ctx.prop], "silent": []})
    jobs = min(16, os.cpu_count() or 4)
    with ThreadPoolExecutor(jobs) as ex:
        results = list(ex.map(lambda v: selftest.run_variant(v, Path(repo_root)), restricted))
    stale = [r for r in results if r["status"] == "STALE"]
    bad = [r for r in results if r["status"] == "FAIL"]
    R.rule("AUDIT variant corpus", 1, "breaking variants of the current tree are reported, benign variants stay silent")
    R.extra_cov["variants_run"] = len(results)
    R.extra_cov["variants_stale"] = len(stale)
    R.extra_cov["variant_samples"] = [r["id"] for r in results[:10]]
    for r in results:
        if r["status"] == "OK":
            R.ok("AUDIT variant corpus", r["id"])
    if stale:
        R.info(f"{len(stale)} variants no longer apply to the current source (stale): {[r['id'] for r in stale][:5]}")
    # behaviour-preserving whole-tree transformations: the property's check must stay silent on each of them
    import benign_global
    res = benign_global.run_for_prop(ctx.prop, repo_root)
    R.rule("AUDIT behaviour-preserving transformations", 7, "formatting, temporaries, renamed locals, negated branches, reordered methods and their composition leave the check silent")
    R.extra_cov["transformations_run"] = [n for n, _, _ in res]
    noisy = [(n, rc, first) for n, rc, first in res if rc != 0]
    for n, rc, first in res:
        if rc == 0:
            R.ok("AUDIT behaviour-preserving transformations", n)
    # behaviour-preserving refactorings written by sub-agents that saw only the property text (benign/): silent on each of them
    import benign_patches
    bres = benign_patches.run_for_prop(ctx.prop, repo_root)
    R.rule("AUDIT refactorings", 290, "helper extraction, loops <-> comprehensions, guard clauses, named constants, aliases ... leave the check silent")
    R.extra_cov["refactorings_run"] = len(bres)
    stale_b = [n for n, st, _ in bres if st == "STALE"]
    alarms = [(n, first) for n, st, first in bres if st == "ALARM"]
    for n, st, _ in bres:
        if st == "silent":
            R.ok("AUDIT refactorings", n)
    declined_b = [n for n, st, _ in bres if st == "declined"]
    if declined_b:
        R.info(f"{len(declined_b)} stored refactorings are declined by this check as documented (exit 2, no verdict): {declined_b}")
    if stale_b:
        R.info(f"{len(stale_b)} stored refactorings no longer apply to the current source (stale): {stale_b[:5]}")
    if alarms:
        raise AnalysisError(f"the check is not silent on a behaviour-preserving refactoring: {alarms[:2]}"[:500])
    if noisy:
        raise AnalysisError(f"the check is not silent on a behaviour-preserving transformation of the tree: {noisy[:2]}"[:400])
    if bad:
        raise AnalysisError(f"variant audit failed for {[r['id'] for r in bad][:5]} — the analysis misses a breaking variant or flags a benign one")
