"""Call graph over repository functions.

Resolution: bare names and dotted module paths through the import tables; ``self.`` / ``cls.`` /
``super().`` through the MRO plus overrides in subclasses (class-hierarchy analysis); constructor calls
reach ``__init__``; method calls on other receivers reach every repository method of that name
(name-based CHA, an over-approximation).  External calls are kept by dotted name.
"""
from __future__ import annotations

import ast
from dataclasses import dataclass, field
from typing import Optional

from .index import ClassInfo, FuncInfo, Repo, walk_no_nested

# method names too generic to be resolved by name (would connect everything): resolved only via self/cls/super
AMBIGUOUS = {"get", "items", "keys", "values", "append", "read", "write", "update", "pop", "format", "join", "hex",
             "encode", "decode", "split", "strip", "replace", "lower", "upper", "startswith", "endswith", "remove",
             "extend", "reverse", "find", "match", "group", "groups", "add_argument", "add_parser", "debug", "error",
             "warning", "log", "info", "copy", "index", "insert", "sort", "close", "open", "load", "dump", "loads",
             "dumps", "sign", "encrypt", "generate", "merge"}


@dataclass
class CallSite:
    caller: FuncInfo
    node: ast.Call
    targets: list = field(default_factory=list)  # FuncInfo
    external: Optional[str] = None
    unresolved: bool = False
    how: str = ""


class CallGraph:
    def __init__(self, repo: Repo, plugin_factories: bool = True):
        self.repo = repo
        self.sites: dict = {}  # FuncInfo.fq -> [CallSite]
        self.methods_by_name: dict = {}
        for f in repo.all_functions():
            if f.cls is not None and f.cls.outer is None:
                self.methods_by_name.setdefault(f.name, []).append(f)
        self.plugin_factories = plugin_factories
        for f in repo.all_functions():
            self.sites[f.fq] = self._sites_of(f)

    # ------------------------------------------------------------------
    def _overrides(self, ci: ClassInfo, name: str) -> list:
        out = []
        m = self.repo.lookup_method(ci, name)
        if m is not None:
            out.append(m)
        for sub in self.repo.subclasses(ci):
            if name in sub.methods and sub.methods[name] not in out:
                out.append(sub.methods[name])
        return out

    def _sites_of(self, f: FuncInfo) -> list:
        sites = []
        local_types = self._local_types(f)
        for n in walk_no_nested(f.node):
            if isinstance(n, ast.Call):
                sites.append(self._resolve_call(f, n, local_types))
        return sites

    def _local_types(self, f: FuncInfo) -> dict:
        """name -> ClassInfo for locals assigned from a constructor call of a repository class."""
        out = {}
        for n in walk_no_nested(f.node):
            if isinstance(n, ast.Assign) and len(n.targets) == 1 and isinstance(n.targets[0], ast.Name) \
                    and isinstance(n.value, ast.Call):
                ci = self.repo.class_of_expr(f.module, n.value.func)
                if ci is not None:
                    out[n.targets[0].id] = ci
        # annotated parameters
        a = f.node.args
        for arg in a.posonlyargs + a.args + a.kwonlyargs:
            if arg.annotation is not None:
                try:
                    ci = self.repo.class_of_expr(f.module, arg.annotation)
                except Exception:
                    ci = None
                if ci is not None:
                    out[arg.arg] = ci
        return out

    def _resolve_call(self, f: FuncInfo, n: ast.Call, local_types: dict) -> CallSite:
        cs = CallSite(f, n)
        fn = n.func
        repo = self.repo
        if isinstance(fn, ast.Name):
            r = repo.resolve_name(f.module, fn.id)
            if r is None:
                # local variable holding a callable (e.g. sign_method, loader, dump_method)
                cs.unresolved = True
                cs.how = "local callable"
                return cs
            return self._from_resolution(cs, r)
        if isinstance(fn, ast.Attribute):
            v = fn.value
            # super().m()
            if isinstance(v, ast.Call) and isinstance(v.func, ast.Name) and v.func.id == "super" and f.cls is not None:
                mro = repo.mro(f.cls)
                for c in mro[1:]:
                    if fn.attr in c.methods:
                        cs.targets = [c.methods[fn.attr]]
                        cs.how = "super"
                        return cs
                bases = repo.bases(f.cls)
                if bases and all(not isinstance(b, type(f.cls)) and b[0] == "ext" for b in bases):
                    cs.external = f"super({bases[0][1]}).{fn.attr}"
                    return cs
                # mixin/Cbstr: super target unknown in this class alone: all methods of that name in subclasses' MROs
                cs.targets = list(self.methods_by_name.get(fn.attr, []))
                cs.how = "super (by name)"
                return cs
            if isinstance(v, ast.Name) and v.id in ("self", "cls") and f.cls is not None:
                t = self._overrides(f.cls, fn.attr)
                if t:
                    cs.targets = t
                    cs.how = "self/cls"
                    return cs
                # attribute holding an object (self.kms.sign): fall through to by-name
            if isinstance(v, ast.Name) and v.id in local_types:
                t = self._overrides(local_types[v.id], fn.attr)
                if t:
                    cs.targets = t
                    cs.how = "typed local"
                    return cs
            r = repo.resolve_expr(f.module, fn)
            if r is not None:
                return self._from_resolution(cs, r)
            # plugin factories
            if self.plugin_factories and fn.attr.startswith("suit_") and fn.attr.endswith("_factory"):
                for m in repo.modules.values():
                    if fn.attr in m.functions:
                        cs.targets.append(m.functions[fn.attr])
                cs.how = "plugin factory"
                return cs
            # method on another receiver: by name
            if fn.attr in self.methods_by_name and fn.attr not in AMBIGUOUS:
                cs.targets = list(self.methods_by_name[fn.attr])
                cs.how = "by name"
                return cs
            if fn.attr in ("sign", "encrypt", "init_kms", "sign_envelope", "encrypt_and_generate", "generate"):
                cs.targets = [m for m in self.methods_by_name.get(fn.attr, []) if "abstractmethod" not in m.decorators]
                cs.how = "plugin interface"
                return cs
            cs.external = "?." + fn.attr
            return cs
        cs.unresolved = True
        cs.how = "computed callee"
        return cs

    def _from_resolution(self, cs: CallSite, r) -> CallSite:
        k = r[0]
        if k == "func":
            cs.targets = [r[1]]
            cs.how = "name"
        elif k == "class":
            init = self.repo.lookup_method(r[1], "__init__")
            cs.targets = [init] if init is not None else []
            cs.external = None if init is not None else f"{r[1].fq}()"
            cs.how = "constructor"
        elif k in ("ext", "builtin"):
            cs.external = r[1]
        elif k == "const":
            cs.unresolved = True
            cs.how = "module variable callable"
        else:
            cs.external = repr(r)[:60]
        return cs

    # ------------------------------------------------------------------
    def callees(self, f: FuncInfo) -> list:
        out = []
        for cs in self.sites.get(f.fq, []):
            for t in cs.targets:
                if t not in out:
                    out.append(t)
        return out

    def reachable(self, entries, stop=None) -> dict:
        """FuncInfo.fq -> (FuncInfo, predecessor fq or None) for everything reachable from entries."""
        seen = {}
        todo = [(e, None) for e in entries]
        while todo:
            f, pred = todo.pop()
            if f.fq in seen:
                continue
            seen[f.fq] = (f, pred)
            if stop is not None and stop(f):
                continue
            for t in self.callees(f):
                if t.fq not in seen:
                    todo.append((t, f.fq))
        return seen

    def path_to(self, reach: dict, fq: str) -> list:
        out = []
        while fq is not None:
            out.append(fq)
            fq = reach[fq][1]
        return list(reversed(out))

    def stats(self) -> dict:
        total = resolved = external = unresolved = 0
        for sites in self.sites.values():
            for cs in sites:
                total += 1
                if cs.targets:
                    resolved += 1
                elif cs.external is not None:
                    external += 1
                else:
                    unresolved += 1
        return {"call_sites": total, "resolved": resolved, "external": external, "unresolved": unresolved}
