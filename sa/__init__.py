"""Static-analysis engine for the suit-generator verification task.

Nothing in this package imports or executes code of the analysed repository.
"""
