"""Abstract interpreter for the Jinja subset used by the NCS templates (T16).

The template is only *parsed* by jinja2 (``Environment().parse``); this module interprets the AST over a small
domain: integers and lists are concrete, ``is defined`` tests are free boolean atoms fixed by the configuration
being explored, every other leaf (image names, folders, configured vendor/class names) is a named placeholder
token.  Node kinds outside the supported subset raise AnalysisError (never guessed).
"""
from __future__ import annotations

from jinja2 import Environment, nodes

from .index import AnalysisError


class NotModelled(AnalysisError):
    """The template uses a construct this interpreter does not model: never a verdict about the template."""


class Undef:
    def __repr__(self):
        return "Undef"


UNDEF = Undef()


class Image(dict):
    """A configured image entry: image['name'] is a placeholder token."""


class ConfigMap:
    """sysbuild['config']: a key is either configured (placeholder token) or absent."""

    def __init__(self, present: dict):
        self.present = present

    def get(self, key):
        return self.present.get(key, UNDEF)


SUPPORTED = {"Template", "Output", "TemplateData", "Assign", "If", "For", "Name", "Const", "Getitem", "Getattr", "Filter", "Test",
             "Add", "Concat", "List", "Slice", "Call", "Or", "Sub", "Compare", "Operand", "Not", "And", "CondExpr", "Tuple", "Macro", "Keyword",
             "Mul", "Dict", "Pair", "Neg", "Pos", "Div", "FloorDiv", "Mod"}


class JinjaAI:
    def __init__(self, source: str, name: str):
        self.name = name
        self.tree = Environment().parse(source)
        self.kinds = set()
        self._scan(self.tree)
        bad = self.kinds - SUPPORTED
        if bad:
            raise NotModelled(f"template {name}: node kinds not modelled: {sorted(bad)}")

    def _scan(self, n):
        self.kinds.add(type(n).__name__)
        for c in n.iter_child_nodes():
            self._scan(c)

    def tested_variables(self):
        """Free names whose being defined or not the template asks about: `x is defined` tests and `x | default(...)` filters
        (names the template assigns itself are not configuration)."""
        stored = {n.name for n in self.tree.find_all(nodes.Name) if n.ctx == "store"}
        out = []
        asked_of_stored = set()
        for n in self.tree.find_all((nodes.Test, nodes.Filter)):
            if ((isinstance(n, nodes.Test) and n.name in ("defined", "undefined")) or (isinstance(n, nodes.Filter) and n.name in ("default", "d"))) \
                    and isinstance(n.node, nodes.Name) and n.node.name in stored:
                asked_of_stored.add(n.node.name)
            if ((isinstance(n, nodes.Test) and n.name in ("defined", "undefined")) or (isinstance(n, nodes.Filter) and n.name in ("default", "d"))) \
                    and isinstance(n.node, nodes.Name) and n.node.name not in out and n.node.name not in stored:
                out.append(n.node.name)
            if isinstance(n, nodes.Filter) and n.name in ("default", "d"):
                # x | default(y): whether y is defined matters as well
                for a in n.args:
                    if isinstance(a, nodes.Name) and a.name not in out and a.name not in stored:
                        out.append(a.name)
        # `set x = y` hands y's being defined or not on to x: when the template asks it of x, it asks it of y
        changed = True
        while changed:
            changed = False
            for a in self.tree.find_all(nodes.Assign):
                if isinstance(a.target, nodes.Name) and a.target.name in asked_of_stored and isinstance(a.node, nodes.Name):
                    y = a.node.name
                    if y in stored and y not in asked_of_stored:
                        asked_of_stored.add(y)
                        changed = True
                    elif y not in stored and y not in out:
                        out.append(y)
                        changed = True
        return out

    def free_variables(self):
        stored = {n.name for n in self.tree.find_all(nodes.Name) if n.ctx == "store"}
        return sorted({n.name for n in self.tree.find_all(nodes.Name) if n.ctx == "load"} - stored)

    # ------------------------------------------------------------------
    def render(self, variables: dict) -> str:
        self.env = dict(variables)
        self.out = []
        self.trace = []  # (lineno, description) of executed set statements, for witnesses
        self.block(self.tree.body)
        return "".join(self.out)

    def block(self, body):
        for n in body:
            self.stmt(n)

    def stmt(self, n):
        if isinstance(n, nodes.Output):
            for x in n.nodes:
                if isinstance(x, nodes.TemplateData):
                    self.out.append(x.data)
                else:
                    v = self.expr(x)
                    if v is UNDEF:
                        raise AnalysisError(f"{self.name}:{x.lineno}: undefined value is printed")
                    self.out.append(self.to_text(v))
        elif isinstance(n, nodes.Assign):
            if not isinstance(n.target, nodes.Name):
                raise NotModelled(f"{self.name}:{n.lineno}: assignment target not modelled")
            self.env[n.target.name] = self.expr(n.node)
            self.trace.append((n.lineno, f"{n.target.name} = {self.env[n.target.name]!r}"))
        elif isinstance(n, nodes.If):
            if self.truth(self.expr(n.test)):
                self.block(n.body)
                return
            for e in n.elif_:
                if self.truth(self.expr(e.test)):
                    self.block(e.body)
                    return
            self.block(n.else_)
        elif isinstance(n, nodes.For):
            it = self.expr(n.iter)
            if not isinstance(it, (list, tuple)):
                raise AnalysisError(f"{self.name}:{n.lineno}: loop over a non-list value")
            if not isinstance(n.target, nodes.Name) and not (isinstance(n.target, nodes.Tuple) and all(isinstance(t_, nodes.Name) for t_ in n.target.items)):
                raise NotModelled(f"{self.name}:{n.lineno}: loop target not modelled")
            saved = dict(self.env)
            items_ = list(it)
            if n.test is not None:
                # for x in xs if test: the filter decides which items the loop (and loop.index) sees
                kept = []
                for item in items_:
                    self._bind(n.target, item, n)
                    if self.truth(self.expr(n.test)):
                        kept.append(item)
                items_ = kept
            for i_, item in enumerate(items_):
                self._bind(n.target, item, n)
                self.env["loop"] = {"index": i_ + 1, "index0": i_, "first": i_ == 0, "last": i_ == len(items_) - 1, "length": len(items_),
                                    "revindex": len(items_) - i_, "revindex0": len(items_) - i_ - 1}
                self.block(n.body)
            if not items_ and n.else_:
                self.block(n.else_)
            # Jinja loops have their own scope: assignments inside do not leak (in-place list mutations do)
            self.env = saved
        elif isinstance(n, nodes.Macro):
            self.env[n.name] = ("macro", n)
        else:
            raise NotModelled(f"{self.name}: statement {type(n).__name__} not modelled")

    def _bind(self, target, item, n):
        if isinstance(target, nodes.Name):
            self.env[target.name] = item
            return
        vals = list(item) if isinstance(item, (list, tuple)) else None
        if vals is None or len(vals) != len(target.items):
            raise AnalysisError(f"{self.name}:{n.lineno}: cannot unpack a loop item into {len(target.items)} names")
        for t_, v_ in zip(target.items, vals):
            self.env[t_.name] = v_

    def truth(self, v):
        if v is UNDEF:
            return False
        return bool(v)

    def to_text(self, v):
        if isinstance(v, bool):
            return "True" if v else "False"
        if isinstance(v, list):
            return "[" + ", ".join(self.to_text(x) for x in v) + "]"
        return str(v)

    def expr(self, n):
        if isinstance(n, nodes.Const):
            return n.value
        if isinstance(n, nodes.Name):
            return self.env.get(n.name, UNDEF)
        if isinstance(n, nodes.List):
            return [self.expr(x) for x in n.items]
        if isinstance(n, nodes.Test):
            if n.name == "undefined":
                return self.expr(n.node) is UNDEF
            if n.name != "defined":
                raise NotModelled(f"{self.name}:{n.lineno}: test {n.name} not modelled")
            return self.expr(n.node) is not UNDEF
        if isinstance(n, nodes.Add):
            l, r = self.expr(n.left), self.expr(n.right)
            if l is UNDEF or r is UNDEF:
                raise AnalysisError(f"{self.name}:{n.lineno}: arithmetic on an undefined value")
            return l + r
        if isinstance(n, nodes.Mul):
            return self.expr(n.left) * self.expr(n.right)
        if isinstance(n, nodes.Dict):
            return {self.expr(p_.key): self.expr(p_.value) for p_ in n.items}
        if isinstance(n, nodes.CondExpr):
            if self.truth(self.expr(n.test)):
                return self.expr(n.expr1)
            return self.expr(n.expr2) if n.expr2 is not None else UNDEF
        if isinstance(n, nodes.Tuple):
            return tuple(self.expr(x) for x in n.items)
        if isinstance(n, nodes.Compare):
            left = self.expr(n.expr)
            ops = {"eq": lambda a, b: a == b, "ne": lambda a, b: a != b, "lt": lambda a, b: a < b, "lteq": lambda a, b: a <= b,
                   "gt": lambda a, b: a > b, "gteq": lambda a, b: a >= b, "in": lambda a, b: a in b, "notin": lambda a, b: a not in b}
            for op in n.ops:
                right = self.expr(op.expr)
                if op.op not in ops:
                    raise NotModelled(f"{self.name}:{n.lineno}: comparison {op.op} not modelled")
                if (left is UNDEF or right is UNDEF) and op.op not in ("eq", "ne"):
                    raise AnalysisError(f"{self.name}:{n.lineno}: comparison with an undefined value")
                try:
                    if not ops[op.op](left, right):
                        return False
                except TypeError:
                    raise AnalysisError(f"{self.name}:{n.lineno}: comparison of incompatible values")
                left = right
            return True
        if isinstance(n, nodes.Neg):
            return -self.expr(n.node)
        if isinstance(n, nodes.Pos):
            return +self.expr(n.node)
        if isinstance(n, (nodes.Div, nodes.FloorDiv, nodes.Mod)):
            l_, r_ = self.expr(n.left), self.expr(n.right)
            if l_ is UNDEF or r_ is UNDEF:
                raise AnalysisError(f"{self.name}:{n.lineno}: arithmetic on an undefined value")
            return l_ / r_ if isinstance(n, nodes.Div) else (l_ // r_ if isinstance(n, nodes.FloorDiv) else l_ % r_)
        if isinstance(n, nodes.Sub):
            return self.expr(n.left) - self.expr(n.right)
        if isinstance(n, nodes.Concat):
            parts = [self.expr(x) for x in n.nodes]
            if any(p is UNDEF for p in parts):
                raise AnalysisError(f"{self.name}:{n.lineno}: concatenation with an undefined value")
            return "".join(self.to_text(p) for p in parts)
        if isinstance(n, nodes.Or):
            l = self.expr(n.left)
            return l if self.truth(l) else self.expr(n.right)
        if isinstance(n, nodes.And):
            l = self.expr(n.left)
            return self.expr(n.right) if self.truth(l) else l
        if isinstance(n, nodes.Not):
            return not self.truth(self.expr(n.node))
        if isinstance(n, nodes.Getitem):
            base = self.expr(n.node)
            if isinstance(n.arg, nodes.Slice):
                if not isinstance(base, list):
                    raise AnalysisError(f"{self.name}:{n.lineno}: slice of a non-list")
                lo = self.expr(n.arg.start) if n.arg.start is not None else None
                hi = self.expr(n.arg.stop) if n.arg.stop is not None else None
                return list(base[lo:hi])
            key = self.expr(n.arg)
            if base is UNDEF:
                # jinja2.Undefined.__getitem__ raises UndefinedError: rendering fails
                raise AnalysisError(f"{self.name}:{n.lineno}: subscript of an undefined variable (rendering raises UndefinedError)")
            if isinstance(base, ConfigMap):
                return base.get(key)
            if isinstance(base, dict):
                return base.get(key, UNDEF)
            if isinstance(base, list):
                if not isinstance(key, int) or not -len(base) <= key < len(base):
                    return UNDEF
                return base[key]
            return UNDEF
        if isinstance(n, nodes.Getattr):
            base = self.expr(n.node)
            if isinstance(base, list) and n.attr == "append":
                return ("bound-append", base)
            if isinstance(base, dict):
                return base.get(n.attr, UNDEF)
            return UNDEF
        if isinstance(n, nodes.Call):
            f = self.expr(n.node)
            if isinstance(f, tuple) and f[0] == "bound-append":
                args = [self.expr(a) for a in n.args]
                if len(args) != 1 or args[0] is UNDEF:
                    raise AnalysisError(f"{self.name}:{n.lineno}: append of an undefined value")
                f[1].append(args[0])
                return None
            if isinstance(f, tuple) and f[0] == "macro":
                m = f[1]
                if n.dyn_args is not None or n.dyn_kwargs is not None:
                    raise NotModelled(f"{self.name}:{n.lineno}: macro call with * arguments not modelled")
                names = [a.name for a in m.args]
                vals = {}
                for nm, a in zip(names, n.args):
                    vals[nm] = self.expr(a)
                for kw in n.kwargs:
                    vals[kw.key] = self.expr(kw.value)
                defaults = list(m.defaults)
                for nm, d in zip(names[len(names) - len(defaults):], defaults):
                    if nm not in vals:
                        vals[nm] = self.expr(d)
                for nm in names:
                    vals.setdefault(nm, UNDEF)
                # a macro sees the template's top-level names and its own arguments; what it prints is its value
                saved_env, saved_out = self.env, self.out
                self.env = {**saved_env, **vals}
                self.out = []
                try:
                    self.block(m.body)
                    text = "".join(self.out)
                finally:
                    self.env, self.out = saved_env, saved_out
                return text
            raise NotModelled(f"{self.name}:{n.lineno}: call not modelled")
        if isinstance(n, nodes.Filter):
            v = self.expr(n.node)
            if n.name in ("default", "d"):
                d = self.expr(n.args[0]) if n.args else ""
                return d if v is UNDEF else v
            if n.name == "join":
                sep = self.expr(n.args[0]) if n.args else ""
                if not isinstance(v, list):
                    raise AnalysisError(f"{self.name}:{n.lineno}: join of a non-list")
                return sep.join(self.to_text(x) for x in v)
            if n.name in ("length", "count"):
                if v is UNDEF:
                    return 0
                if isinstance(v, (list, tuple, str, dict)):
                    return len(v)
                raise AnalysisError(f"{self.name}:{n.lineno}: length of a value without one")
            if n.name in ("first", "last"):
                if isinstance(v, (list, tuple)):
                    return (v[0] if n.name == "first" else v[-1]) if v else UNDEF
                raise NotModelled(f"{self.name}:{n.lineno}: filter {n.name} of a non-list not modelled")
            if n.name in ("string", "trim", "lower", "upper") and isinstance(v, (str, int)):
                t_ = self.to_text(v)
                return {"string": t_, "trim": t_.strip(), "lower": t_.lower(), "upper": t_.upper()}[n.name]
            if n.name == "int" and isinstance(v, (int, str)) and not isinstance(v, bool):
                try:
                    return int(v)
                except ValueError:
                    return self.expr(n.args[0]) if n.args else 0
            if n.name == "list" and isinstance(v, (list, tuple)):
                return list(v)
            raise NotModelled(f"{self.name}:{n.lineno}: filter {n.name} not modelled")
        raise NotModelled(f"{self.name}: expression {type(n).__name__} not modelled")
