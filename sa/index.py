"""Source index and name resolver ("the resolved program").

The index parses every Python module of the analysed packages with ``ast`` and
offers module-qualified lookup of classes, functions, class attributes, imports
and the MRO of repository classes.  It never imports the analysed code.
"""
from __future__ import annotations

import ast
import hashlib
import json
import os
from dataclasses import dataclass, field
from pathlib import Path
from typing import Optional

PACKAGES = ("suit_generator", "ncs", "build_configuration")
EXTRA_FILES = (
    "ncs/root_with_nordic_top_envelope.yaml.jinja2",
    "ncs/nordic_top_envelope.yaml.jinja2",
    "ncs/Kconfig",
    "requirements.txt",
)


class AnalysisError(Exception):
    """The analysis cannot stand behind a verdict (exit code 2)."""


def fingerprint(fnode, with_attrs=False):
    """A digest of a function that survives a consistent renaming of the function, its parameters, its locals and the private
    names it uses: docstring and annotations dropped, parameters / locals numbered by first appearance, private attribute and
    private global names numbered likewise.  Used only to re-find an anchor that was renamed, never as a verdict."""
    import copy
    node = copy.deepcopy(fnode)
    bound = {a.arg for a in node.args.posonlyargs + node.args.args + node.args.kwonlyargs}
    if node.args.vararg:
        bound.add(node.args.vararg.arg)
    if node.args.kwarg:
        bound.add(node.args.kwarg.arg)
    for n in ast.walk(node):
        if isinstance(n, ast.Name) and isinstance(n.ctx, (ast.Store, ast.Del)):
            bound.add(n.id)
        elif isinstance(n, ast.ExceptHandler) and n.name:
            bound.add(n.name)
    names, attrs = {}, {}

    def nm(x):
        return names.setdefault(x, f"v{len(names)}")

    def at(x):
        return attrs.setdefault(x, f"_a{len(attrs)}")

    class T(ast.NodeTransformer):
        def visit_FunctionDef(self, n):
            n.name = "f" if n is node else nm(n.name)
            n.returns = None
            n.decorator_list = [d for d in n.decorator_list if not (isinstance(d, ast.Name) and d.id == "log_call")]
            if n.body and isinstance(n.body[0], ast.Expr) and isinstance(n.body[0].value, ast.Constant) and isinstance(n.body[0].value.value, str):
                n.body = n.body[1:] or [ast.Pass()]
            self.generic_visit(n)
            return n

        def visit_arg(self, n):
            n.arg = nm(n.arg)
            n.annotation = None
            return n

        def visit_AnnAssign(self, n):
            self.generic_visit(n)
            return ast.Assign(targets=[n.target], value=n.value) if n.value is not None else ast.Pass()

        def visit_Name(self, n):
            if n.id in bound or (n.id.startswith("_") and not n.id.startswith("__")):
                n.id = nm(n.id)
            return n

        def visit_Attribute(self, n):
            self.generic_visit(n)
            if n.attr.startswith("_") and not n.attr.startswith("__"):
                n.attr = at(n.attr)
            return n

        def visit_ExceptHandler(self, n):
            if n.name:
                n.name = nm(n.name)
            self.generic_visit(n)
            return n

        def visit_keyword(self, n):
            self.generic_visit(n)
            return n
    T().visit(node)
    digest = hashlib.sha1(ast.dump(node, annotate_fields=False, include_attributes=False).encode()).hexdigest()[:16]
    return (digest, list(attrs)) if with_attrs else digest


class Abort(Exception):
    """A violation was reported that makes the rest of this property's rules meaningless (the analysed effect is absent): stop, keep
    the report (exit code 1 through the reported violation)."""


@dataclass
class FuncInfo:
    name: str
    qualname: str
    node: ast.FunctionDef
    module: "Mod"
    cls: Optional["ClassInfo"] = None
    decorators: list = field(default_factory=list)
    home: Optional[str] = None  # module name the qualified name is given under, when it differs from the defining module (class-body alias)

    @property
    def fq(self) -> str:
        return f"{self.home or self.module.name}:{self.qualname}"

    @property
    def kind(self) -> str:
        if "classmethod" in self.decorators:
            return "classmethod"
        if "staticmethod" in self.decorators:
            return "staticmethod"
        if "property" in self.decorators:
            return "property"
        return "method" if self.cls is not None else "function"

    def params(self) -> list:
        a = self.node.args
        return [x.arg for x in a.posonlyargs + a.args]


@dataclass
class ClassInfo:
    name: str
    node: ast.ClassDef
    module: "Mod"
    bases: list = field(default_factory=list)  # ast expressions
    attrs: dict = field(default_factory=dict)  # name -> ast expr (class-body assignments)
    attr_nodes: dict = field(default_factory=dict)  # name -> ast stmt
    methods: dict = field(default_factory=dict)  # name -> FuncInfo
    decorators: list = field(default_factory=list)
    outer: Optional[FuncInfo] = None  # enclosing function for nested classes

    @property
    def fq(self) -> str:
        return f"{self.module.name}:{self.name}"

    def __hash__(self):
        return hash(self.fq)

    def __eq__(self, other):
        return isinstance(other, ClassInfo) and other.fq == self.fq

    def __repr__(self):
        return f"<class {self.fq}>"


class Mod:
    def __init__(self, name: str, path: Path, relpath: str, source: str):
        self.name = name
        self.path = path
        self.relpath = relpath
        self.source = source
        self.sha256 = hashlib.sha256(source.encode()).hexdigest()
        try:
            self.tree = ast.parse(source, filename=str(path))
        except SyntaxError as e:  # pragma: no cover
            raise AnalysisError(f"cannot parse {relpath}: {e}")
        self.imports: dict = {}  # local name -> (module dotted, symbol or None)
        self.classes: dict = {}
        self.functions: dict = {}  # qualname -> FuncInfo
        self.assigns: dict = {}  # module-level NAME = expr (last wins)
        self.all_assign_stmts: list = []  # every module-level Assign/AugAssign stmt
        self.method_aliases: list = []  # (class, name, expr, 'staticmethod' | 'classmethod') for `name = staticmethod(f)` in a class body
        self._index()

    def __repr__(self):
        return f"<mod {self.name}>"

    # -- indexing ---------------------------------------------------------
    def _dec_names(self, node) -> list:
        out = []
        for d in node.decorator_list:
            if isinstance(d, ast.Name):
                out.append(d.id)
            elif isinstance(d, ast.Attribute):
                out.append(d.attr)
            elif isinstance(d, ast.Call):
                f = d.func
                out.append(f.id if isinstance(f, ast.Name) else getattr(f, "attr", "?"))
            else:
                out.append("?")
        return out

    def _index_imports(self, body, local=False):
        for n in body:
            if isinstance(n, ast.Import):
                for a in n.names:
                    local_name = a.asname or a.name.split(".")[0]
                    target = a.name if a.asname else a.name.split(".")[0]
                    self.imports[local_name] = (target, None)
            elif isinstance(n, ast.ImportFrom):
                if n.level:
                    base = self.name.rsplit(".", n.level)[0] if "." in self.name else ""
                    modname = f"{base}.{n.module}" if n.module else base
                else:
                    modname = n.module
                for a in n.names:
                    self.imports[a.asname or a.name] = (modname, a.name)

    def _index_class(self, n: ast.ClassDef, outer: Optional[FuncInfo] = None, prefix: str = ""):
        ci = ClassInfo(n.name, n, self, bases=list(n.bases), decorators=self._dec_names(n), outer=outer)
        ci.prefix = prefix
        for s in n.body:
            if isinstance(s, ast.Assign) and len(s.targets) == 1 and isinstance(s.targets[0], ast.Name):
                ci.attrs[s.targets[0].id] = s.value
                ci.attr_nodes[s.targets[0].id] = s
                v = s.value
                if isinstance(v, ast.Call) and isinstance(v.func, ast.Name) and v.func.id in ("staticmethod", "classmethod") and len(v.args) == 1 \
                        and isinstance(v.args[0], (ast.Name, ast.Attribute)):
                    self.method_aliases.append((ci, s.targets[0].id, v.args[0], v.func.id))  # name = staticmethod(other_function)
            elif isinstance(s, ast.AnnAssign) and isinstance(s.target, ast.Name) and s.value is not None:
                ci.attrs[s.target.id] = s.value
                ci.attr_nodes[s.target.id] = s
            elif isinstance(s, (ast.FunctionDef, ast.AsyncFunctionDef)):
                fi = FuncInfo(s.name, f"{prefix}{n.name}.{s.name}", s, self, cls=ci, decorators=self._dec_names(s))
                # property setter shares the name: keep the getter under the name, setter under name.setter
                if any(isinstance(d, ast.Attribute) and d.attr == "setter" for d in s.decorator_list):
                    ci.methods[s.name + ".setter"] = fi
                    self.functions[fi.qualname + ".setter"] = fi
                else:
                    ci.methods[s.name] = fi
                    self.functions[fi.qualname] = fi
                self._index_nested(s, fi)
        return ci

    def _index_nested(self, fnode, finfo: FuncInfo):
        """Index classes defined inside functions (cbstr's Cbstr, PrereleaseType)."""
        for s in ast.walk(fnode):
            if isinstance(s, ast.ClassDef) and s is not fnode:
                ci = self._index_class(s, outer=finfo, prefix=finfo.qualname + ".<locals>.")
                self.classes.setdefault(f"{finfo.qualname}.<locals>.{s.name}", ci)
        # function-local imports are visible through the module import table as a fallback
        self._index_imports([x for x in ast.walk(fnode) if isinstance(x, (ast.Import, ast.ImportFrom))], local=True)

    def _index(self):
        body = list(self.tree.body)
        # "if __name__ == '__main__':" blocks are indexed for imports only
        for n in body:
            if isinstance(n, ast.If):
                self._index_imports(n.body)
        self._index_imports(body)
        for n in body:
            if isinstance(n, ast.ClassDef):
                self.classes[n.name] = self._index_class(n)
            elif isinstance(n, (ast.FunctionDef, ast.AsyncFunctionDef)):
                fi = FuncInfo(n.name, n.name, n, self, decorators=self._dec_names(n))
                self.functions[n.name] = fi
                self._index_nested(n, fi)
            elif isinstance(n, ast.Assign):
                self.all_assign_stmts.append(n)
                if len(n.targets) == 1 and isinstance(n.targets[0], ast.Name):
                    self.assigns[n.targets[0].id] = n.value
            elif isinstance(n, ast.AnnAssign):
                self.all_assign_stmts.append(n)
                if isinstance(n.target, ast.Name) and n.value is not None:
                    self.assigns[n.target.id] = n.value
            elif isinstance(n, ast.AugAssign):
                self.all_assign_stmts.append(n)


_FPS: list = []


def known_fingerprints() -> dict:
    """{qualified name: fingerprint} of the functions that existed when the rules were confirmed (reference/known_functions.json)."""
    if not _FPS:
        f = Path(__file__).resolve().parent.parent / "reference" / "known_functions.json"
        d = json.loads(f.read_text()) if f.is_file() else {}
        if not isinstance(d, dict):
            d = {k: "" for k in d}
        _FPS.append({k: (v.get("fp", "") if isinstance(v, dict) else v) for k, v in d.items()})
        _FPS.append({k: (v.get("params") if isinstance(v, dict) else None) for k, v in d.items()})
        _FPS.append({k: (v.get("attrs") if isinstance(v, dict) else None) for k, v in d.items()})
    return _FPS[0]


def known_attrs() -> dict:
    known_fingerprints()
    return _FPS[2]


def known_params() -> dict:
    known_fingerprints()
    return _FPS[1]


class Repo:
    """All analysed modules of one working tree."""

    def __init__(self, root: str | os.PathLike):
        self.root = Path(root).resolve()
        if not self.root.is_dir():
            raise AnalysisError(f"repository root {root} not found")
        self.modules: dict = {}
        self.extra: dict = {}  # relpath -> text
        self.not_consulted: list = []
        self.relocated: dict = {}  # vanished anchor -> function of the same bare name taken in its place
        self._load()

    def _load(self):
        for pkg in PACKAGES:
            pdir = self.root / pkg
            if not pdir.is_dir():
                raise AnalysisError(f"package directory {pkg}/ vanished")
            for p in sorted(pdir.rglob("*.py")):
                rel = p.relative_to(self.root).as_posix()
                if "/__pycache__/" in rel or rel == "suit_generator/_version.py":  # the file generated by setuptools_scm
                    continue
                name = rel[:-3].replace("/", ".")
                if name.endswith(".__init__"):
                    name = name[: -len(".__init__")]
                src = p.read_text(encoding="utf-8")
                self.modules[name] = Mod(name, p, rel, src)
        for rel in EXTRA_FILES:
            p = self.root / rel
            if p.is_file():
                self.extra[rel] = p.read_text(encoding="utf-8")
        for d in ("tests", "doc", "examples"):
            if (self.root / d).is_dir():
                self.not_consulted.append(d + "/")
        self.not_consulted.append("setup.py")
        # private functions the rules know by name that were renamed: re-found by structure, known again under the old name
        for k in known_fingerprints():
            mn, qn = k.split(":", 1)
            if mn in self.modules and qn not in self.modules[mn].functions and qn.rsplit(".", 1)[-1].startswith("_") \
                    and not qn.rsplit(".", 1)[-1].startswith("__"):
                bare = qn.rsplit(".", 1)[-1]
                if not any(q.rsplit(".", 1)[-1] == bare for m_ in self.modules.values() for q in m_.functions):
                    self._renamed(mn, qn)
        self.renamed_attrs: dict = {}
        self._normalise_renames()
        self._role_anchors()
        # a method given as `name = staticmethod(function defined elsewhere)` is a method of the class
        for m in list(self.modules.values()):
            for ci, name, expr, kind in m.method_aliases:
                r = self.resolve_expr(m, expr)
                if r and r[0] == "func" and name not in ci.methods:
                    t = r[1]
                    fi = FuncInfo(name, f"{getattr(ci, 'prefix', '')}{ci.name}.{name}", t.node, t.module, cls=ci, decorators=[kind], home=m.name)
                    ci.methods[name] = fi
                    m.functions.setdefault(fi.qualname, fi)

    # -- lookups -----------------------------------------------------------
    def mod(self, name: str) -> Mod:
        if name not in self.modules:
            raise AnalysisError(f"anchor module {name} vanished")
        return self.modules[name]

    def cls(self, modname: str, clsname: str) -> ClassInfo:
        m = self.mod(modname)
        if clsname not in m.classes:
            # moved into another module and imported back under the same name
            r = self.resolve_name(m, clsname) if "." not in clsname else None
            if r and r[0] == "class":
                self.relocated[f"{modname}:{clsname}"] = r[1].fq
                return r[1]
            raise AnalysisError(f"anchor class {modname}:{clsname} vanished")
        return m.classes[clsname]

    def func(self, modname: str, qualname: str) -> FuncInfo:
        m = self.mod(modname)
        if qualname not in m.functions:
            moved = self._relocated(modname, qualname)
            if moved is None:
                raise AnalysisError(f"anchor function {modname}:{qualname} vanished")
            return moved
        return m.functions[qualname]

    def _relocated(self, modname: str, qualname: str) -> Optional[FuncInfo]:
        """A private helper that moved (method -> module level, another class, another module) keeps its name: when exactly one
        function of the analysed program still carries the bare name of a vanished anchor, that function is the anchor."""
        bare = qualname.rsplit(".", 1)[-1]
        m = self.modules[modname]
        # the function, or the class of the method, moved into another module and is imported back under the same name
        if "." not in qualname:
            r = self.resolve_name(m, qualname)
            if r and r[0] == "func":
                self.relocated[f"{modname}:{qualname}"] = r[1].fq
                return r[1]
        elif qualname.count(".") == 1 and qualname.split(".")[0] not in m.classes:
            r = self.resolve_name(m, qualname.split(".")[0])
            if r and r[0] == "class" and bare in r[1].methods:
                self.relocated[f"{modname}:{qualname}"] = r[1].methods[bare].fq
                return r[1].methods[bare]
        if not bare.startswith("_") or bare.startswith("__"):
            return None  # public and special names (from_obj, to_cbor, __init__ ...) are shared by many classes
        same = [f for q, f in self.modules[modname].functions.items() if q.rsplit(".", 1)[-1] == bare]
        cands = same or [f for m in self.modules.values() for q, f in m.functions.items() if q.rsplit(".", 1)[-1] == bare]
        if len(cands) != 1:
            return self._renamed(modname, qualname) if not cands else None
        self.relocated[f"{modname}:{qualname}"] = f"{cands[0].module.name}:{cands[0].qualname}"
        return cands[0]

    @staticmethod
    def _params_back(f: FuncInfo, old_params):
        """Give a structurally unchanged function the parameter names the rules were written against (in a copy of its tree)."""
        new_params = f.params()
        if not old_params or len(old_params) != len(new_params) or old_params == new_params:
            return
        back = {n_: o_ for n_, o_ in zip(new_params, old_params) if n_ != o_}
        used = {n.id for n in ast.walk(f.node) if isinstance(n, ast.Name)} | {a.arg for a in ast.walk(f.node) if isinstance(a, ast.arg)}
        if any(o in used and o not in new_params for o in back.values()):
            return
        import copy
        node = copy.deepcopy(f.node)
        for n in ast.walk(node):
            if isinstance(n, ast.Name) and n.id in back:
                n.id = back[n.id]
            elif isinstance(n, ast.arg) and n.arg in back:
                n.arg = back[n.arg]
        f.node = node
        f.kw_alias = back

    def _normalise_renames(self):
        """Undo consistent renamings of private attributes and of parameters: a function whose fingerprint equals the recorded one
        differs from the recorded function only in such names, so position by position its private attribute names (and its
        parameters) are the recorded ones under another spelling.  The renaming is applied to copies of the syntax trees (line
        numbers kept), so that the rules see the names they were written against; a name is only mapped when every function
        that votes agrees, the old name is gone from the program and the new name was not known before."""
        ref_fp, ref_params, ref_attrs = known_fingerprints(), known_params(), known_attrs()
        votes: dict = {}
        for fq_, fp_ in ref_fp.items():
            mn, qn = fq_.split(":", 1)
            f = self.modules[mn].functions.get(qn) if mn in self.modules else None
            if f is None or not fp_:
                continue
            got_fp, got_attrs = fingerprint(f.node, with_attrs=True)
            if got_fp != fp_:
                continue
            self._params_back(f, ref_params.get(fq_))
            old_attrs = ref_attrs.get(fq_) or []
            if len(old_attrs) == len(got_attrs):
                for new_, old_ in zip(got_attrs, old_attrs):
                    if new_ != old_:
                        votes.setdefault(new_, set()).add(old_)
        if not votes:
            return
        present = set()
        for m in self.modules.values():
            for n in ast.walk(m.tree):
                if isinstance(n, ast.Attribute):
                    present.add(n.attr)
                elif isinstance(n, ast.Name):
                    present.add(n.id)
        known_names = {a for al in ref_attrs.values() for a in (al or [])}
        mapping = {new_: next(iter(olds)) for new_, olds in votes.items() if len(olds) == 1}
        mapping = {n_: o_ for n_, o_ in mapping.items() if o_ not in present and n_ not in known_names
                   and list(mapping.values()).count(o_) == 1}
        if not mapping:
            return
        self.renamed_attrs = dict(mapping)
        import copy
        seen = set()
        for m in self.modules.values():
            for f in list(m.functions.values()):
                if id(f) in seen:
                    continue
                seen.add(id(f))
                if any(isinstance(n, ast.Attribute) and n.attr in mapping for n in ast.walk(f.node)):
                    node = copy.deepcopy(f.node)
                    for n in ast.walk(node):
                        if isinstance(n, ast.Attribute) and n.attr in mapping:
                            n.attr = mapping[n.attr]
                    f.node = node
            for c in m.classes.values():
                for new_, old_ in mapping.items():
                    if new_ in c.attrs and old_ not in c.attrs:
                        c.attrs[old_] = c.attrs.pop(new_)
                        c.attr_nodes[old_] = c.attr_nodes.pop(new_)

    def _role_anchors(self):
        """Anchors that are re-found by what they do when name AND signature changed (a rename-invariant fingerprint cannot match
        then).  One entry per anchor the rules cannot do without; each finder states the role in structural facts and names the
        parameters by their use.  The function is then known under the old name, with the old parameter names and order."""
        mn, cn, old = "suit_generator.suit.types.common", "SuitKeyValue", "_get_method_and_name"
        m = self.modules.get(mn)
        ci = m.classes.get(cn) if m else None
        if ci is None or old in ci.methods:
            return
        # the table lookup of the key-value node: a private method that compares getattr(<entry key>, <attribute parameter>) with
        # <wanted-key parameter> while going over `_metadata.map`
        cands = []
        for n, f in ci.methods.items():
            if not n.startswith("_") or n.startswith("__") or any(f is c_[0] for c_ in cands):
                continue
            params = [a.arg for a in f.node.args.posonlyargs + f.node.args.args + f.node.args.kwonlyargs]
            src = ast.unparse(f.node)
            if "_metadata.map" not in src:
                continue
            for x in ast.walk(f.node):
                if isinstance(x, ast.Compare) and len(x.ops) == 1 and isinstance(x.ops[0], ast.Eq):
                    sides = [x.left, x.comparators[0]]
                    ga = [s_ for s_ in sides if isinstance(s_, ast.Call) and isinstance(s_.func, ast.Name) and s_.func.id == "getattr" and len(s_.args) == 2
                          and isinstance(s_.args[1], ast.Name) and s_.args[1].id in params]
                    ky = [s_ for s_ in sides if isinstance(s_, ast.Name) and s_.id in params]
                    if len(ga) == 1 and len(ky) == 1:
                        cands.append((f, ky[0].id, ga[0].args[1].id))
                        break
        if len(cands) != 1:
            return
        f, keyp, attrp = cands[0]
        import copy
        node = copy.deepcopy(f.node)
        a = node.args
        # keyword-only parameters become ordinary ones again, in the order (cls, key, attribute)
        allp = a.posonlyargs + a.args + a.kwonlyargs
        first = allp[0] if allp and allp[0].arg in ("cls", "self") else None
        byname = {x.arg: x for x in allp}
        dflt = {}
        pos_all = a.posonlyargs + a.args
        for x, d in zip(pos_all[len(pos_all) - len(a.defaults):], a.defaults):
            dflt[x.arg] = d
        for x, d in zip(a.kwonlyargs, a.kw_defaults):
            if d is not None:
                dflt[x.arg] = d
        if set(byname) - {first.arg if first else None} != {keyp, attrp}:
            return
        a.posonlyargs, a.kwonlyargs, a.kw_defaults = [], [], []
        a.args = ([first] if first else []) + [byname[keyp], byname[attrp]]
        a.defaults = [dflt[attrp]] if attrp in dflt and keyp not in dflt else ([dflt[keyp], dflt[attrp]] if keyp in dflt and attrp in dflt else [])
        back = {keyp: "key", attrp: "attribute"}
        for n in ast.walk(node):
            if isinstance(n, ast.Name) and n.id in back:
                n.id = back[n.id]
            elif isinstance(n, ast.arg) and n.arg in back:
                n.arg = back[n.arg]
        new_name = f.name
        self.relocated[f"{mn}:{cn}.{old}"] = f.fq
        f.node, f.kw_alias = node, {k_: v_ for k_, v_ in back.items() if k_ != v_}
        f.name, f.qualname = old, f"{cn}.{old}"
        m.functions[f.qualname] = f
        ci.methods[old] = f
        ci.methods[new_name] = f

    def _renamed(self, modname: str, qualname: str) -> Optional[FuncInfo]:
        """A private function that was renamed (with its parameters, locals and the private names it uses) keeps its structure:
        the only function of the program - not itself a function the rules know by name - whose fingerprint equals the one recorded
        for the vanished anchor in reference/known_functions.json is the anchor."""
        fps = known_fingerprints()
        want = fps.get(f"{modname}:{qualname}")
        if not want:
            return None
        cands = [f for m in self.modules.values() for f in m.functions.values() if f.fq not in fps and fingerprint(f.node) == want]
        if len({id(f.node) for f in cands}) != 1:
            return None
        f = cands[0]
        self.relocated[f"{modname}:{qualname}"] = f.fq
        # from here on the function is known under the name (and with the parameter names) the rules were written against: the
        # same FuncInfo is registered under both names, its parameters renamed back in a copy of its syntax tree
        self._params_back(f, known_params().get(f"{modname}:{qualname}"))
        new_name = f.name
        # classes defined inside the function stay reachable under the function's restored name
        for k_, c_ in list(f.module.classes.items()):
            if k_.startswith(f.qualname + ".<locals>."):
                f.module.classes.setdefault(qualname + k_[len(f.qualname):], c_)
        f.name, f.qualname = qualname.rsplit(".", 1)[-1], qualname
        f.home = modname if f.module.name != modname else None
        self.modules[modname].functions[qualname] = f
        if f.cls is not None:
            f.cls.methods.setdefault(f.name, f)
            f.cls.methods[new_name] = f
        return f

    def find_func(self, modname: str, qualname: str) -> Optional[FuncInfo]:
        m = self.modules.get(modname)
        return m.functions.get(qualname) if m else None

    def files_evidence(self, relpaths=None) -> list:
        out = []
        for m in self.modules.values():
            if relpaths is None or m.relpath in relpaths:
                out.append({"path": m.relpath, "sha256": m.sha256})
        for rel, txt in self.extra.items():
            if relpaths is None or rel in relpaths:
                out.append({"path": rel, "sha256": hashlib.sha256(txt.encode()).hexdigest()})
        return out

    # -- resolution -----------------------------------------------------------
    def resolve_name(self, mod: Mod, name: str, _depth=0):
        """Resolve a bare name used in ``mod``.

        Returns one of
          ('class', ClassInfo) ('func', FuncInfo) ('module', Mod) ('const', expr, Mod)
          ('ext', dotted-name) ('builtin', name) or None.
        """
        if _depth > 8:
            return None
        if name in mod.classes:
            return ("class", mod.classes[name])
        if name in mod.functions and "." not in name:
            return ("func", mod.functions[name])
        if name in mod.assigns:
            return ("const", mod.assigns[name], mod)
        if name in mod.imports:
            target, sym = mod.imports[name]
            if sym is None:
                if target in self.modules:
                    return ("module", self.modules[target])
                return ("ext", target)
            # from target import sym
            if target in self.modules:
                r = self.resolve_name(self.modules[target], sym, _depth + 1)
                if r is not None:
                    return r
            sub = f"{target}.{sym}"
            if sub in self.modules:
                return ("module", self.modules[sub])
            return ("ext", sub)
        import builtins

        if hasattr(builtins, name):
            return ("builtin", name)
        return None

    def resolve_expr(self, mod: Mod, expr: ast.AST):
        """Resolve a dotted expression (Name / Attribute chain) to a repo entity or external dotted name."""
        if isinstance(expr, ast.Name):
            return self.resolve_name(mod, expr.id)
        if isinstance(expr, ast.Attribute):
            base = self.resolve_expr(mod, expr.value)
            if base is None:
                return None
            k = base[0]
            if k == "module":
                return self.resolve_name(base[1], expr.attr)
            if k == "ext":
                return ("ext", base[1] + "." + expr.attr)
            if k == "class":
                ci = base[1]
                m = self.lookup_method(ci, expr.attr)
                if m is not None:
                    return ("func", m)
                a = self.class_attr(ci, expr.attr)
                if a is not None:
                    return ("classattr", a[0], a[1], ci, expr.attr)
                return None
            if k == "builtin":
                return ("ext", base[1] + "." + expr.attr)
        return None

    def class_of_expr(self, mod: Mod, expr: ast.AST) -> Optional[ClassInfo]:
        r = self.resolve_expr(mod, expr)
        if r and r[0] == "class":
            return r[1]
        return None

    def bases(self, ci: ClassInfo) -> list:
        """Resolved bases: list of ClassInfo or ('ext', dotted)."""
        out = []
        for b in ci.bases:
            r = self.resolve_expr(ci.module, b)
            if r and r[0] == "class":
                out.append(r[1])
            elif r and r[0] in ("ext", "builtin"):
                out.append(("ext", r[1]))
            else:
                # parameter of an enclosing function (cbstr's ``class Cbstr(cls)``)
                out.append(("param", ast.unparse(b)))
        return out

    def mro(self, ci: ClassInfo) -> list:
        """C3 linearisation over repository classes (external bases are dropped but recorded)."""
        cache = self.__dict__.setdefault("_mro_cache", {})
        if ci.fq in cache and cache[ci.fq][0] is ci:
            return list(cache[ci.fq][1])
        res = self._mro(ci)
        cache[ci.fq] = (ci, res)
        return list(res)

    def _mro(self, ci: ClassInfo) -> list:
        def merge(seqs):
            res = []
            seqs = [list(s) for s in seqs if s]
            while seqs:
                for s in seqs:
                    cand = s[0]
                    if not any(cand in t[1:] for t in seqs):
                        break
                else:
                    raise AnalysisError(f"inconsistent MRO for {ci.fq}")
                res.append(cand)
                seqs = [[x for x in t if x != cand] for t in seqs]
                seqs = [t for t in seqs if t]
            return res

        def lin(c, seen=()):
            if c in seen:
                raise AnalysisError(f"cyclic inheritance at {c.fq}")
            bs = [b for b in self.bases(c) if isinstance(b, ClassInfo)]
            return [c] + merge([lin(b, seen + (c,)) for b in bs] + [bs])

        return lin(ci)

    def ext_bases(self, ci: ClassInfo) -> list:
        out = []
        for c in self.mro(ci):
            for b in self.bases(c):
                if not isinstance(b, ClassInfo):
                    out.append(b[1])
        return out

    def is_subclass(self, ci: ClassInfo, other: ClassInfo) -> bool:
        return other in self.mro(ci)

    def lookup_method(self, ci: ClassInfo, name: str) -> Optional[FuncInfo]:
        for c in self.mro(ci):
            if name in c.methods:
                return c.methods[name]
        return None

    def class_attr(self, ci: ClassInfo, name: str):
        """Return (expr, defining ClassInfo) of a class-body attribute through the MRO."""
        for c in self.mro(ci):
            if name in c.attrs:
                return (c.attrs[name], c)
        return None

    def subclasses(self, ci: ClassInfo) -> list:
        out = []
        for m in self.modules.values():
            for c in m.classes.values():
                if c is not ci and c.outer is None:
                    try:
                        if ci in self.mro(c):
                            out.append(c)
                    except AnalysisError:
                        pass
        return out

    def all_functions(self):
        for m in self.modules.values():
            for f in m.functions.values():
                yield f

    def all_classes(self):
        for m in self.modules.values():
            for c in m.classes.values():
                yield c


def norm(node: ast.AST) -> str:
    """Normalised text of a construct (stable under reformatting, comments, line moves)."""
    return ast.unparse(node)


def iter_child_stmts(node):
    """Yield all statements nested in ``node`` (not descending into nested defs)."""
    for child in ast.iter_child_nodes(node):
        if isinstance(child, (ast.FunctionDef, ast.AsyncFunctionDef, ast.ClassDef, ast.Lambda)):
            continue
        if isinstance(child, ast.stmt):
            yield child
        yield from iter_child_stmts(child)


def walk_no_nested(node):
    """ast.walk that does not descend into nested function/class definitions."""
    todo = list(ast.iter_child_nodes(node))
    while todo:
        n = todo.pop()
        yield n
        if isinstance(n, (ast.FunctionDef, ast.AsyncFunctionDef, ast.ClassDef, ast.Lambda)):
            continue
        todo.extend(ast.iter_child_nodes(n))
