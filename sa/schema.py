"""Schema graph: the typed grammar of the description language, extracted from
``_metadata = Metadata(...)`` literals, ``cbstr(...)`` wrappers and the module-level
patches, without running any repository code."""
from __future__ import annotations

import ast
from dataclasses import dataclass, field
from typing import Optional

from .absint import Evaluator, Frame, State
from .index import AnalysisError, ClassInfo, Mod, Repo, walk_no_nested
from .terms import App, Const, Ref

COMMON = "suit_generator.suit.types.common"
KEYS = "suit_generator.suit.types.keys"

GENERIC_KINDS = {
    "SuitKeyValue": "kv", "SuitKeyValueTuple": "pair", "SuitKeyValueUnnamed": "umap", "SuitTupleNamed": "array",
    "SuitList": "list", "SuitUnion": "union", "SuitTag": "tag", "SuitEnum": "enum", "SuitBitfield": "bits",
    "SuitNull": "null", "SuitInt": "int", "SuitUint": "uint", "SuitBool": "bool", "SuitTstr": "tstr",
    "SuitBstr": "bstr", "SuitHex": "bstr", "SuitEmptyBstr": "emptybstr", "SuitBchar": "bstr",
    "SuitObject": "object",
}
LEAF_KINDS = {"null", "int", "uint", "bool", "tstr", "bstr", "emptybstr", "object"}


@dataclass
class TypeRef:
    cls: Optional[ClassInfo]
    wrap: int = 0
    node: Optional[ast.AST] = None
    mod: Optional[Mod] = None
    unresolved: str = ""

    def __repr__(self):
        n = self.cls.name if self.cls else f"?{self.unresolved}"
        return "cbstr(" * self.wrap + n + ")" * self.wrap


@dataclass
class KeyRef:
    """A key of a key-value map: a suit_key class (id, name)."""
    cls: Optional[ClassInfo]
    id: object
    name: object
    node: Optional[ast.AST] = None

    def __repr__(self):
        return f"{self.name}={self.id}"


@dataclass
class MetaInfo:
    owner: ClassInfo
    node: ast.AST
    children: Optional[list] = None  # list of TypeRef or KeyRef (enum)
    map: Optional[list] = None  # list of (key, TypeRef): key is KeyRef | str | TypeRef
    tag: Optional[tuple] = None  # (value, name)
    embedded: Optional[list] = None  # list of KeyRef
    raw_children: Optional[list] = None
    patches: list = field(default_factory=list)


def _always_raises(stmts) -> bool:
    """Every path through the statement list ends in ``raise`` (no loops / try considered: conservative False)."""
    for st in stmts:
        if isinstance(st, ast.Raise):
            return True
        if isinstance(st, ast.If) and st.orelse and _always_raises(st.body) and _always_raises(st.orelse):
            return True
        if isinstance(st, (ast.For, ast.While, ast.Try, ast.With, ast.Match)):
            return False
    return False


class Schema:
    def __init__(self, repo: Repo, ev: Optional[Evaluator] = None):
        self.repo = repo
        self.ev = ev or Evaluator(repo)
        self.common = repo.mod(COMMON)
        self.keys_mod = repo.mod(KEYS)
        self.meta: dict = {}  # ClassInfo.fq -> MetaInfo (own literal only)
        self.problems: list = []  # (message, mod, node) — structural invariants that failed
        self.patch_stmts: list = []
        self.suit_key = repo.cls(KEYS, "suit_key")  # follows a move into another module that is imported back
        for n in GENERIC_KINDS:
            if n not in self.common.classes:
                raise AnalysisError(f"anchor generic class {COMMON}:{n} vanished")
        self._build()

    # ------------------------------------------------------------------ parsing
    def group_attr(self) -> str:
        """The class-level setting of the generic list node that says how many consecutive items form one entry - by role when it
        is no longer called _group: the one private integer class attribute of SuitList."""
        sl = self.common.classes.get("SuitList")
        if sl is None or "_group" in sl.attrs:
            return "_group"
        # the setting is what the list code slices its items by: <name> appears as the step of range(...) / in a slice bound
        used = set()
        for f in sl.methods.values():
            for n in ast.walk(f.node):
                if isinstance(n, ast.Call) and isinstance(n.func, ast.Name) and n.func.id == "range" and len(n.args) == 3:
                    used |= {x.attr for x in ast.walk(n.args[2]) if isinstance(x, ast.Attribute) and x.attr in sl.attrs}
        return next(iter(used)) if len(used) == 1 else "_group"

    def is_key_class(self, ci: ClassInfo) -> bool:
        """A vocabulary key: a class in keys.py carrying ``name`` (and usually ``id``)."""
        if ci is self.suit_key or "name" not in ci.attrs:
            return False
        if ci.module is self.keys_mod:
            return True
        # defined in another module and imported into keys.py under its name (the vocabulary split over several files)
        imp = self.keys_mod.imports.get(ci.name)
        return bool(imp) and imp[1] == ci.name and imp[0] == ci.module.name

    def key_ref(self, ci: ClassInfo, node=None) -> KeyRef:
        def val(attr):
            if attr in ci.attrs:
                try:
                    return self.ev.const(ci.attrs[attr], ci.module)
                except AnalysisError:
                    return App("nonconst", (Const(ast.unparse(ci.attrs[attr])),))
            return None
        return KeyRef(ci, val("id"), val("name"), node)

    def parse_type(self, expr: ast.AST, mod: Mod) -> TypeRef:
        if isinstance(expr, ast.Call) and isinstance(expr.func, ast.Name) and len(expr.args) == 1 and not expr.keywords:
            r = self.repo.resolve_name(mod, expr.func.id)
            if r and r[0] == "func" and r[1].module is self.common and r[1].name == "cbstr":
                inner = self.parse_type(expr.args[0], mod)
                return TypeRef(inner.cls, inner.wrap + 1, expr, mod, inner.unresolved)
        ci = self.repo.class_of_expr(mod, expr)
        if ci is None:
            return TypeRef(None, 0, expr, mod, ast.unparse(expr))
        return TypeRef(ci, 0, expr, mod)

    def _map_by_evaluation(self, expr, mod):
        from .terms import dict_pairs
        ev = Evaluator(self.repo, inline_depth=3, inline_filter=lambda f: f.name != "cbstr")
        try:
            t = ev.term(expr, mod)
        except AnalysisError:
            return None
        if isinstance(t, App) and t.op == "call:dict.fromkeys" and len(t.args) == 2:
            from .terms import list_items
            li = list_items(t.args[0])
            return [(k, t.args[1]) for k in li] if li is not None else None
        dp = dict_pairs(t)
        if dp is None or isinstance(t, Const):
            return None
        return dp

    def _type_of_term(self, t, node, mod) -> TypeRef:
        if isinstance(t, Ref) and t.kind == "class":
            return TypeRef(t.obj, 0, node, mod)
        if isinstance(t, App) and t.op == "call" and isinstance(t.args[0], Ref) and t.args[0].kind == "func" and t.args[0].obj.name == "cbstr" \
                and t.args[0].obj.module is self.common and len(t.args) == 2:
            inner = self._type_of_term(t.args[1], node, mod)
            return TypeRef(inner.cls, inner.wrap + 1, node, mod, inner.unresolved)
        return TypeRef(None, 0, node, mod, repr(t)[:60])

    def _key_of_term(self, t, node, mod):
        if isinstance(t, Const) and isinstance(t.v, str):
            return t.v
        if isinstance(t, Ref) and t.kind == "class" and self.is_key_class(t.obj):
            return self.key_ref(t.obj, node)
        return self._type_of_term(t, node, mod)

    def parse_key(self, expr: ast.AST, mod: Mod):
        """Key of a metadata map: suit_key class -> KeyRef, string constant -> str, type -> TypeRef."""
        if isinstance(expr, ast.Constant) and isinstance(expr.value, str):
            return expr.value
        if isinstance(expr, ast.Attribute) and expr.attr == "name":
            ci = self.repo.class_of_expr(mod, expr.value)
            if ci is not None and self.is_key_class(ci):
                kr = self.key_ref(ci, expr)
                return kr.name if isinstance(kr.name, str) else App("nonconst", ())
        ci = self.repo.class_of_expr(mod, expr)
        if ci is not None and self.is_key_class(ci):
            return self.key_ref(ci, expr)
        return self.parse_type(expr, mod)

    def parse_metadata(self, owner: ClassInfo, call: ast.AST) -> Optional[MetaInfo]:
        if not (isinstance(call, ast.Call) and self.repo.class_of_expr(owner.module, call.func) is not None
                and self.repo.class_of_expr(owner.module, call.func).name == "Metadata"):
            return None
        mi = MetaInfo(owner, call)
        mod = owner.module
        kw = {k.arg: k.value for k in call.keywords}
        pos = ["children", "tag", "map", "embedded"]
        for i, a in enumerate(call.args):
            kw[pos[i]] = a
        if "children" in kw and not (isinstance(kw["children"], ast.Constant) and kw["children"].value is None):
            if not isinstance(kw["children"], (ast.List, ast.Tuple)):
                raise AnalysisError(f"{owner.fq}: children of the metadata is written in a form the schema reader does not understand: {ast.unparse(kw['children'])[:80]}")
            else:
                mi.children = []
                for x in kw["children"].elts:
                    ci = self.repo.class_of_expr(mod, x)
                    if ci is not None and self.is_key_class(ci):
                        mi.children.append(self.key_ref(ci, x))
                    else:
                        mi.children.append(self.parse_type(x, mod))
        if "map" in kw and not (isinstance(kw["map"], ast.Constant) and kw["map"].value is None):
            mp = kw["map"]
            if isinstance(mp, ast.Call) and ast.unparse(mp.func) == "dict.fromkeys" and len(mp.args) == 2 and not mp.keywords \
                    and isinstance(mp.args[0], (ast.Tuple, ast.List)) and not any(isinstance(x, ast.Starred) for x in mp.args[0].elts):
                # dict.fromkeys((k1, k2, ...), T): every key maps to T, in the order written
                mp = ast.Dict(keys=list(mp.args[0].elts), values=[mp.args[1]] * len(mp.args[0].elts))
            if not isinstance(mp, ast.Dict) or any(k is None for k in mp.keys):
                # a table built by an expression (dict.fromkeys(NAMES, T), a helper function returning the dict, ...): evaluated
                # abstractly; the result must be a dict of key classes / names to types
                pairs = self._map_by_evaluation(mp, mod)
                if pairs is None:
                    raise AnalysisError(f"{owner.fq}: map of the metadata is written in a form the schema reader does not understand: {ast.unparse(mp)[:80]}")
                mi.map = []
                for kt, vt in pairs:
                    mi.map.append((self._key_of_term(kt, mp, mod), self._type_of_term(vt, mp, mod)))
            else:
                mi.map = []
                for k, v in zip(mp.keys, mp.values):
                    if k is None:
                        self.problems.append((f"{owner.fq}: ** spread in metadata map", mod, call))
                        continue
                    mi.map.append((self.parse_key(k, mod), self.parse_type(v, mod)))
        if "tag" in kw and isinstance(kw["tag"], ast.Name):
            # tag=ENVELOPE_TAG: a module-level name bound once to Tag(...)
            r_ = self.repo.resolve_name(mod, kw["tag"].id)
            if r_ is not None and r_[0] == "const" and isinstance(r_[1], ast.Call):
                kw["tag"] = r_[1]
                mod = r_[2]
            else:
                raise AnalysisError(f"{owner.fq}: tag of the metadata is written in a form the schema reader does not understand: {kw['tag'].id}")
        if "tag" in kw and isinstance(kw["tag"], ast.Call):
            try:
                targs = [self.ev.const(a, mod) for a in kw["tag"].args]
                tkw = {k.arg: self.ev.const(k.value, mod) for k in kw["tag"].keywords}
                value = targs[0] if targs else tkw.get("value")
                name = targs[1] if len(targs) > 1 else tkw.get("name")
                mi.tag = (value, name)
            except AnalysisError:
                self.problems.append((f"{owner.fq}: tag is not constant", mod, call))
        if "embedded" in kw and isinstance(kw["embedded"], ast.List):
            mi.embedded = []
            for x in kw["embedded"].elts:
                ci = self.repo.class_of_expr(mod, x)
                if ci is not None and self.is_key_class(ci):
                    mi.embedded.append(self.key_ref(ci, x))
                else:
                    self.problems.append((f"{owner.fq}: embedded entry {ast.unparse(x)} is not a key", mod, x))
        return mi

    def _build(self):
        seen_literals = {}
        for m in self.repo.modules.values():
            for ci in m.classes.values():
                if "_metadata" in ci.attrs:
                    expr = ci.attrs["_metadata"]
                    if isinstance(expr, ast.Constant) and expr.value is None:
                        continue
                    mi = self.parse_metadata(ci, expr)
                    if mi is None:
                        self.problems.append((f"{ci.fq}: _metadata is not a fresh Metadata(...) literal "
                                              f"(aliasing between classes?)", m, ci.attr_nodes["_metadata"]))
                        continue
                    self.meta[ci.fq] = mi
        # module-level patches:  X._metadata.map[K] = T   /  X._metadata.children[...] = ...
        for m in self.repo.modules.values():
            for stmt in ast.walk(m.tree):
                if not isinstance(stmt, (ast.Assign, ast.AugAssign, ast.Delete)):
                    continue
                targets = stmt.targets if isinstance(stmt, (ast.Assign, ast.Delete)) else [stmt.target]
                for t in targets:
                    if self._mentions_metadata_store(t):
                        self.patch_stmts.append((m, stmt, stmt in m.tree.body))
        for m, stmt, toplevel in self.patch_stmts:
            if not toplevel:
                continue  # reported by C18 (shared state written after import)
            t = stmt.targets[0] if isinstance(stmt, ast.Assign) else None
            ok = False
            if (isinstance(stmt, ast.Assign) and isinstance(t, ast.Subscript) and isinstance(t.value, ast.Attribute)
                    and t.value.attr == "map" and isinstance(t.value.value, ast.Attribute)
                    and t.value.value.attr == "_metadata"):
                owner = self.repo.class_of_expr(m, t.value.value.value)
                if owner is not None and owner.fq in self.meta and self.meta[owner.fq].map is not None:
                    key = self.parse_key(t.slice, m)
                    newt = self.parse_type(stmt.value, m)
                    mi = self.meta[owner.fq]
                    for i, (k, _) in enumerate(mi.map):
                        if self._same_key(k, key):
                            mi.map[i] = (k, newt)
                            break
                    else:
                        mi.map.append((key, newt))
                    mi.patches.append(stmt)
                    ok = True
            if not ok:
                self.problems.append((f"unrecognised metadata patch: {ast.unparse(stmt)[:100]}", m, stmt))

    @staticmethod
    def _mentions_metadata_store(t) -> bool:
        for x in ast.walk(t):
            if isinstance(x, ast.Attribute) and x.attr == "_metadata":
                return True
        return False

    @staticmethod
    def _same_key(a, b) -> bool:
        if isinstance(a, KeyRef) and isinstance(b, KeyRef):
            return a.cls == b.cls
        if isinstance(a, str) and isinstance(b, str):
            return a == b
        if isinstance(a, TypeRef) and isinstance(b, TypeRef):
            return a.cls == b.cls and a.wrap == b.wrap
        return False

    # ------------------------------------------------------------------ queries
    def kind(self, ci: ClassInfo) -> str:
        for c in self.repo.mro(ci):
            if c.module is self.common and c.name in GENERIC_KINDS:
                return GENERIC_KINDS[c.name]
        return "foreign"

    def generic_base(self, ci: ClassInfo) -> Optional[ClassInfo]:
        for c in self.repo.mro(ci):
            if c.module is self.common and c.name in GENERIC_KINDS:
                return c
        return None

    def metadata_of(self, ci: ClassInfo) -> Optional[MetaInfo]:
        for c in self.repo.mro(ci):
            if c.fq in self.meta:
                return self.meta[c.fq]
            if "_metadata" in c.attrs:
                return None
        return None

    def class_const(self, ci: ClassInfo, attr: str):
        a = self.repo.class_attr(ci, attr)
        if a is None:
            return None
        try:
            return self.ev.const(a[0], a[1].module)
        except AnalysisError:
            return App("nonconst", ())

    def _const_of(self, expr, mod):
        """Value of a literal or of a name / expression that folds to a constant (a named constant of the module), else None."""
        if isinstance(expr, ast.Constant):
            return expr.value
        try:
            return self.ev.const(expr, mod)
        except AnalysisError:
            return None

    def from_cbor_always_raises(self, ci: ClassInfo) -> bool:
        """Description-only alternative: its from_cbor unconditionally raises (any signature)."""
        m = self.repo.lookup_method(ci, "from_cbor")
        if m is None:
            return False
        return _always_raises(m.node.body) and not any(isinstance(n, (ast.Return, ast.Yield, ast.YieldFrom)) for n in walk_no_nested(m.node))

    def desc_predicates(self, ci: ClassInfo, mnames=("__init__", "from_obj")) -> list:
        """What the description side of a leaf class requires of a value (checks in __init__ / from_obj that lead to a raise): a
        narrower or wider acceptance sends some description values to another union alternative, i.e. to another encoding."""
        out = set()
        for c in self.repo.mro(ci):
            if c.module is self.common and c.name == "SuitObject":
                break
            for mname in mnames:
                m = c.methods.get(mname)
                if m is None:
                    continue
                params = [a.arg for a in m.node.args.args if a.arg not in ("self", "cls")]
                if not params:
                    continue
                p = params[0]
                for n in ast.walk(m.node):
                    if not isinstance(n, ast.If):
                        continue
                    if not any(isinstance(x, ast.Raise) for b in n.body + n.orelse for x in ast.walk(b)):
                        continue
                    # atoms of the test with the polarity under which they occur (a comparison under an odd number of `not` is its
                    # complement): `not (a and len(x) == 1)` and `not a or len(x) != 1` give the same set
                    flip = {ast.Eq: "NotEq", ast.NotEq: "Eq", ast.Lt: "GtE", ast.GtE: "Lt", ast.Gt: "LtE", ast.LtE: "Gt"}

                    def atoms(t, neg):
                        if isinstance(t, ast.UnaryOp) and isinstance(t.op, ast.Not):
                            atoms(t.operand, not neg)
                            return
                        if isinstance(t, ast.BoolOp):
                            for v_ in t.values:
                                atoms(v_, neg)
                            return
                        if isinstance(t, ast.Call) and isinstance(t.func, ast.Name) and t.func.id == "isinstance" and t.args \
                                and isinstance(t.args[0], ast.Name) and t.args[0].id == p:
                            out.add("type:" + "|".join(sorted(x.id for x in ast.walk(t.args[1]) if isinstance(x, ast.Name))))
                            return
                        if isinstance(t, ast.Call) and isinstance(t.func, ast.Attribute) and t.func.attr.startswith("is") and isinstance(t.func.value, ast.Name) \
                                and t.func.value.id == p:
                            out.add("chars:" + t.func.attr)
                            return
                        if isinstance(t, ast.Compare) and len(t.ops) == 1:
                            opn = flip.get(type(t.ops[0]), type(t.ops[0]).__name__) if neg else type(t.ops[0]).__name__
                            cv = self._const_of(t.comparators[0], c.module)
                            if isinstance(t.left, ast.Call) and isinstance(t.left.func, ast.Name) and t.left.func.id == "len" and cv is not None:
                                out.add(f"len{opn}{cv}")
                            elif isinstance(t.left, ast.Name) and t.left.id == p and cv is not None and isinstance(t.ops[0], (ast.Lt, ast.Gt, ast.LtE, ast.GtE)):
                                out.add(f"range{opn}{cv}")
                            return
                        for ch in ast.iter_child_nodes(t):
                            if isinstance(ch, ast.expr):
                                atoms(ch, neg)
                    atoms(n.test, False)
        return sorted(out)

    def leaf_constraints(self, ci: ClassInfo) -> dict:
        """Size constraints a leaf class applies in its own from_cbor (``len(x) != N``)."""
        out = {}
        dp = self.desc_predicates(ci)
        if dp:
            out["desc"] = dp
        for c in self.repo.mro(ci):
            if c.module is self.common and c.name == "SuitObject":
                break
            m = c.methods.get("from_cbor")
            if m is None:
                continue
            for n in ast.walk(m.node):
                if isinstance(n, ast.Compare) and len(n.ops) == 1 and isinstance(n.ops[0], (ast.NotEq, ast.Eq)):
                    l, r = n.left, n.comparators[0]
                    rv = self._const_of(r, c.module)
                    if isinstance(l, ast.Call) and isinstance(l.func, ast.Name) and l.func.id == "len" \
                            and isinstance(rv, int) and not isinstance(rv, bool):
                        out["size"] = rv
                if isinstance(n, ast.Compare) and len(n.ops) == 1 and isinstance(n.ops[0], ast.Gt):
                    l, r = n.left, n.comparators[0]
                    if isinstance(l, ast.Call) and isinstance(l.func, ast.Name) and l.func.id == "len" \
                            and self._const_of(r, c.module) == 0 and self._const_of(r, c.module) is not False:
                        out["size"] = 0
        return out

    def root(self) -> ClassInfo:
        return self.repo.cls("suit_generator.suit.envelope", "SuitEnvelopeTagged")

    def reachable(self, root: Optional[ClassInfo] = None) -> list:
        """All schema classes reachable from the root through metadata."""
        seen, order = set(), []
        todo = [root or self.root()]
        while todo:
            ci = todo.pop()
            if ci is None or ci.fq in seen:
                continue
            seen.add(ci.fq)
            order.append(ci)
            mi = self.metadata_of(ci)
            if mi is not None:
                for c in mi.children or []:
                    if isinstance(c, TypeRef):
                        todo.append(c.cls)
                for k, v in mi.map or []:
                    if isinstance(k, TypeRef):
                        todo.append(k.cls)
                    todo.append(v.cls)
            if self.kind(ci) == "bits":
                a = self.repo.class_attr(ci, "_bit_class")
                if a is not None:
                    todo.append(self.repo.class_of_expr(a[1].module, a[0]))
        return order

    # ------------------------------------------------------------------ canonical shape graph
    def shape_graph(self, root: Optional[ClassInfo] = None) -> dict:
        """Canonical, class-name-free description of the wire shape (see DESIGN 3.4 / Appendix B)."""
        ids, nodes = {}, {}

        def tid(tr: TypeRef) -> str:
            key = (tr.cls.fq if tr.cls else "?" + tr.unresolved, tr.wrap)
            if key in ids:
                return ids[key]
            nid = f"n{len(ids)}"
            ids[key] = nid
            nodes[nid] = None
            nodes[nid] = build(tr)
            return nid

        def build(tr: TypeRef) -> dict:
            if tr.cls is None:
                return {"t": "unresolved", "hint": tr.unresolved}
            if tr.wrap > 0:
                return {"t": "bstr.cbor", "of": tid(TypeRef(tr.cls, tr.wrap - 1, tr.node, tr.mod))}
            ci = tr.cls
            kind = self.kind(ci)
            hint = ci.name
            if self.from_cbor_always_raises(ci):
                return {"t": "desc-only", "hint": hint}
            if kind in LEAF_KINDS:
                d = {"t": "bstr" if kind == "emptybstr" else kind, "hint": hint}
                if kind == "emptybstr":
                    d["size"] = 0
                d.update(self.leaf_constraints(ci))
                return d
            if kind == "foreign":
                return {"t": "foreign", "hint": hint}
            mi = self.metadata_of(ci)
            if kind == "bits":
                a = self.repo.class_attr(ci, "_bit_class")
                bc = self.parse_type(a[0], a[1].module) if a else TypeRef(None)
                return {"t": "bits", "len": self.class_const(ci, "_bit_length"), "of": tid(bc), "hint": hint}
            if mi is None:
                return {"t": kind, "hint": hint, "nometa": True}
            if kind in ("kv", "pair"):
                keys = {}
                for k, v in mi.map or []:
                    if isinstance(k, KeyRef):
                        keys[str(k.id)] = {"name": k.name, "v": tid(v)}
                    else:
                        keys[f"?{k!r}"] = {"name": None, "v": tid(v)}
                d = {"t": kind, "keys": keys, "hint": hint}
                if mi.embedded:
                    d["embedded"] = [str(k.id) for k in mi.embedded]
                return d
            if kind == "umap":
                return {"t": "umap", "hint": hint,
                        "entries": [{"k": tid(k) if isinstance(k, TypeRef) else repr(k), "v": tid(v)}
                                    for k, v in mi.map or []]}
            if kind == "array":
                items = []
                for k, v in mi.map or []:
                    ks = k if isinstance(k, str) else repr(k)
                    items.append({"name": ks.rstrip("*"), "star": ks.endswith("*"), "v": tid(v)})
                return {"t": "array", "items": items, "hint": hint}
            if kind == "list":
                ch = [c for c in (mi.children or []) if isinstance(c, TypeRef)]
                return {"t": "list", "of": tid(ch[0]) if ch else None, "group": self.class_const(ci, self.group_attr()),
                        "hint": hint}
            if kind == "union":
                return {"t": "union", "alts": [tid(c) for c in mi.children or [] if isinstance(c, TypeRef)],
                        "hint": hint}
            if kind == "tag":
                ch = [c for c in (mi.children or []) if isinstance(c, TypeRef)]
                return {"t": "tag", "tag": mi.tag[0] if mi.tag else None, "name": mi.tag[1] if mi.tag else None,
                        "of": tid(ch[0]) if ch else None, "hint": hint}
            if kind == "enum":
                return {"t": "enum", "hint": hint,
                        "members": {str(k.id): k.name for k in mi.children or [] if isinstance(k, KeyRef)}}
            return {"t": kind, "hint": hint}

        r = tid(TypeRef(root or self.root()))
        return {"root": r, "nodes": nodes}

    # ------------------------------------------------------------------ vocabulary
    def key_spaces(self, root: Optional[ClassInfo] = None) -> list:
        """Key spaces derived from the schema graph: [(space id, owner classes, [(KeyRef, owner)])]."""
        spaces = []
        for ci in self.reachable(root):
            mi = self.metadata_of(ci)
            if mi is None or mi.owner != ci and self.kind(ci) not in ("kv", "pair", "enum"):
                continue
            kind = self.kind(ci)
            if kind in ("kv", "pair"):
                keys = [(k, v) for k, v in (mi.map or []) if isinstance(k, KeyRef)]
                if keys:
                    spaces.append((ci, kind, keys))
            elif kind == "enum":
                keys = [(k, None) for k in (mi.children or []) if isinstance(k, KeyRef)]
                if keys:
                    spaces.append((ci, kind, keys))
        return spaces
