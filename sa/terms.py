"""Term domain of the abstract evaluator."""
from __future__ import annotations

from dataclasses import dataclass, field
from itertools import product
from typing import Any


class Term:
    __slots__ = ()


class Const(Term):
    """A Python constant (containers allowed when every leaf is constant)."""

    __slots__ = ("v",)

    def __init__(self, v):
        self.v = v

    def __eq__(self, other):
        return isinstance(other, Const) and type(self.v) is type(other.v) and self.v == other.v

    def __hash__(self):
        return hash(("Const", type(self.v).__name__, repr(self.v)))

    def __repr__(self):
        return f"{self.v!r}"


class Sym(Term):
    """An uninterpreted input (parameter, unknown)."""

    __slots__ = ("name",)

    def __init__(self, name: str):
        self.name = name

    def __eq__(self, other):
        return isinstance(other, Sym) and self.name == other.name

    def __hash__(self):
        return hash(("Sym", self.name))

    def __repr__(self):
        return f"${self.name}"


class Ref(Term):
    """Reference to a repository entity or an external dotted name."""

    __slots__ = ("kind", "obj")

    def __init__(self, kind: str, obj: Any):
        self.kind = kind  # class | func | module | ext | builtin
        self.obj = obj

    @property
    def key(self):
        o = self.obj
        return (self.kind, getattr(o, "fq", None) or getattr(o, "name", None) or o)

    def __eq__(self, other):
        return isinstance(other, Ref) and self.key == other.key

    def __hash__(self):
        return hash(self.key)

    def __repr__(self):
        k = self.key
        return f"<{k[0]} {k[1]}>"

    @property
    def dotted(self):
        return self.key[1]


class App(Term):
    """Application of an operator to terms. ``node`` is the originating AST node (not compared)."""

    __slots__ = ("op", "args", "node")

    def __init__(self, op: str, args=(), node=None):
        self.op = op
        self.args = tuple(args)
        self.node = node

    def __eq__(self, other):
        return isinstance(other, App) and self.op == other.op and self.args == other.args

    def __hash__(self):
        return hash(("App", self.op, self.args))

    def __repr__(self):
        return f"{self.op}({', '.join(map(repr, self.args))})"


def is_const(t) -> bool:
    return isinstance(t, Const)


def mk_list(items, node=None):
    items = list(items)
    if all(isinstance(i, Const) for i in items):
        return Const([i.v for i in items])
    return App("list", items, node)


def mk_tuple(items, node=None):
    items = list(items)
    if all(isinstance(i, Const) for i in items):
        return Const(tuple(i.v for i in items))
    return App("tuple", items, node)


def mk_dict(pairs, node=None):
    pairs = list(pairs)
    if all(isinstance(k, Const) and isinstance(v, Const) for k, v in pairs):
        try:
            return Const({k.v: v.v for k, v in pairs})
        except TypeError:
            pass
    return App("dict", [App("kv", (k, v)) for k, v in pairs], node)


def list_items(t):
    """Elements of a list/tuple-valued term as terms, or None when not statically known."""
    if isinstance(t, Const) and isinstance(t.v, (list, tuple)):
        return [Const(x) for x in t.v]
    if isinstance(t, App) and t.op in ("list", "tuple"):
        return list(t.args)
    return None


def dict_pairs(t):
    if isinstance(t, Const) and isinstance(t.v, dict):
        return [(Const(k), Const(v)) for k, v in t.v.items()]
    if isinstance(t, App) and t.op == "dict":
        return [(kv.args[0], kv.args[1]) for kv in t.args]
    return None


def phi(g, a, b, node=None):
    if isinstance(g, Const):
        return a if g.v else b
    if a == b:
        return a
    return App("phi", (g, a, b), node)


def cat_parts(t):
    """Flatten a bytes/str concatenation term into its parts."""
    if isinstance(t, App) and t.op == "cat":
        out = []
        for a in t.args:
            out.extend(cat_parts(a))
        return out
    return [t]


def mk_cat(parts, node=None):
    flat = []
    for p in parts:
        for q in cat_parts(p):
            if flat and isinstance(q, Const) and isinstance(flat[-1], Const) and type(q.v) is type(flat[-1].v) \
                    and isinstance(q.v, (bytes, str, list, tuple)):
                flat[-1] = Const(flat[-1].v + q.v)
            else:
                flat.append(q)
    if len(flat) == 1:
        return flat[0]
    return App("cat", flat, node)


def subterms(t):
    yield t
    if isinstance(t, App):
        for a in t.args:
            yield from subterms(a)


def contains(t, pred) -> bool:
    return any(pred(s) for s in subterms(t))


def mentions(t, other) -> bool:
    return any(s == other for s in subterms(t))


def syms(t) -> set:
    return {s.name for s in subterms(t) if isinstance(s, Sym)}


def substitute(t, mapping: dict):
    if t in mapping:
        return mapping[t]
    if isinstance(t, App):
        return App(t.op, [substitute(a, mapping) for a in t.args], t.node)
    return t


def top_cases(t):
    """Like cases() but only for the conditional at the root of the term: [(guards dict, alternative)]; a conditional inside an
    alternative (an argument) stays as it is."""
    if isinstance(t, App) and t.op == "phi":
        g, a, b = t.args
        out = []
        for ga, va in top_cases(a):
            if ga.get(g, True) is True:
                out.append(({**ga, g: True}, va))
        for gb, vb in top_cases(b):
            if gb.get(g, False) is False:
                out.append(({**gb, g: False}, vb))
        return out
    return [({}, t)]


def cases(t, limit=256):
    """Expand phi nodes into a decision table: list of (guards dict, phi-free term)."""
    def go(x):
        if isinstance(x, App) and x.op == "phi":
            g, a, b = x.args
            out = []
            for ga, va in go(a):
                if ga.get(g, True) is True:
                    out.append(({**ga, g: True}, va))
            for gb, vb in go(b):
                if gb.get(g, False) is False:
                    out.append(({**gb, g: False}, vb))
            return out
        if isinstance(x, App):
            per_arg = [go(a) for a in x.args]
            n = 1
            for p in per_arg:
                n *= len(p)
            if n > limit:
                raise OverflowError("decision table too large")
            out = []
            for combo in product(*per_arg):
                guards = {}
                ok = True
                for g, _ in combo:
                    for k, v in g.items():
                        if guards.get(k, v) != v:
                            ok = False
                            break
                        guards[k] = v
                    if not ok:
                        break
                if ok:
                    newargs = [v for _, v in combo]
                    nt = App(x.op, newargs, x.node)
                    if x.op == "cat":
                        nt = mk_cat(newargs, x.node)
                    out.append((guards, nt))
            return out
        return [({}, x)]

    return go(t)


def to_py(t):
    """Python value of a fully constant term (raises ValueError otherwise)."""
    if isinstance(t, Const):
        return t.v
    if isinstance(t, App) and t.op in ("list", "tuple"):
        vals = [to_py(a) for a in t.args]
        return vals if t.op == "list" else tuple(vals)
    if isinstance(t, App) and t.op == "dict":
        return {to_py(kv.args[0]): to_py(kv.args[1]) for kv in t.args}
    raise ValueError(f"not constant: {t!r}")


def show(t, maxlen=300) -> str:
    s = repr(t)
    return s if len(s) <= maxlen else s[: maxlen - 3] + "..."
