"""Minimal RFC 8949 encoder (definite length, shortest form, insertion order).

Part of the verifier's trusted base; used instead of cbor2 so that no library of
the analysed environment is executed when constants are folded.
"""
from __future__ import annotations

import struct


class Tag:
    def __init__(self, tag: int, value):
        self.tag = tag
        self.value = value

    def __eq__(self, other):
        return isinstance(other, Tag) and (self.tag, self.value) == (other.tag, other.value)

    def __hash__(self):
        return hash(("Tag", self.tag, repr(self.value)))

    def __repr__(self):
        return f"Tag({self.tag}, {self.value!r})"


def _head(major: int, n: int) -> bytes:
    if n < 24:
        return bytes([(major << 5) | n])
    if n < 1 << 8:
        return bytes([(major << 5) | 24, n])
    if n < 1 << 16:
        return bytes([(major << 5) | 25]) + struct.pack(">H", n)
    if n < 1 << 32:
        return bytes([(major << 5) | 26]) + struct.pack(">I", n)
    if n < 1 << 64:
        return bytes([(major << 5) | 27]) + struct.pack(">Q", n)
    raise ValueError("integer too large for the mini encoder")


def dumps(obj) -> bytes:
    if obj is None:
        return b"\xf6"
    if obj is True:
        return b"\xf5"
    if obj is False:
        return b"\xf4"
    if isinstance(obj, int):
        return _head(0, obj) if obj >= 0 else _head(1, -1 - obj)
    if isinstance(obj, (bytes, bytearray)):
        return _head(2, len(obj)) + bytes(obj)
    if isinstance(obj, str):
        b = obj.encode("utf-8")
        return _head(3, len(b)) + b
    if isinstance(obj, (list, tuple)):
        return _head(4, len(obj)) + b"".join(dumps(x) for x in obj)
    if isinstance(obj, dict):
        return _head(5, len(obj)) + b"".join(dumps(k) + dumps(v) for k, v in obj.items())
    if isinstance(obj, Tag):
        return _head(6, obj.tag) + dumps(obj.value)
    raise TypeError(f"mini encoder: unsupported {type(obj)}")


def head_info(b: int):
    """(major type, additional info) of an initial byte."""
    return b >> 5, b & 31


def length_bytes_for_ai(ai: int):
    """Number of length bytes that follow an initial byte with this additional info."""
    return {24: 1, 25: 2, 26: 4, 27: 8}.get(ai, 0 if ai < 24 else None)
