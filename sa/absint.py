"""Structured abstract evaluator over the term domain.

Syntax-directed evaluation of the statement kinds the repository uses.  Branch
guards stay uninterpreted terms; branches that both fall through are merged
with phi terms, branches that exit (return / raise) become separate outcomes.
No path condition is ever solved.  Anything the evaluator does not model
becomes an opaque term (never a guess); statement kinds it does not know raise
AnalysisError.
"""
from __future__ import annotations

import ast
import operator
from dataclasses import dataclass, field
from typing import Optional

from . import cbor_mini
from .index import AnalysisError, ClassInfo, FuncInfo, Mod, Repo
from .terms import (substitute, App, Const, Ref, Sym, Term, dict_pairs, is_const, list_items, mk_cat, mk_dict, mk_list,
                    mk_tuple, phi)

BINOPS = {
    ast.Add: ("+", operator.add), ast.Sub: ("-", operator.sub), ast.Mult: ("*", operator.mul),
    ast.Div: ("/", operator.truediv), ast.FloorDiv: ("//", operator.floordiv), ast.Mod: ("%", operator.mod),
    ast.Pow: ("**", operator.pow), ast.LShift: ("<<", operator.lshift), ast.RShift: (">>", operator.rshift),
    ast.BitOr: ("|", operator.or_), ast.BitAnd: ("&", operator.and_), ast.BitXor: ("^", operator.xor),
}
CMPOPS = {
    ast.Eq: ("==", operator.eq), ast.NotEq: ("!=", operator.ne), ast.Lt: ("<", operator.lt),
    ast.LtE: ("<=", operator.le), ast.Gt: (">", operator.gt), ast.GtE: (">=", operator.ge),
    ast.Is: ("is", operator.is_), ast.IsNot: ("is not", operator.is_not),
    ast.In: ("in", lambda a, b: a in b), ast.NotIn: ("not in", lambda a, b: a not in b),
}
# methods of builtin constants that may be folded (pure)
PURE_CONST_METHODS = {
    "to_bytes", "hex", "ljust", "rjust", "encode", "decode", "lower", "upper", "keys", "values", "items", "get",
    "startswith", "endswith", "replace", "split", "join", "format", "strip", "lstrip", "rstrip", "find",
    "bit_length", "count", "index", "isnumeric", "isdecimal", "isalpha", "isdigit", "copy", "title", "zfill",
    "fromhex", "center",
}
# method names considered pure on arbitrary receivers (no effect record)
PURE_METHODS = PURE_CONST_METHODS | {
    "public_key", "public_numbers", "digest", "hexdigest", "group", "groups", "fullmatch", "match", "search",
    "with_suffix", "is_file", "is_dir", "exists", "absolute", "resolve",
    "read", "readlines", "pack", "finalize", "union", "private_bytes", "public_bytes",
}
KW_ORDER = {  # keyword → positional normalisation for a few well-known callables
    "to_bytes": ("length", "byteorder"),
    "ljust": ("width", "fillchar"),
    "uuid5": ("namespace", "name"),
    "tobinstr": ("start", "end", "pad", "size"),
    "open": ("file", "mode"),
    "frombytes": ("bytes", "offset"),   # intelhex.IntelHex.frombytes(bytes, offset=0)
    "bin2hex": ("fin", "fout", "offset"),   # intelhex.bin2hex(fin, fout, offset=0)
    "write_hex_file": ("f",),
    "from_bytes": ("bytes", "byteorder"),
    "getsize": ("filename",),
}


@dataclass
class Exit:
    kind: str  # return | raise | break | continue
    value: Optional[Term]
    conds: list
    effects: list
    node: ast.AST
    heap: dict = field(default_factory=dict)
    env: dict = field(default_factory=dict)


class State:
    def __init__(self, env=None, heap=None, effects=None, conds=None):
        self.env = dict(env or {})
        self.heap = dict(heap or {})
        self.effects = list(effects or [])
        self.conds = list(conds or [])

    def copy(self):
        return State(self.env, self.heap, self.effects, self.conds)


class Frame:
    def __init__(self, func: Optional[FuncInfo], mod: Mod, self_cls: Optional[ClassInfo], depth: int, exact=False):
        self.func = func
        self.mod = mod
        self.self_cls = self_cls
        self.depth = depth
        self.exact = exact  # self_cls is the exact dynamic class (class attributes may be folded)
        self.helper_depth = 0  # nesting of followed helper functions (see Evaluator.is_new_helper)
        self.class_scope = None  # ClassInfo whose body the expression belongs to (class-level names are visible)
        self.pending = []  # raise exits of callees inlined while evaluating the current statement's expressions


def is_alias(t) -> bool:
    """The term is a path into a parameter or into object state (param, .attr, [key], loop element of such)."""
    while isinstance(t, App) and (t.op.startswith("attr:") or t.op in ("idx", "elem")) and t.args:
        t = t.args[0]
    return isinstance(t, Sym) and t.name.startswith("param:")


_KNOWN = []


def _is_namedtuple(ci) -> bool:
    return any((isinstance(b, ast.Name) and b.id == "NamedTuple") or (isinstance(b, ast.Attribute) and b.attr == "NamedTuple") for b in ci.bases)


def record_fields(t):
    """{field: argument term} of a dataclass / NamedTuple instance constructed in this evaluation (every field given), else None."""
    if not (isinstance(t, App) and t.op == "new" and isinstance(t.args[0], Ref) and t.args[0].kind == "class"):
        return None
    ci = t.args[0].obj
    if "dataclass" not in ci.decorators and not _is_namedtuple(ci):
        return None
    fields = [n.target.id for n in ci.node.body if isinstance(n, ast.AnnAssign) and isinstance(n.target, ast.Name)]
    pos = [a for a in t.args[2:] if not (isinstance(a, App) and a.op == "kw")]
    kws = {a.args[0].v: a.args[1] for a in t.args[2:] if isinstance(a, App) and a.op == "kw"}
    out = {}
    for i, f in enumerate(fields):
        if i < len(pos):
            out[f] = pos[i]
        elif f in kws:
            out[f] = kws[f]
        else:
            return None
    return out


def _known_functions():
    """Qualified names of the functions that existed when the rules were confirmed (reference/known_functions.json, regenerated
    by tools/make_known_functions.py); None when the file is absent.  Used only to choose between following a call and keeping it
    opaque, never as a verdict."""
    if not _KNOWN:
        import json
        from pathlib import Path
        f = Path(__file__).resolve().parent.parent / "reference" / "known_functions.json"
        _KNOWN.append(frozenset(json.loads(f.read_text())) if f.is_file() else None)  # a list of names or {name: fingerprint}
    return _KNOWN[0]


class Evaluator:
    def __init__(self, repo: Repo, inline_depth=4, budget=40000, inline_filter=None, plugin_methods=None):
        self.repo = repo
        self.plugin_methods = plugin_methods or {}  # method name -> FuncInfo (plugin interface implementations)
        self.inline_depth = inline_depth
        self.budget = budget
        self.inline_filter = inline_filter  # callable(FuncInfo) -> bool
        self.calls_seen = 0
        self.known = _known_functions()
        self._enum_cache = {}
        self._override_cache = {}

    # ------------------------------------------------------------------ helpers
    def _tick(self):
        self.budget -= 1
        if self.budget < 0:
            raise AnalysisError("abstract evaluator budget exhausted")

    def is_enum(self, ci: ClassInfo) -> bool:
        if ci.fq not in self._enum_cache:
            try:
                eb = self.repo.ext_bases(ci)
            except AnalysisError:
                eb = []
            self._enum_cache[ci.fq] = any(b.split(".")[-1] in ("Enum", "IntEnum", "Flag", "IntFlag") for b in eb)
        return self._enum_cache[ci.fq]

    def enum_members(self, ci: ClassInfo) -> list:
        """[(name, value term)] in definition order."""
        out = []
        for name, expr in ci.attrs.items():
            if name.startswith("_"):
                continue
            out.append((name, self.eval_expr(expr, State(), Frame(None, ci.module, None, 0))))
        return out

    def enum_member(self, ci: ClassInfo, name: str):
        return App("enum", (Ref("class", ci), Const(name)))

    def enum_value(self, member: App):
        ci = member.args[0].obj
        name = member.args[1].v
        a = self.repo.class_attr(ci, name)
        if a is None:
            raise AnalysisError(f"enum {ci.fq} has no member {name}")
        return self._class_body_expr(a[0], a[1])

    # ------------------------------------------------------------------ expressions
    def eval_expr(self, e: ast.AST, st: State, fr: Frame) -> Term:
        self._tick()
        m = getattr(self, "e_" + type(e).__name__, None)
        if m is None:
            return App("opaque", (Const(ast.unparse(e)),), e)
        return m(e, st, fr)

    def e_Constant(self, e, st, fr):
        return Const(e.value)

    def e_Name(self, e, st, fr):
        if e.id in st.env:
            return st.env[e.id]
        if fr.class_scope is not None and e.id in fr.class_scope.attrs:
            return self._class_body_expr(fr.class_scope.attrs[e.id], fr.class_scope)
        r = self.repo.resolve_name(fr.mod, e.id)
        return self._ref_to_term(r, e, fr) if r is not None else Sym("free:" + e.id)

    def _class_body_expr(self, expr, ci):
        """An expression of a class body: the names assigned in that body are in scope."""
        f = Frame(None, ci.module, None, 0)
        f.class_scope = ci
        return self.eval_expr(expr, State(), f)

    def _ref_to_term(self, r, e, fr):
        k = r[0]
        if k == "class":
            return Ref("class", r[1])
        if k == "func":
            return Ref("func", r[1])
        if k == "module":
            return Ref("module", r[1])
        if k == "ext":
            return Ref("ext", r[1])
        if k == "builtin":
            return Ref("builtin", r[1])
        if k == "const":
            return self.eval_expr(r[1], State(), Frame(None, r[2], None, 0))
        if k == "classattr":
            return self._class_body_expr(r[1], r[2])
        return Sym("unresolved:" + ast.unparse(e))

    def e_List(self, e, st, fr):
        items = []
        for x in e.elts:
            if isinstance(x, ast.Starred):
                v = self.eval_expr(x.value, st, fr)
                li = list_items(v)
                if li is None:
                    items.append(App("star", (v,), x))
                else:
                    items.extend(li)
            else:
                items.append(self.eval_expr(x, st, fr))
        return mk_list(items, e)

    def e_Tuple(self, e, st, fr):
        t = self.e_List(e, st, fr)
        if isinstance(t, Const):
            return Const(tuple(t.v))
        return App("tuple", t.args, e)

    def e_Set(self, e, st, fr):
        return App("set", [self.eval_expr(x, st, fr) for x in e.elts], e)

    def e_Dict(self, e, st, fr):
        pairs = []
        for k, v in zip(e.keys, e.values):
            if k is None:  # **spread
                sv = self.eval_expr(v, st, fr)
                dp = dict_pairs(sv)
                if dp is None:
                    pairs.append((App("spread", (sv,)), sv))
                else:
                    pairs.extend(dp)
            else:
                pairs.append((self.eval_expr(k, st, fr), self.eval_expr(v, st, fr)))
        return mk_dict(pairs, e)

    def e_JoinedStr(self, e, st, fr):
        parts = []
        for v in e.values:
            if isinstance(v, ast.Constant):
                parts.append(Const(v.value))
            else:
                t = self.eval_expr(v.value, st, fr)
                if isinstance(t, Const) and v.format_spec is None and v.conversion == -1:
                    parts.append(Const(format(t.v)))
                elif v.format_spec is None and v.conversion == -1:
                    parts.append(App("str", (t,), v))
                else:
                    fs = v.format_spec
                    if isinstance(fs, ast.JoinedStr) and all(isinstance(x, ast.Constant) for x in fs.values):
                        spec = "".join(str(x.value) for x in fs.values)  # a literal format specification such as 02x
                    else:
                        spec = ast.unparse(fs) if fs is not None else ""
                    parts.append(App("fmt", (t, Const(spec), Const(v.conversion)), v))
        return mk_cat(parts, e) if parts else Const("")

    def e_FormattedValue(self, e, st, fr):
        return App("str", (self.eval_expr(e.value, st, fr),), e)

    def e_UnaryOp(self, e, st, fr):
        v = self.eval_expr(e.operand, st, fr)
        if isinstance(e.op, ast.Not):
            if isinstance(v, Const):
                return Const(not v.v)
            if isinstance(v, App) and v.op == "not":
                return App("truth", (v.args[0],), e)
            return App("not", (v,), e)
        if isinstance(e.op, ast.USub):
            return Const(-v.v) if isinstance(v, Const) else App("neg", (v,), e)
        if isinstance(e.op, ast.Invert):
            return Const(~v.v) if isinstance(v, Const) else App("inv", (v,), e)
        return v

    def e_BinOp(self, e, st, fr):
        l = self.eval_expr(e.left, st, fr)
        r = self.eval_expr(e.right, st, fr)
        return self.binop(type(e.op), l, r, e)

    def binop(self, optype, l, r, node=None):
        name, fn = BINOPS[optype]
        if isinstance(l, Const) and isinstance(r, Const):
            try:
                return Const(fn(l.v, r.v))
            except Exception:
                return App(name, (l, r), node)
        if name == "+":
            # sequence / string concatenation keeps a flattened form; numbers keep '+'
            def seqlike(t):
                return (isinstance(t, Const) and isinstance(t.v, (bytes, str, list, tuple))) or (
                    isinstance(t, App) and t.op in ("cat", "list", "tuple", "cbor", "fstr", "str", "meth:to_bytes",
                                                    "meth:ljust", "attr:bytes", "bytes", "repeat", "meth:hex",
                                                    "meth:encode", "slice", "urandom", "hash", "meth:tobinstr", "filebytes",
                                                    "a2b_hex", "byte", "meth:pack", "meth:public_bytes"))
            if seqlike(l) or seqlike(r):
                # list + list with known elements
                li, ri = list_items(l), list_items(r)
                if li is not None and ri is not None and not (isinstance(l, Const) and isinstance(l.v, (bytes, str))):
                    return mk_list(li + ri, node)
                return mk_cat([l, r], node)
        if name == "*":
            # repetition of sequences
            for a, b in ((l, r), (r, l)):
                if isinstance(a, Const) and isinstance(a.v, (bytes, str, list, tuple)):
                    return App("repeat", (a, b), node)
                if isinstance(a, App) and a.op in ("list", "cat"):
                    return App("repeat", (a, b), node)
        return App(name, (l, r), node)

    def e_BoolOp(self, e, st, fr):
        vals = [self.eval_expr(v, st, fr) for v in e.values]
        isand = isinstance(e.op, ast.And)
        out = []
        for v in vals:
            if isinstance(v, Const):
                if isand and not v.v:
                    return v if not out else App("and", out + [v], e)
                if (not isand) and v.v:
                    return v if not out else App("or", out + [v], e)
                if v is vals[-1]:
                    out.append(v)
                continue
            out.append(v)
        if not out:
            return vals[-1]
        if len(out) == 1:
            return out[0]
        return App("and" if isand else "or", out, e)

    def e_Compare(self, e, st, fr):
        left = self.eval_expr(e.left, st, fr)
        parts = []
        for op, c in zip(e.ops, e.comparators):
            right = self.eval_expr(c, st, fr)
            name, fn = CMPOPS[type(op)]
            if isinstance(left, Const) and isinstance(right, Const):
                try:
                    parts.append(Const(fn(left.v, right.v)))
                except Exception:
                    parts.append(App(name, (left, right), e))
            elif name in ("in", "not in") and isinstance(left, Const):
                parts.append(self._membership(name, left, right, e))
            else:
                parts.append(App(name, (left, right), e))
            left = right
        if len(parts) == 1:
            return parts[0]
        if all(isinstance(p, Const) for p in parts):
            return Const(all(p.v for p in parts))
        return App("and", parts, e)

    def _plain_literal_dict(self, t) -> bool:
        """A dict literal written with constant keys only (no ** spread)."""
        if isinstance(t, Const) or not isinstance(t, App):
            return False
        dp = dict_pairs(t)
        return dp is not None and len(dp) > 0 and all(isinstance(k, Const) for k, _ in dp)

    def _membership(self, name, key, cont, node, depth=0):
        """`k in c` for a constant key: decided for a literal dict / list with constant keys, distributed over `a if g else b`."""
        if isinstance(cont, App) and cont.op == "phi" and depth < 4:
            g, a, b = cont.args
            if self._plain_literal_dict(a) or self._plain_literal_dict(b):
                return phi(g, self._membership(name, key, a, node, depth + 1), self._membership(name, key, b, node, depth + 1), node)
        dp = dict_pairs(cont)
        keys = [k for k, _ in dp] if dp is not None and not isinstance(cont, Const) else None
        if keys is not None and all(isinstance(k, Const) for k in keys):
            found = any(k == key for k in keys)
            return Const(found if name == "in" else not found)
        return App(name, (key, cont), node)

    def e_IfExp(self, e, st, fr):
        g = self.eval_expr(e.test, st, fr)
        if isinstance(g, Const):
            return self.eval_expr(e.body if g.v else e.orelse, st, fr)
        x, y = self.eval_expr(e.body, st, fr), self.eval_expr(e.orelse, st, fr)
        while isinstance(g, App) and g.op in ("not", "truth") and len(g.args) == 1:
            if g.op == "not":
                x, y = y, x
            g = g.args[0]
        return phi(g, x, y, e)

    def e_NamedExpr(self, e, st, fr):
        v = self.eval_expr(e.value, st, fr)
        st.env[e.target.id] = v
        return v

    def e_Lambda(self, e, st, fr):
        a = e.args
        if not (a.vararg or a.kwarg or a.kwonlyargs or a.defaults):
            # the body as a term over its own parameters (for evaluation on concrete values); effects of the body belong to calls
            names = [x.arg for x in a.args]
            sub = State(dict(st.env), dict(st.heap), [], list(st.conds))
            for n_ in names:
                sub.env[n_] = Sym("lamparam:" + n_)
            try:
                body = self.eval_expr(e.body, sub, fr)
                return App("lambda", (Const(ast.unparse(e)), Const(tuple(names)), body), e)
            except AnalysisError:
                pass
        return App("lambda", (Const(ast.unparse(e)),), e)

    def e_Starred(self, e, st, fr):
        return App("star", (self.eval_expr(e.value, st, fr),), e)

    def e_Slice(self, e, st, fr):
        f = lambda x: Const(None) if x is None else self.eval_expr(x, st, fr)
        return App("sliceobj", (f(e.lower), f(e.upper), f(e.step)), e)

    def e_Subscript(self, e, st, fr):
        base = self.eval_expr(e.value, st, fr)
        if isinstance(e.slice, ast.Slice):
            so = self.e_Slice(e.slice, st, fr)
            lo, hi, step = so.args
            if isinstance(base, Const) and all(isinstance(x, Const) for x in (lo, hi, step)):
                try:
                    return Const(base.v[lo.v:hi.v:step.v])
                except Exception:
                    pass
            li = list_items(base)
            if li is not None and all(isinstance(x, Const) for x in (lo, hi, step)) and not isinstance(base, Const):
                return mk_list(li[lo.v:hi.v:step.v], e)
            return App("slice", (base, lo, hi, step), e)
        idx = self.eval_expr(e.slice, st, fr)
        return self.subscript(base, idx, e)

    def subscript(self, base, idx, node=None, depth=0):
        if isinstance(base, App) and base.op == "phi" and depth < 4 and isinstance(idx, Const) and (
                self._plain_literal_dict(base.args[1]) or self._plain_literal_dict(base.args[2])):
            # (a if g else {...})[k]
            return phi(base.args[0], self.subscript(base.args[1], idx, node, depth + 1), self.subscript(base.args[2], idx, node, depth + 1), node)
        if isinstance(base, Const) and isinstance(idx, Const):
            try:
                return Const(base.v[idx.v])
            except Exception:
                return App("idx", (base, idx), node)
        if isinstance(base, Ref) and base.kind == "class" and self.is_enum(base.obj):
            if isinstance(idx, Const):
                if self.repo.class_attr(base.obj, idx.v) is not None:
                    return self.enum_member(base.obj, idx.v)
                return App("enum_missing", (base, idx), node)
            return App("enum_by_name", (base, idx), node)
        if isinstance(idx, Const):
            li = list_items(base) if isinstance(idx.v, int) else None
            if li is not None and -len(li) <= idx.v < len(li):
                return li[idx.v]
            dp = dict_pairs(base)
            if dp is not None:
                for k, v in dp:
                    if k == idx:
                        return v
        elif isinstance(base, (Const, App)):
            dp = dict_pairs(base)
            if dp is not None:
                for k, v in dp:
                    if k == idx:
                        return v
        return App("idx", (base, idx), node)

    def e_Attribute(self, e, st, fr):
        base = self.eval_expr(e.value, st, fr)
        return self.attribute(base, e.attr, st, fr, e)

    def attribute(self, base, attr, st, fr, node=None):
        if (base, attr) in st.heap:
            return st.heap[(base, attr)]
        if isinstance(base, Ref):
            if base.kind == "module":
                r = self.repo.resolve_name(base.obj, attr)
                if r is not None:
                    return self._ref_to_term(r, node, fr)
                return Sym(f"unresolved:{base.obj.name}.{attr}")
            if base.kind in ("ext", "builtin"):
                return Ref("ext", f"{base.obj}.{attr}")
            if base.kind == "class":
                ci = base.obj
                if self.is_enum(ci) and not attr.startswith("_") and attr in ci.attrs:
                    return self.enum_member(ci, attr)
                m = self.repo.lookup_method(ci, attr)
                if m is not None:
                    return App("bound", (Ref("func", m), base), node)
                a = self.repo.class_attr(ci, attr)
                if a is not None:
                    if self._stored_through_class_name(ci, attr):
                        return App("attr:" + attr, (base,), node)  # written at run time somewhere: state, not a constant
                    return self._class_body_expr(a[0], a[1])
                if attr == "__name__":
                    return Const(ci.name)
                return App("attr:" + attr, (base,), node)
        if isinstance(base, App) and base.op == "phi" and not any((b, attr) in st.heap for b in base.args[1:]):
            # reading an attribute of `a if c else b`
            return phi(base.args[0], self.attribute(base.args[1], attr, st, fr, node), self.attribute(base.args[2], attr, st, fr, node), node)
        if isinstance(base, App) and base.op == "enum":
            if attr == "value":
                return self.enum_value(base)
            if attr == "name":
                return base.args[1]
        if isinstance(base, App) and base.op == "tag" and attr in ("tag", "value"):
            return base.args[0] if attr == "tag" else base.args[1]
        if isinstance(base, Const):
            return App("cmeth", (base, Const(attr)), node)
        # dataclass / NamedTuple instances created in this evaluation: fields come from the constructor arguments
        rec = record_fields(base)
        if rec is not None and attr in rec:
            return rec[attr]
        # instance of a repository class: self / new objects
        ci = self.class_of_instance(base, fr)
        if ci is not None:
            m = self.repo.lookup_method(ci, attr)
            if m is not None:
                if m.kind == "property":
                    return App("attr:" + attr, (base,), node)
                return App("bound", (Ref("func", m), base), node)
            a = self.repo.class_attr(ci, attr)
            if a is not None:
                if self._overridden_below(ci, attr) and not (self._exact_instance(base, fr) and attr in
                                                             {a for c in self.repo.mro(ci) for a in c.attrs} and
                                                             not self._instance_assigned(ci, attr)):
                    return App("attr:" + attr, (base,), node)
                return self._class_body_expr(a[0], a[1])
        return App("attr:" + attr, (base,), node)

    def _exact_instance(self, t, fr) -> bool:
        if isinstance(t, App) and t.op == "new":
            return True
        if isinstance(t, Ref):
            return True
        return bool(fr.exact)

    def _stored_through_class_name(self, ci, attr) -> bool:
        """`ClassName.attr = ...` (or setattr(ClassName, 'attr', ...)) inside any function of the repository: the attribute is state,
        not a constant, whatever its class-level initial value says."""
        if not hasattr(self, "_class_stores"):
            found = set()
            for f in self.repo.all_functions():
                for n in ast.walk(f.node):
                    if isinstance(n, ast.Attribute) and isinstance(n.ctx, (ast.Store, ast.Del)) and isinstance(n.value, ast.Name) \
                            and n.value.id not in ("self",):
                        found.add((n.value.id, n.attr))
                    if isinstance(n, ast.Call) and isinstance(n.func, ast.Name) and n.func.id == "setattr" and len(n.args) >= 2 \
                            and isinstance(n.args[0], ast.Name) and isinstance(n.args[1], ast.Constant):
                        found.add((n.args[0].id, n.args[1].value))
            self._class_stores = found
        names = {c.name for c in self.repo.mro(ci) + self.repo.subclasses(ci)} | {"cls"}
        return any((nm, attr) in self._class_stores for nm in names)

    def _instance_assigned(self, ci, attr) -> bool:
        if self._stored_through_class_name(ci, attr):
            return True
        for c in self.repo.mro(ci) + self.repo.subclasses(ci):
            for m in c.methods.values():
                for n in ast.walk(m.node):
                    if isinstance(n, ast.Attribute) and isinstance(n.ctx, ast.Store) and n.attr == attr \
                            and isinstance(n.value, ast.Name) and n.value.id in ("self", "cls"):
                        return True
        return False

    def _overridden_below(self, ci, attr) -> bool:
        key = (ci.fq, attr)
        if key not in self._override_cache:
            over = any(attr in sub.attrs for sub in self.repo.subclasses(ci)) or self._stored_through_class_name(ci, attr)
            if not over:
                # assigned as an instance attribute somewhere in the class family
                for c in self.repo.mro(ci) + self.repo.subclasses(ci):
                    for m in c.methods.values():
                        for n in ast.walk(m.node):
                            if isinstance(n, ast.Attribute) and isinstance(n.ctx, ast.Store) and n.attr == attr \
                                    and isinstance(n.value, ast.Name) and n.value.id in ("self", "cls"):
                                over = True
            self._override_cache[key] = over
        return self._override_cache[key]

    def class_of_instance(self, t, fr) -> Optional[ClassInfo]:
        if isinstance(t, Sym) and t.name in ("param:self", "param:cls") and fr.self_cls is not None:
            return fr.self_cls
        if isinstance(t, App) and t.op == "new" and isinstance(t.args[0], Ref) and t.args[0].kind == "class":
            return t.args[0].obj
        if isinstance(t, Ref) and t.kind == "class":
            return t.obj
        return None

    def e_ListComp(self, e, st, fr):
        return self._comp(e, st, fr, "list")

    def e_GeneratorExp(self, e, st, fr):
        return self._comp(e, st, fr, "gen")

    def e_SetComp(self, e, st, fr):
        return self._comp(e, st, fr, "set")

    def e_DictComp(self, e, st, fr):
        return self._comp(e, st, fr, "dict")

    def _comp(self, e, st, fr, kind):
        gen = e.generators[0]
        it = self.eval_expr(gen.iter, st, fr)
        items = self.iter_items(it) if len(e.generators) == 1 else None
        sub = st.copy()
        if items is not None and len(items) <= 64 and kind in ("list", "gen", "dict"):
            out = []
            static = True
            for item in items:
                self.bind_target(gen.target, item, sub, fr)
                conds = [self.eval_expr(c, sub, fr) for c in gen.ifs]
                if all(isinstance(c, Const) for c in conds):
                    if all(c.v for c in conds):
                        if kind == "dict":
                            out.append((self.eval_expr(e.key, sub, fr), self.eval_expr(e.value, sub, fr)))
                        else:
                            out.append(self.eval_expr(e.elt, sub, fr))
                else:
                    static = False
                    break
            if static:
                st.effects = list(sub.effects)  # effects of the unrolled element expressions, in order
                return mk_dict(out, e) if kind == "dict" else mk_list(out, e)
            sub = st.copy()
        base_e = len(st.effects)
        elem = App("elem", (it,), gen.iter)
        self.bind_target(gen.target, elem, sub, fr)
        conds = [self.eval_expr(c, sub, fr) for c in gen.ifs]
        if len(e.generators) > 1:
            return App("comp:" + kind, (Const(ast.unparse(e)),), e)
        n_cond_eff = len(sub.effects)
        if kind == "dict":
            body = App("kv", (self.eval_expr(e.key, sub, fr), self.eval_expr(e.value, sub, fr)))
        else:
            body = self.eval_expr(e.elt, sub, fr)
        inner = list(sub.effects[base_e:n_cond_eff]) + [App("eff:assume", (c,), e) for c in conds] + list(sub.effects[n_cond_eff:])
        if len(sub.effects) > base_e:
            # a comprehension whose element / condition has effects (calls, pops) is a loop over the iterable
            st.effects.append(App("eff:loop", (it, App("seq", inner)), e))
        return App("comp:" + kind, (body, it, App("conds", conds)), e)

    def _static_iter(self, it, depth=0) -> bool:
        if self.iter_items(it) is not None:
            return True
        return isinstance(it, App) and it.op == "phi" and depth < 3 and self._static_iter(it.args[1], depth + 1) and self._static_iter(it.args[2], depth + 1)

    def iter_items(self, it):
        """Statically known iteration items of a term, or None."""
        if isinstance(it, App) and it.op == "mutated" and len(it.args) == 3 and it.args[1] in (Const("append"), Const("extend")):
            base = self.iter_items(it.args[0])
            if base is not None:
                if it.args[1] == Const("append"):
                    return base + [it.args[2]]
                ext = self.iter_items(it.args[2])
                if ext is not None:
                    return base + ext
            return None
        if isinstance(it, Const):
            if isinstance(it.v, (list, tuple)):
                return [Const(x) for x in it.v]
            if isinstance(it.v, dict):
                return [Const(k) for k in it.v]
            if isinstance(it.v, (str,)):
                return [Const(c) for c in it.v]
            if isinstance(it.v, bytes):
                return [Const(c) for c in it.v]
            if isinstance(it.v, range):
                return [Const(c) for c in it.v]
            return None
        if isinstance(it, App) and it.op in ("list", "tuple"):
            return list(it.args)
        if isinstance(it, App) and it.op == "dict":
            return [kv.args[0] for kv in it.args]
        if isinstance(it, Ref) and it.kind == "class" and self.is_enum(it.obj):
            return [self.enum_member(it.obj, n) for n in it.obj.attrs if not n.startswith("_")]
        if isinstance(it, App) and it.op == "meth:items":
            dp = dict_pairs(it.args[0])
            if dp is not None:
                return [mk_tuple([k, v]) for k, v in dp]
        if isinstance(it, App) and it.op == "meth:values":
            dp = dict_pairs(it.args[0])
            if dp is not None:
                return [v for _, v in dp]
        if isinstance(it, App) and it.op == "meth:keys":
            dp = dict_pairs(it.args[0])
            if dp is not None:
                return [k for k, _ in dp]
        return None

    # ------------------------------------------------------------------ calls
    def e_Call(self, e, st, fr):
        self.calls_seen += 1
        f = e.func
        args = []
        for a in e.args:
            if isinstance(a, ast.Starred):
                v = self.eval_expr(a.value, st, fr)
                li = list_items(v)
                if li is None:
                    args.append(App("star", (v,), a))
                else:
                    args.extend(li)
            else:
                args.append(self.eval_expr(a, st, fr))
        kwargs = {}
        starkw = None
        for k in e.keywords:
            if k.arg is None:
                sk = self.eval_expr(k.value, st, fr)
                dp = dict_pairs(sk)
                if dp is not None and all(isinstance(k_, Const) and isinstance(k_.v, str) for k_, _ in dp):
                    for k_, v_ in dp:  # **{'a': x, 'b': y} is a=x, b=y
                        kwargs[k_.v] = v_
                else:
                    starkw = sk
            else:
                kwargs[k.arg] = self.eval_expr(k.value, st, fr)

        # method call on an evaluated receiver
        if isinstance(f, ast.Attribute):
            # super().method(...)
            if isinstance(f.value, ast.Call) and isinstance(f.value.func, ast.Name) and f.value.func.id == "super":
                return self.call_super(f.attr, args, kwargs, e, st, fr)
            recv = self.eval_expr(f.value, st, fr)
            return self.call_method(recv, f.attr, args, kwargs, starkw, e, st, fr)
        callee = self.eval_expr(f, st, fr)
        return self.call_term(callee, args, kwargs, starkw, e, st, fr)

    def norm_kwargs(self, name, args, kwargs):
        order = KW_ORDER.get(name)
        if order and kwargs:
            args = list(args)
            for p in order[len(args):]:
                if p in kwargs:
                    args.append(kwargs.pop(p))
                else:
                    break
        return args, kwargs

    def kwterms(self, kwargs):
        return [App("kw", (Const(k), v)) for k, v in sorted(kwargs.items())]

    LOG_METHODS = ("meth:debug", "meth:info", "meth:warning", "meth:warn", "meth:error", "meth:critical", "meth:exception", "meth:log")

    @classmethod
    def is_logging_call(cls, term) -> bool:
        """logger.debug(...) and friends on an object obtained from logging.getLogger: diagnostic output, never part of a result."""
        if not isinstance(term, App):
            return False
        if term.op in ("call:logging.getLogger", "call:logging.debug", "call:logging.info", "call:logging.warning", "call:logging.error",
                       "call:logging.log", "call:logging.exception", "call:logging.critical"):
            return True
        if term.op in cls.LOG_METHODS and term.args:
            r = term.args[0]
            return isinstance(r, App) and r.op == "call:logging.getLogger"
        return False

    def record_call(self, term, st):
        op = "eff:log" if self.is_logging_call(term) else "eff:call"
        st.effects.append(App(op, (term,), term.node if isinstance(term, App) else None))

    def call_super(self, name, args, kwargs, e, st, fr):
        if fr.self_cls is None or fr.func is None or fr.func.cls is None:
            t = App("supercall:" + name, args + self.kwterms(kwargs), e)
            self.record_call(t, st)
            return t
        mro = self.repo.mro(fr.self_cls)
        # method defined after the class that lexically contains the current function
        try:
            start = mro.index(fr.func.cls) + 1
        except ValueError:
            start = 1
        target = None
        for c in mro[start:]:
            if name in c.methods:
                target = c.methods[name]
                break
        selfterm = st.env.get("self", st.env.get("cls", Sym("param:self")))
        if target is None:
            t = App("supercall:" + name, [selfterm] + args + self.kwterms(kwargs), e)
            self.record_call(t, st)
            return t
        return self.invoke(target, selfterm, args, kwargs, None, e, st, fr)

    def call_method(self, recv, name, args, kwargs, starkw, e, st, fr):
        args, kwargs = self.norm_kwargs(name, args, kwargs)
        # constants: fold pure methods
        if isinstance(recv, Const) and name in PURE_CONST_METHODS and all(isinstance(a, Const) for a in args) \
                and all(isinstance(v, Const) for v in kwargs.values()) and starkw is None:
            try:
                val = getattr(recv.v, name)(*[a.v for a in args], **{k: v.v for k, v in kwargs.items()})
                if isinstance(val, (type({}.keys()), type({}.values()), type({}.items()))):
                    val = list(val)
                return Const(val)
            except Exception:
                pass
        # sep.join([a, b, c]) with a constant separator and a literal list is the concatenation a + sep + b + sep + c
        if isinstance(recv, Const) and isinstance(recv.v, (bytes, str)) and name == "join" and len(args) == 1 and not kwargs and starkw is None:
            li = list_items(args[0])
            if li is not None and not any(isinstance(x, App) and x.op == "star" for x in li):
                if not li:
                    return Const(type(recv.v)())
                parts = []
                for i_, x in enumerate(li):
                    if i_ and recv.v:
                        parts.append(recv)
                    parts.append(x)
                return mk_cat(parts, e) if len(parts) > 1 else parts[0]
        # compiled pattern: re.compile(p).match(s) is re.match(p, s)
        if isinstance(recv, App) and recv.op == "call:re.compile" and recv.args and not kwargs and starkw is None \
                and ((name in ("match", "fullmatch", "search", "findall", "finditer", "split") and len(args) == 1)
                     or (name in ("sub", "subn") and len(args) == 2)):
            flags = {}
            rest = list(recv.args[1:])
            if len(rest) == 1 and isinstance(rest[0], App) and rest[0].op == "kw":
                flags = {"flags": rest[0].args[1]}
            elif len(rest) == 1:
                flags = {"flags": rest[0]}
            if len(rest) <= 1:
                return self.call_ext("re." + name, [recv.args[0]] + list(args), flags, None, e, st, fr)
        # hash object idiom
        if isinstance(recv, App) and recv.op == "hashobj":
            if name == "update":
                new = App("hashobj", recv.args + tuple(args), recv.node)
                self._rebind(e.func.value, new, st)
                return Const(None)
            if name == "finalize":
                return App("hash", (recv.args[0], mk_cat(recv.args[1:]) if len(recv.args) > 1 else Const(b"")), e)
        # pathlib one-shot file access: p.read_bytes() is open(p, 'rb').read(), p.write_bytes(x) is open(p, 'wb').write(x)
        if name in ("read_bytes", "read_text") and not args and not kwargs and not isinstance(recv, Const):
            mode = Const("rb" if name == "read_bytes" else "r")
            st.effects.append(App("eff:open", (recv, mode), e))
            return App("filebytes" if name == "read_bytes" else "filetext", (recv,), e)
        if name in ("write_bytes", "write_text") and len(args) == 1 and not kwargs and not isinstance(recv, Const):
            mode = Const("wb" if name == "write_bytes" else "w")
            st.effects.append(App("eff:open", (recv, mode), e))
            st.effects.append(App("eff:write", (App("open", (recv, mode), e), args[0]), e))
            return App("len", (args[0],), e)
        # bytearray accumulator: append(n) / extend(b) grow the content
        if isinstance(recv, App) and recv.op == "bytearray" and name in ("append", "extend") and len(args) == 1 and isinstance(e.func.value, ast.Name):
            x = args[0]
            if name == "append":
                piece = Const(bytes([x.v])) if isinstance(x, Const) and isinstance(x.v, int) and 0 <= x.v < 256 else App("byte", (x,), e)
            else:
                piece = x.args[0] if isinstance(x, App) and x.op == "bytearray" else x
            self._rebind(e.func.value, App("bytearray", (mk_cat([recv.args[0], piece], e),), e), st)
            return Const(None)
        if isinstance(recv, App) and recv.op == "bytearray" and name in ("ljust", "rjust", "hex", "__len__"):
            recv = recv.args[0]
        # functional updates of local containers
        if name in ("append", "extend", "update", "insert", "remove", "pop", "clear", "reverse", "sort"):
            t = App("meth:" + name, [recv] + args + self.kwterms(kwargs), e)
            self.record_call(t, st)
            self._mutate_local(e.func.value, recv, name, args, st)
            return t
        # bound repo methods / class methods
        ci = self.class_of_instance(recv, fr)
        if ci is not None:
            m = self.repo.lookup_method(ci, name)
            if m is not None:
                selfarg = None if m.kind == "staticmethod" else recv
                unbound = isinstance(recv, Ref) and recv.kind == "class" and m.kind == "method"
                if unbound:
                    # plain function accessed through the class: no implicit first argument
                    return self.invoke(m, None, args, kwargs, starkw, e, st, fr, unbound=True)
                return self.invoke(m, selfarg, args, kwargs, starkw, e, st, fr)
        if isinstance(recv, Ref) and recv.kind == "module":
            r = self.repo.resolve_name(recv.obj, name)
            if r is not None:
                return self.call_term(self._ref_to_term(r, e, fr), args, kwargs, starkw, e, st, fr)
        if isinstance(recv, Ref) and recv.kind in ("ext", "builtin"):
            return self.call_ext(f"{recv.obj}.{name}", args, kwargs, starkw, e, st, fr)
        if isinstance(recv, App) and recv.op == "enum" and name in ("value", "name"):
            return self.attribute(recv, name, st, fr, e)
        # file handles
        if isinstance(recv, App) and recv.op == "open":
            if name == "read":
                mode = recv.args[1] if len(recv.args) > 1 else Const("r")
                binary = isinstance(mode, Const) and "b" in str(mode.v)
                if not args:
                    return App("filebytes" if binary else "filetext", (recv.args[0],), e)
                return App("fileread", (recv.args[0], mode) + tuple(args), e)
            if name == "write":
                t = App("eff:write", (recv, args[0] if args else Const(None)), e)
                st.effects.append(t)
                return Const(None)
        if name in self.plugin_methods and fr.depth < self.inline_depth:
            return self.invoke(self.plugin_methods[name], recv, args, kwargs, starkw, e, st, fr)
        t = App("meth:" + name, [recv] + args + self.kwterms(kwargs) + ([App("starkw", (starkw,))] if starkw else []), e)
        if name not in PURE_METHODS:
            self.record_call(t, st)
        return t

    def _rebind(self, target_expr, value, st):
        if isinstance(target_expr, ast.Name):
            st.env[target_expr.id] = value

    def _mutate_local(self, target_expr, recv, name, args, st):
        """Track functional updates of list/dict valued locals and heap fields."""
        def store(v):
            if isinstance(target_expr, ast.Name):
                st.env[target_expr.id] = v
            elif isinstance(target_expr, ast.Attribute):
                for (obj, attr), old in list(st.heap.items()):
                    if attr == target_expr.attr and old == recv:
                        st.heap[(obj, attr)] = v

        li = list_items(recv)
        if li is not None and name == "append" and len(args) == 1:
            store(mk_list(li + [args[0]]))
        elif li is not None and name == "extend" and len(args) == 1 and list_items(args[0]) is not None:
            store(mk_list(li + list_items(args[0])))
        elif li is not None and name == "reverse":
            store(mk_list(list(reversed(li))))
        else:
            # unknown mutation: keep a record of it on the local so that later uses see the mutated value
            # (a local that merely names a part of a parameter / of an object's state stays that name: the mutation is an
            # effect on the object, exactly as when the path is written out in place)
            if isinstance(target_expr, ast.Name) and not is_alias(recv):
                st.env[target_expr.id] = App("mutated", (recv, Const(name)) + tuple(args))

    def call_term(self, callee, args, kwargs, starkw, e, st, fr):
        if isinstance(callee, Ref):
            if callee.kind == "func":
                return self.invoke(callee.obj, None, args, kwargs, starkw, e, st, fr)
            if callee.kind == "class":
                return self.construct(callee.obj, args, kwargs, starkw, e, st, fr)
            if callee.kind in ("ext", "builtin"):
                return self.call_ext(callee.obj, args, kwargs, starkw, e, st, fr)
        if isinstance(callee, App) and callee.op == "bound":
            m_, recv_ = callee.args[0].obj, callee.args[1]
            if m_.kind == "staticmethod":
                return self.invoke(m_, None, args, kwargs, starkw, e, st, fr)
            if isinstance(recv_, Ref) and recv_.kind == "class" and m_.kind == "method":
                # a plain function taken from its class (f = Cls.func; f(a)): no implicit first argument, as in Cls.func(a)
                return self.invoke(m_, None, args, kwargs, starkw, e, st, fr, unbound=True)
            return self.invoke(m_, recv_, args, kwargs, starkw, e, st, fr)
        if isinstance(callee, App) and callee.op == "cmeth":
            return self.call_method(callee.args[0], callee.args[1].v, args, kwargs, starkw, e, st, fr)
        if isinstance(callee, App) and callee.op in ("lambda", "localfunc") and not kwargs and starkw is None:
            v = self._apply_callable(callee, list(args), st, fr, e)
            if v is not None:
                return v
        if isinstance(callee, App) and callee.op == "phi" and self._callable_alternatives(callee) and fr.depth < 8:
            # calling `A if c else B`: the call of A when c, the call of B otherwise
            g, ca, cb = callee.args
            return self._expr_branch(g, st, e, lambda a_: self.call_term(ca, list(args), dict(kwargs), starkw, e, a_, fr),
                                     lambda b_: self.call_term(cb, list(args), dict(kwargs), starkw, e, b_, fr))
        t = App("call", [callee] + args + self.kwterms(kwargs) + ([App("starkw", (starkw,))] if starkw else []), e)
        self.record_call(t, st)
        return t

    def _apply_callable(self, f, args, st, fr, node):
        """Apply a function value to argument terms when it can be done symbolically: a lambda, a local `def` whose body is one
        return statement, operator.attrgetter / itemgetter, a repository function or class.  None when it cannot."""
        if isinstance(f, App) and f.op == "lambda" and isinstance(f.node, ast.Lambda):
            a = f.node.args
            if a.vararg or a.kwarg or a.kwonlyargs or len(a.args) != len(args):
                return None
            sub = State(dict(st.env), st.heap, st.effects, st.conds)
            for p_, v_ in zip(a.args, args):
                sub.env[p_.arg] = v_
            val = self.eval_expr(f.node.body, sub, fr)
            st.effects[:] = sub.effects
            return val
        if isinstance(f, App) and f.op == "localfunc" and isinstance(f.node, ast.FunctionDef):
            body = [b for b in f.node.body if not (isinstance(b, ast.Expr) and isinstance(b.value, ast.Constant))]
            a = f.node.args
            if len(body) != 1 or not isinstance(body[0], ast.Return) or body[0].value is None or a.vararg or a.kwarg or a.kwonlyargs \
                    or len(a.args) != len(args):
                return None
            sub = State(dict(st.env), st.heap, st.effects, st.conds)
            for p_, v_ in zip(a.args, args):
                sub.env[p_.arg] = v_
            val = self.eval_expr(body[0].value, sub, fr)
            st.effects[:] = sub.effects
            return val
        if isinstance(f, App) and f.op == "call:operator.attrgetter" and len(f.args) == 1 and isinstance(f.args[0], Const) and len(args) == 1 \
                and isinstance(f.args[0].v, str) and "." not in f.args[0].v:
            return self.attribute(args[0], f.args[0].v, st, fr, node)
        if isinstance(f, App) and f.op == "call:operator.itemgetter" and len(f.args) == 1 and len(args) == 1:
            return self.subscript(args[0], f.args[0], node)
        if (isinstance(f, Ref) and f.kind in ("func", "class")) or (isinstance(f, App) and f.op == "bound"):
            return self.call_term(f, list(args), {}, None, node, st, fr)
        return None

    def _callable_alternatives(self, t, depth=0) -> bool:
        """Some alternative of a conditional value is a known class / function (the others may be None or unknown)."""
        if isinstance(t, App) and t.op == "phi" and depth < 6:
            return self._callable_alternatives(t.args[1], depth + 1) or self._callable_alternatives(t.args[2], depth + 1)
        return (isinstance(t, Ref) and t.kind in ("class", "func")) or (isinstance(t, App) and t.op == "bound")

    def _expr_branch(self, g, st, node, run_a, run_b):
        """Expression-level two-way split: both alternatives are evaluated on copies of the state; effects, heap and value are joined
        under the condition."""
        base_e = len(st.effects)
        a, b = st.copy(), st.copy()
        va, vb = run_a(a), run_b(b)
        ta, tb = a.effects[base_e:], b.effects[base_e:]
        if ta or tb:
            st.effects.append(App("eff:if", (g, App("seq", ta), App("seq", tb)), node))
        for k in set(a.heap) | set(b.heap):
            x, y = a.heap.get(k), b.heap.get(k)
            dflt = App("attr:" + k[1], (k[0],))
            st.heap[k] = phi(g, x if x is not None else dflt, y if y is not None else dflt)
        return phi(g, va, vb, node)

    def construct(self, ci: ClassInfo, args, kwargs, starkw, e, st, fr):
        if self.is_enum(ci):
            if len(args) == 1 and isinstance(args[0], Const):
                for name, val in self.enum_members(ci):
                    if val == args[0]:
                        return self.enum_member(ci, name)
                return App("enum_missing", (Ref("class", ci), args[0]), e)
            return App("enum_by_value", [Ref("class", ci)] + args, e)
        site = Const(("site", getattr(e, "lineno", 0), getattr(e, "col_offset", 0)))
        obj = App("new", [Ref("class", ci), site] + args + self.kwterms(kwargs), e)
        init = self.repo.lookup_method(ci, "__init__")
        if init is not None and fr.depth < self.inline_depth and (self.inline_filter is None or self.inline_filter(init)):
            self.invoke(init, obj, args, kwargs, starkw, e, st, fr, ctor=True)
        else:
            self.record_call(obj, st)
        return obj

    def call_ext(self, dotted, args, kwargs, starkw, e, st, fr):
        short = dotted.split(".")[-1]
        args, kwargs = self.norm_kwargs(short, args, kwargs)
        allc = all(isinstance(a, Const) for a in args) and not kwargs and starkw is None
        # ---- builtins with folding
        if dotted in ("len",) and len(args) == 1:
            a = args[0]
            if isinstance(a, Const):
                try:
                    return Const(len(a.v))
                except Exception:
                    pass
            li = list_items(a)
            if li is not None and not any(isinstance(x, App) and x.op == "star" for x in li):
                return Const(len(li))
            return App("len", (a,), e)
        if dotted in ("int", "str", "bool", "abs", "hex", "ord", "chr", "min", "max", "sum", "float", "round",
                      "repr", "divmod", "pow") and allc:
            import builtins
            try:
                return Const(getattr(builtins, dotted)(*[a.v for a in args]))
            except Exception:
                pass
        if dotted in ("bytes.fromhex", "bytearray.fromhex") and allc and len(args) == 1:
            try:
                return Const(bytes.fromhex(args[0].v))
            except Exception:
                pass
        if dotted == "bytearray" and len(args) <= 1 and not kwargs:
            # a bytearray used as an accumulator of bytes: its content as a bytes term
            if not args:
                return App("bytearray", (Const(b""),), e)
            a0 = args[0]
            if isinstance(a0, App) and a0.op == "bytearray":
                return a0
            if isinstance(a0, Const) and isinstance(a0.v, (bytes, bytearray)):
                return App("bytearray", (Const(bytes(a0.v)),), e)
            if isinstance(a0, App) and a0.op in ("cat", "meth:to_bytes", "attr:bytes", "cbor", "byte", "repeat", "filebytes", "bytes", "meth:ljust", "slice", "hash"):
                return App("bytearray", (a0,), e)
        if dotted == "bytes" and len(args) == 1 and isinstance(args[0], App) and args[0].op == "bytearray":
            return args[0].args[0]
        if dotted == "bytes":
            if not args:
                return Const(b"")
            if allc:
                try:
                    return Const(bytes(*[a.v for a in args]))
                except Exception:
                    pass
            li = list_items(args[0])
            if li is not None:
                return mk_cat([App("byte", (x,), e) if not isinstance(x, Const) else Const(bytes([x.v])) for x in li], e) \
                    if li else Const(b"")
            return App("bytes", args, e)
        if dotted in ("map", "filter") and len(args) == 2 and not kwargs and starkw is None:
            # map(f, xs) / filter(f, xs) with a function that can be applied symbolically: the generator (f(x) for x in xs) /
            # (x for x in xs if f(x))
            it = args[1]
            el = App("elem", (it,), e)
            base_e = len(st.effects)
            sub = st.copy()
            applied = el if (dotted == "filter" and args[0] == Const(None)) else self._apply_callable(args[0], [el], sub, fr, e)
            if applied is not None:
                inner = list(sub.effects[base_e:])
                if inner:
                    st.effects.append(App("eff:loop", (it, App("seq", inner)), e))
                if dotted == "map":
                    return App("comp:gen", (applied, it, App("conds", ())), e)
                return App("comp:gen", (el, it, App("conds", (applied,))), e)
        if dotted in ("list", "tuple") and len(args) <= 1:
            if not args:
                return Const([] if dotted == "list" else ())
            items = self.iter_items(args[0])
            if items is not None:
                return mk_list(items, e) if dotted == "list" else mk_tuple(items, e)
            if dotted == "list" and isinstance(args[0], App) and args[0].op == "comp:gen" and len(args[0].args) == 3:
                return App("comp:list", args[0].args, e)  # list(<generator expression>) is the list comprehension
            return App(dotted + "of", args, e)
        if dotted == "dict" and not args:
            return mk_dict([(Const(k), v) for k, v in kwargs.items()], e)
        if dotted == "range" and allc:
            try:
                return Const(range(*[a.v for a in args]))
            except Exception:
                pass
        if dotted == "isinstance" and len(args) == 2:
            return App("isinstance", args, e)
        if dotted == "hasattr" and len(args) == 2:
            return App("hasattr", args, e)
        if dotted == "getattr" and len(args) >= 2 and isinstance(args[1], Const):
            return self.attribute(args[0], args[1].v, st, fr, e)
        if dotted in ("math.ceil", "math.floor") and allc:
            import math
            return Const(getattr(math, short)(args[0].v))
        # ---- modelled library calls
        if dotted in ("cbor2.dumps", "cbor2.encoder.dumps") :
            if kwargs or starkw is not None:
                return App("cbor_kw", args + self.kwterms(kwargs), e)
            if len(args) == 1:
                return self.cbor(args[0], e)
        if dotted == "cbor2.CBORTag" and len(args) == 2:
            return App("tag", args, e)
        if dotted == "next" and len(args) in (1, 2) and not kwargs and isinstance(args[0], App) and args[0].op == "comp:gen" and len(args[0].args) == 3:
            # next(<element> for <item> in <static table> if <test>, default): the first item whose test holds
            body, it, conds = args[0].args
            items = self.iter_items(it)
            if items is not None and len(items) <= 32 and len(args) == 2:
                el = App("elem", (it,))
                out = args[1]
                for item in reversed(items):
                    m_ = {el: item}
                    cs = [self._fold_unpack(substitute(c, m_)) for c in conds.args]
                    val = self._fold_unpack(substitute(body, m_))
                    g_ = cs[0] if len(cs) == 1 else (App("and", tuple(cs)) if cs else Const(True))
                    out = phi(g_, val, out, e)
                return out
        if dotted in ("cbor2.loads", "cbor2.load") and len(args) == 1 and not kwargs:
            site = Const(("site", getattr(e, "lineno", 0), getattr(e, "col_offset", 0)))
            t = App("cborload", (args[0], site), e)
            self.record_call(t, st)
            return t
        if dotted == "open":
            mode = args[1] if len(args) > 1 else Const("r")
            t = App("open", (args[0], mode), e)
            st.effects.append(App("eff:open", (args[0], mode), e))
            return t
        if dotted == "os.urandom" and len(args) == 1:
            site = Const(("site", getattr(e, "lineno", 0), getattr(e, "col_offset", 0)))
            t = App("urandom", (args[0], site), e)
            self.record_call(t, st)
            return t
        if dotted.endswith("hashes.Hash") and args:
            return App("hashobj", (args[0],), e)
        if dotted in ("uuid.uuid5",) and len(args) == 2:
            return App("uuid5", args, e)
        if dotted in ("bytes.fromhex", "bytearray.fromhex", "binascii.unhexlify") and len(args) == 1 and not isinstance(args[0], Const):
            dotted = "binascii.a2b_hex"  # the same conversion of a hex string (of x.hex()) back to bytes
        if dotted == "binascii.a2b_hex" and len(args) == 1:
            a = args[0]
            if isinstance(a, App) and a.op == "meth:hex":
                return a.args[0]
            return App("a2b_hex", args, e)
        # generic external call; constructors (Capitalised) get an allocation-site id
        extra = []
        if short[:1].isupper() and ".hashes." not in dotted:
            extra = [Const(("site", getattr(e, "lineno", 0), getattr(e, "col_offset", 0)))]
        t = App("call:" + dotted, extra + args + self.kwterms(kwargs) + ([App("starkw", (starkw,))] if starkw else []), e)
        self.record_call(t, st)
        return t

    def _fold_unpack(self, t):
        """unpack(<static sequence>, i, n) -> its i-th item (after an element of a static table was substituted)."""
        if isinstance(t, App):
            args = [self._fold_unpack(a) for a in t.args]
            if t.op == "unpack" and isinstance(args[1], Const) and isinstance(args[2], Const):
                li = list_items(args[0])
                if li is not None and len(li) == args[2].v:
                    return li[args[1].v]
            return App(t.op, args, t.node)
        return t

    def cbor(self, t, node=None):
        try:
            return Const(cbor_mini.dumps(self._to_cbor_py(t)))
        except (ValueError, TypeError):
            return App("cbor", (t,), node)

    def _to_cbor_py(self, t):
        if isinstance(t, Const):
            return t.v
        if isinstance(t, App) and t.op == "tag":
            return cbor_mini.Tag(self._to_cbor_py(t.args[0]), self._to_cbor_py(t.args[1]))
        if isinstance(t, App) and t.op == "list":
            return [self._to_cbor_py(a) for a in t.args]
        raise ValueError("symbolic")

    # ------------------------------------------------------------------ inlining
    def invoke(self, fi: FuncInfo, selfarg, args, kwargs, starkw, e, st, fr, ctor=False, unbound=False):
        """Call a repository function: inline it when the budget allows, else keep an opaque call term."""
        callterm = App("call", [Ref("func", fi)] + ([selfarg] if selfarg is not None else []) + list(args)
                       + self.kwterms(kwargs) + ([App("starkw", (starkw,))] if starkw is not None else []), e)
        # a function the rules have never seen (a helper introduced by a later change) is always followed, whatever the inlining
        # depth asked for: the caller then shows the same terms and effects as with the helper's statements written in place
        helper = self.is_new_helper(fi) and fr.helper_depth < 3 and not ctor and self.bind_params(fi, selfarg, args, kwargs, starkw, unbound=unbound) is not None
        if not helper:
            self.record_call(callterm, st)
        if (not helper and (fr.depth >= self.inline_depth or (self.inline_filter is not None and not self.inline_filter(fi)))) \
                or "abstractmethod" in fi.decorators:
            # the callee is not evaluated: forget what is known about the fields of its receiver
            if selfarg is not None:
                for k in [k for k in st.heap if k[0] == selfarg]:
                    del st.heap[k]
            return callterm
        binding = self.bind_params(fi, selfarg, args, kwargs, starkw, unbound=unbound)
        if binding is None:
            return callterm
        self_cls = None
        if fi.cls is not None:
            self_cls = self.class_of_instance(selfarg, fr) if selfarg is not None else None
            if self_cls is None or fi.cls not in self.repo.mro(self_cls):
                self_cls = fi.cls
        sub = State(binding, st.heap, st.effects, st.conds)
        nfr = Frame(fi, fi.module, self_cls, fr.depth + (0 if helper else 1))
        nfr.helper_depth = fr.helper_depth + (1 if helper else 0)
        fall, exits = self.exec_block(fi.node.body, sub, nfr)
        rets = [x for x in exits if x.kind == "return"]
        raises = [x for x in exits if x.kind == "raise"]
        # an exception raised by the callee leaves the caller too (unless a handler of the caller catches it: s_Try filters)
        for r in raises:
            fr.pending.append(Exit("raise", r.value, list(r.conds), list(r.effects), r.node, dict(r.heap), dict(st.env)))
        outcomes = list(rets)
        if fall is not None:
            outcomes.append(Exit("return", Const(None), fall.conds, fall.effects, fi.node, fall.heap, fall.env))
        if not outcomes:
            # always raises
            st.effects.append(App("eff:raise_in_callee", (callterm,), e))
            return App("raises", (callterm,), e)
        base_c = len(st.conds)
        base_e = len(st.effects)
        # merge outcomes into one value/effect/heap with nested phis over their path conditions
        def merge(outs):
            if len(outs) == 1:
                o = outs[0]
                # what the callee established before it returned here (the other way out raised) holds from now on
                known = [App("eff:assume", (c,), e) for c in o.conds[base_c:] if not any(
                    isinstance(x, App) and x.op == "eff:assume" and x.args[0] == c for x in o.effects[base_e:])]
                return o.value, list(o.effects[base_e:]) + known, o.heap
            # find the first condition where outcomes diverge
            i = base_c
            while all(len(o.conds) > i for o in outs) and all(o.conds[i] == outs[0].conds[i] for o in outs):
                i += 1
            if not all(len(o.conds) > i for o in outs):
                # a return with conditions of its own (inside a loop / a nested test) next to a return that stands for all the other
                # paths: the former is selected by the conjunction of its own conditions
                spec = next((o for o in outs if len(o.conds) > i), None)
                rest = [o for o in outs if o is not spec]
                if spec is None or not rest:
                    o = outs[0]
                    return o.value, o.effects[base_e:], o.heap
                cj = spec.conds[i:]
                g = cj[0] if len(cj) == 1 else App("and", tuple(cj))
                spec.conds = spec.conds[:i]
                va, ea, ha = merge([spec])
                vb, eb, hb = merge(rest)
            else:
                g = outs[0].conds[i]
                a = [o for o in outs if o.conds[i] == g]
                b = [o for o in outs if o.conds[i] != g]
                if not b:
                    o = outs[0]
                    return o.value, o.effects[base_e:], o.heap
                # strip condition i for the recursive merge by advancing index implicitly
                for o in a + b:
                    o.conds = o.conds[:i] + o.conds[i + 1:]
                va, ea, ha = merge(a)
                vb, eb, hb = merge(b)
            heap = dict(ha)
            for k in set(ha) | set(hb):
                x, y = ha.get(k), hb.get(k)
                if x is not None and y is not None:
                    heap[k] = phi(g, x, y)
                elif x is None:
                    heap[k] = y
            common = 0
            while common < len(ea) and common < len(eb) and ea[common] is eb[common]:
                common += 1
            effs = list(ea[:common])
            if ea[common:] or eb[common:]:
                effs.append(App("eff:if", (g, App("seq", ea[common:]), App("seq", eb[common:]))))
            return phi(g, va, vb), effs, heap

        val, effs, heap = merge(outcomes)
        st.effects[base_e:] = effs
        st.heap.clear()
        st.heap.update(heap)
        if raises:
            st.effects.append(App("eff:may_raise", [App("exc", (r.value if r.value is not None else Const(None),
                                                                  App("conds", r.conds[base_c:]))) for r in raises], e))
        return val if not ctor else Const(None)

    def is_new_helper(self, fi: FuncInfo) -> bool:
        if fi.fq in getattr(self, "never_inline", ()):
            return False  # the rule has a stand-in for it, or examines it on its own
        if self.known is None or fi.fq in self.known or "abstractmethod" in fi.decorators \
                or (fi.name.startswith("__") and fi.name.endswith("__")):
            return False
        return not self._moved_known(fi) and not self._renamed_known(fi)

    def _moved_known(self, fi: FuncInfo) -> bool:
        """A known private function that only changed its place (method -> module level, other class or module) is still that
        function: the only one of its bare name in the program, while a known function of that name is gone."""
        cache = self.__dict__.setdefault("_moved_cache", {})
        if not fi.name.startswith("_"):
            # a public function / class moved into another module and imported back under its name is still known
            if fi.fq not in cache:
                cache[fi.fq] = any(k.split(":", 1)[1] == fi.qualname and self.repo.find_func(*k.split(":", 1)) is None
                                   and self.repo.modules.get(k.split(":", 1)[0]) is not None
                                   and (lambda r: bool(r) and ((r[0] == "func" and r[1] is fi) or (r[0] == "class" and r[1] is fi.cls)))(
                                       self.repo.resolve_name(self.repo.modules[k.split(":", 1)[0]], fi.qualname.split(".")[0]))
                                   for k in self.known)
            return cache[fi.fq]
        if fi.fq not in cache:
            gone = [k for k in self.known if k.rsplit(".", 1)[-1].rsplit(":", 1)[-1] == fi.name
                    and self.repo.find_func(*k.split(":", 1)) is None]
            same = [f for m in self.repo.modules.values() for q, f in m.functions.items() if q.rsplit(".", 1)[-1] == fi.name]
            cache[fi.fq] = bool(gone) and len(same) == 1
        return cache[fi.fq]

    def _renamed_known(self, fi: FuncInfo) -> bool:
        """A known private function under a new name (same structure, see index.fingerprint) is still that function."""
        from .index import fingerprint, known_fingerprints
        cache = self.__dict__.setdefault("_renamed_cache", {})
        if fi.fq not in cache:
            fps = known_fingerprints()
            gone = {v for k, v in fps.items() if v and self.repo.find_func(*k.split(":", 1)) is None}
            cache[fi.fq] = bool(gone) and fingerprint(fi.node) in gone
        return cache[fi.fq]

    def _split_guard(self, g):
        return g, App("not", (g,))

    def bind_params(self, fi: FuncInfo, selfarg, args, kwargs, starkw, unbound=False):
        a = fi.node.args
        names = [x.arg for x in a.posonlyargs + a.args]
        env = {}
        pos = list(args)
        if fi.kind in ("method", "classmethod", "property") and names and not unbound:
            first = names.pop(0)
            env[first] = selfarg if selfarg is not None else Sym("param:" + first)
        if any(isinstance(x, App) and x.op == "star" for x in pos):
            return None
        defaults = list(a.defaults)
        dnames = names[len(names) - len(defaults):] if defaults else []
        kwargs = dict(kwargs)
        for new_, old_ in getattr(fi, "kw_alias", {}).items():  # a renamed anchor seen under its old parameter names (index._renamed)
            if new_ in kwargs and old_ not in kwargs:
                kwargs[old_] = kwargs.pop(new_)
        for i, n in enumerate(names):
            if i < len(pos):
                env[n] = pos[i]
            elif n in kwargs:
                env[n] = kwargs.pop(n)
            elif starkw is not None:
                env[n] = self.subscript(starkw, Const(n))
            elif n in dnames:
                d = defaults[dnames.index(n)]
                dv = self.eval_expr(d, State(), Frame(None, fi.module, None, 0))
                # a default that is not a constant is ONE object created when the function was defined, shared by every call
                env[n] = dv if isinstance(dv, (Const, Ref)) else App("default_object", (Const(fi.fq), Const(n), dv), d)
            else:
                env[n] = Sym("param:" + n)
        if len(pos) > len(names):
            if a.vararg is None:
                return None
            env[a.vararg.arg] = mk_tuple(pos[len(names):])
        elif a.vararg is not None:
            env[a.vararg.arg] = Const(())
        for k in a.kwonlyargs:
            if k.arg in kwargs:
                env[k.arg] = kwargs.pop(k.arg)
            else:
                env[k.arg] = Sym("param:" + k.arg)
        if a.kwarg is not None:
            if starkw is not None:
                env[a.kwarg.arg] = starkw
            else:
                env[a.kwarg.arg] = mk_dict([(Const(k), v) for k, v in kwargs.items()])
        elif kwargs:
            return None
        return env

    # ------------------------------------------------------------------ statements
    def bind_target(self, target, value, st: State, fr: Frame):
        if isinstance(target, ast.Name):
            st.env[target.id] = value
        elif isinstance(target, (ast.Tuple, ast.List)):
            items = list_items(value)
            n = len(target.elts)
            if items is None and record_fields(value) is not None and _is_namedtuple(value.args[0].obj):
                items = list(record_fields(value).values())  # a, b = SomeNamedTuple(x, y)
            if items is None and isinstance(value, App) and value.op == "elem" and isinstance(value.args[0], App):
                src = value.args[0]
                if src.op == "call:enumerate" and n == 2 and len(src.args) in (1, 2):
                    # for i, x in enumerate(xs): x is the element of xs, i its position
                    pos = App("position", (src.args[0],), target) if len(src.args) == 1 else App("+", (App("position", (src.args[0],), target), src.args[1]), target)
                    items = [pos, App("elem", (src.args[0],), value.node)]
                elif src.op == "call:zip" and n == len(src.args) and n >= 2:
                    # for a, b in zip(xs, ys): the elements of xs and ys at the same position
                    items = [App("elem", (a_,), value.node) for a_ in src.args]
            if items is not None and len(items) == n:
                for t, v in zip(target.elts, items):
                    self.bind_target(t, v, st, fr)
            else:
                for i, t in enumerate(target.elts):
                    self.bind_target(t, App("unpack", (value, Const(i), Const(n)), target), st, fr)
        elif isinstance(target, ast.Attribute):
            obj = self.eval_expr(target.value, st, fr)
            st.heap[(obj, target.attr)] = value
            st.effects.append(App("eff:setattr", (obj, Const(target.attr), value), target))
        elif isinstance(target, ast.Subscript):
            obj = self.eval_expr(target.value, st, fr)
            if isinstance(target.slice, ast.Slice):
                key = self.e_Slice(target.slice, st, fr)
            else:
                key = self.eval_expr(target.slice, st, fr)
            st.effects.append(App("eff:store", (obj, key, value), target))
            # functional update for locally known dicts
            if isinstance(target.value, ast.Name):
                dp = dict_pairs(obj)
                if dp is not None:
                    newpairs = [(k, v) for k, v in dp if k != key] + [(key, value)]
                    st.env[target.value.id] = mk_dict(newpairs)
                elif isinstance(obj, App) and obj.op in ("loopvar", "mutated") and not is_alias(obj) and not isinstance(target.slice, ast.Slice):
                    # a local container filled inside a loop: the store is part of the value the name has afterwards
                    st.env[target.value.id] = App("mutated", (obj, Const("__setitem__"), key, value), target)
        elif isinstance(target, ast.Starred):
            self.bind_target(target.value, value, st, fr)
        else:
            raise AnalysisError(f"unsupported assignment target {ast.dump(target)[:80]}")

    def exec_block(self, body, st: State, fr: Frame):
        """Execute statements. Returns (fall-through state or None, exits)."""
        exits = []
        cur = st
        for s in body:
            if cur is None:
                break
            cur, ex = self.exec_stmt(s, cur, fr)
            exits.extend(ex)
        return cur, exits

    def exec_stmt(self, s, st: State, fr: Frame):
        self._tick()
        m = getattr(self, "s_" + type(s).__name__, None)
        if m is None:
            raise AnalysisError(f"statement kind {type(s).__name__} not modelled (line {getattr(s, 'lineno', '?')})")
        cur, ex = m(s, st, fr)
        if fr.pending:
            ex = list(ex) + fr.pending
            fr.pending = []
        return cur, ex

    def s_Expr(self, s, st, fr):
        if isinstance(s.value, ast.Constant):
            return st, []
        v = self.eval_expr(s.value, st, fr)
        if isinstance(v, App) and v.op == "raises":
            if fr.pending:
                return None, []  # the callee's own raise exits are handed over by exec_stmt
            return None, [Exit("raise", v, list(st.conds), list(st.effects), s, dict(st.heap), dict(st.env))]
        return st, []

    def s_Pass(self, s, st, fr):
        return st, []

    def s_Import(self, s, st, fr):
        return st, []

    s_ImportFrom = s_Import

    def s_Global(self, s, st, fr):
        raise AnalysisError("global statement not modelled")

    def s_FunctionDef(self, s, st, fr):
        st.env[s.name] = App("localfunc", (Const(s.name),), s)
        return st, []

    def s_ClassDef(self, s, st, fr):
        key = f"{fr.func.qualname}.<locals>.{s.name}" if fr.func else s.name
        ci = fr.mod.classes.get(key)
        st.env[s.name] = Ref("class", ci) if ci is not None else App("localclass", (Const(s.name),), s)
        return st, []

    def s_Assign(self, s, st, fr):
        v = self.eval_expr(s.value, st, fr)
        if isinstance(v, App) and v.op == "raises":
            return None, [Exit("raise", v, list(st.conds), list(st.effects), s, dict(st.heap), dict(st.env))]
        for t in s.targets:
            self.bind_target(t, v, st, fr)
        return st, []

    def s_AnnAssign(self, s, st, fr):
        if s.value is not None:
            self.bind_target(s.target, self.eval_expr(s.value, st, fr), st, fr)
        return st, []

    def s_AugAssign(self, s, st, fr):
        cur = self.eval_expr(s.target, st, fr) if not isinstance(s.target, ast.Name) else st.env.get(
            s.target.id, Sym("free:" + s.target.id))
        v = self.eval_expr(s.value, st, fr)
        if isinstance(cur, App) and cur.op == "bytearray" and isinstance(s.op, ast.Add):
            piece = v.args[0] if isinstance(v, App) and v.op == "bytearray" else v
            new = App("bytearray", (mk_cat([cur.args[0], piece], s),), s)
        else:
            new = self.binop(type(s.op), cur, v, s)
        self.bind_target(s.target, new, st, fr)
        return st, []

    def s_Delete(self, s, st, fr):
        for t in s.targets:
            if isinstance(t, ast.Attribute):
                obj = self.eval_expr(t.value, st, fr)
                st.heap.pop((obj, t.attr), None)
                st.effects.append(App("eff:delattr", (obj, Const(t.attr)), s))
            elif isinstance(t, ast.Subscript):
                obj = self.eval_expr(t.value, st, fr)
                st.effects.append(App("eff:delitem", (obj, self.eval_expr(t.slice, st, fr)), s))
            elif isinstance(t, ast.Name):
                st.env.pop(t.id, None)
        return st, []

    def s_Return(self, s, st, fr):
        v = self.eval_expr(s.value, st, fr) if s.value is not None else Const(None)
        if isinstance(v, App) and v.op == "raises":
            return None, [Exit("raise", v, list(st.conds), list(st.effects), s, dict(st.heap), dict(st.env))]
        return None, [Exit("return", v, list(st.conds), list(st.effects), s, dict(st.heap), dict(st.env))]

    def s_Raise(self, s, st, fr):
        v = None
        if s.exc is not None:
            sub = st.copy()
            v = self.eval_expr(s.exc, sub, fr)
        return None, [Exit("raise", v, list(st.conds), list(st.effects), s, dict(st.heap), dict(st.env))]

    def s_Break(self, s, st, fr):
        return None, [Exit("break", None, list(st.conds), list(st.effects), s, dict(st.heap), dict(st.env))]

    def s_Continue(self, s, st, fr):
        return None, [Exit("continue", None, list(st.conds), list(st.effects), s, dict(st.heap), dict(st.env))]

    def s_Assert(self, s, st, fr):
        return st, []

    def s_If(self, s, st, fr):
        g = self.eval_expr(s.test, st, fr)
        if isinstance(g, Const):
            return self.exec_block(s.body if g.v else s.orelse, st, fr)
        body, orelse = s.body, s.orelse
        # normal form: `if not c: A else: B` is evaluated as `if c: B else: A` (same terms whichever way the source puts it)
        while isinstance(g, App) and g.op in ("not", "truth") and len(g.args) == 1:
            if g.op == "not":
                body, orelse = orelse, body
            g = g.args[0]
        return self._branch(g, s, st, fr, lambda a: self.exec_block(body, a, fr), lambda b: self.exec_block(orelse, b, fr))

    def s_Match(self, s, st, fr):
        """match on values: `case A:` / `case A | B:` / `case None:` / `case _:` / `case x:` are the chain
        `if subject == A: ... elif subject == A or subject == B: ... else: ...`; other patterns are not modelled."""
        subj = self.eval_expr(s.subject, st, fr)

        def test_of(pat):
            if isinstance(pat, ast.MatchValue):
                return App("==", (subj, self.eval_expr(pat.value, st, fr)), pat)
            if isinstance(pat, ast.MatchSingleton):
                return App("is", (subj, Const(pat.value)), pat)
            if isinstance(pat, ast.MatchOr):
                return App("or", tuple(test_of(p_) for p_ in pat.patterns), pat)
            raise AnalysisError(f"match pattern {type(pat).__name__} not modelled (line {getattr(pat, 'lineno', '?')})")

        def run(cases_, state):
            if not cases_:
                return state, []
            c = cases_[0]
            pat = c.pattern
            irrefutable = isinstance(pat, ast.MatchAs) and pat.pattern is None
            if irrefutable:
                if pat.name is not None:
                    state.env[pat.name] = subj
                g = None
            else:
                g = test_of(pat)
            if c.guard is not None:
                gg = self.eval_expr(c.guard, state, fr)
                g = gg if g is None else App("and", (g, gg), c)
            if g is None:
                return self.exec_block(c.body, state, fr)
            if isinstance(g, Const):
                return self.exec_block(c.body, state, fr) if g.v else run(cases_[1:], state)
            return self._branch(g, c, state, fr, lambda a: self.exec_block(c.body, a, fr), lambda b: run(cases_[1:], b))
        return run(list(s.cases), st)

    def _branch(self, g, s, st, fr, run_a, run_b):
        """Two-way split on the condition term g: run_a / run_b take a state and return (fall-through state, exits); results are merged."""
        base_e = len(st.effects)
        a = st.copy()
        a.conds.append(g)
        b = st.copy()
        b.conds.append(App("not", (g,), getattr(s, "test", s)))
        fa, ea = run_a(a)
        fb, eb = run_b(b)
        exits = ea + eb
        if fa is None and fb is None:
            return None, exits
        if fa is None:
            fb.effects.insert(base_e, App("eff:assume", (App("not", (g,), getattr(s, "test", s)),), s))
            return fb, exits
        if fb is None:
            fa.effects.insert(base_e, App("eff:assume", (g,), s))
            return fa, exits
        # merge
        merged = State(conds=st.conds)
        for k in set(fa.env) | set(fb.env):
            x, y = fa.env.get(k), fb.env.get(k)
            if x is None or y is None:
                merged.env[k] = phi(g, x if x is not None else Sym("undef:" + k), y if y is not None else Sym("undef:" + k))
            else:
                merged.env[k] = phi(g, x, y, s)
        for k in set(fa.heap) | set(fb.heap):
            x, y = fa.heap.get(k), fb.heap.get(k)
            if x is None or y is None:
                merged.heap[k] = phi(g, x if x is not None else App("attr:" + k[1], (k[0],)),
                                     y if y is not None else App("attr:" + k[1], (k[0],)))
            else:
                merged.heap[k] = phi(g, x, y, s)
        merged.effects = list(st.effects[:base_e])
        ta, tb = fa.effects[base_e:], fb.effects[base_e:]
        if ta or tb:
            merged.effects.append(App("eff:if", (g, App("seq", ta), App("seq", tb)), s))
        return merged, exits

    def s_With(self, s, st, fr):
        for item in s.items:
            v = self.eval_expr(item.context_expr, st, fr)
            if item.optional_vars is not None:
                self.bind_target(item.optional_vars, v, st, fr)
        return self.exec_block(s.body, st, fr)

    MUTATORS = ("append", "extend", "update", "insert", "remove", "pop", "clear", "reverse", "sort", "add",
                "setdefault", "popitem", "discard")

    def _assigned_names(self, body):
        out = set()
        for n in body:
            for x in ast.walk(n):
                if isinstance(x, ast.Name) and isinstance(x.ctx, ast.Store):
                    out.add(x.id)
                elif isinstance(x, ast.Subscript) and isinstance(x.ctx, (ast.Store, ast.Del)) \
                        and isinstance(x.value, ast.Name):
                    out.add(x.value.id)
                elif isinstance(x, ast.Call) and isinstance(x.func, ast.Attribute) and x.func.attr in self.MUTATORS \
                        and isinstance(x.func.value, ast.Name):
                    out.add(x.func.value.id)
        return out

    def s_For(self, s, st, fr):
        it = self.eval_expr(s.iter, st, fr)
        return self._for_over(s, it, st, fr)

    def _for_over(self, s, it, st, fr, depth=0):
        items = self.iter_items(it)
        if items is None and isinstance(it, App) and it.op == "phi" and depth < 3 and not s.orelse:
            # a list built conditionally and then iterated: `for x in (A if g else B)` is `if g: for x in A else: for x in B`
            g, xa, xb = it.args
            if self._static_iter(xa, depth) and self._static_iter(xb, depth):
                return self._branch(g, s, st, fr, lambda a: self._for_over(s, xa, a, fr, depth + 1), lambda b: self._for_over(s, xb, b, fr, depth + 1))
        if items is not None and len(items) <= 64:
            return self._unroll(s, items, 0, st, fr)
        return self._symbolic_loop(s, it, st, fr)

    def _unroll(self, s, items, i, st, fr):
        """A loop over statically known items, unrolled: (state after the loop or None, return / raise exits).  A `break` taken on some
        paths only leaves the loop on those paths (skipping the else clause); the others go on with the next item."""
        base = st.copy()
        if i == len(items):
            if s.orelse:
                return self.exec_block(s.orelse, st, fr)
            return st, []
        self.bind_target(s.target, items[i], st, fr)
        fall, ex = self.exec_block(s.body, st, fr)
        exits = [x for x in ex if x.kind in ("return", "raise")]
        nexts = ([fall] if fall is not None else []) + [State(x.env, x.heap, x.effects, x.conds) for x in ex if x.kind == "continue"]
        afters = [State(x.env, x.heap, x.effects, x.conds) for x in ex if x.kind == "break"]
        nxt = self._merge_states(nexts, base, s)
        if nxt is not None:
            a, e2 = self._unroll(s, items, i + 1, nxt, fr)
            exits += e2
            if a is not None:
                afters.append(a)
        return self._merge_states(afters, base, s), exits

    def _merge_states(self, states, base, node):
        """Join states that all descend from `base` (same prefix of path conditions and effects) into one, by nested conditionals
        over the conditions in which their paths differ."""
        if not states:
            return None
        if len(states) == 1:
            return states[0]
        n0 = len(base.conds)
        i = n0
        while all(len(x.conds) > i for x in states) and all(x.conds[i] == states[0].conds[i] for x in states):
            i += 1
        base_e = len(base.effects)
        if not all(len(x.conds) > i for x in states):
            # a path that carries its own conditions (a `continue` / `break` inside a handler or a nested test) next to states that
            # stand for "all the other paths": the former is selected by the conjunction of its own conditions
            spec = next((x for x in states if len(x.conds) > i), None)
            if spec is None:
                raise AnalysisError(f"paths of an unrolled loop cannot be joined (line {getattr(node, 'lineno', '?')})")
            rest = [x for x in states if x is not spec]
            cj = spec.conds[i:]
            cond, neg = (cj[0] if len(cj) == 1 else App("and", tuple(cj))), None
            x_ = spec
            mid = base.copy()
            mid.conds = list(states[0].conds[:i])
            y_ = self._merge_states(rest, mid, node)
        else:
            g = states[0].conds[i]
            neg = g.args[0] if isinstance(g, App) and g.op == "not" and len(g.args) == 1 else None
            a = [x for x in states if x.conds[i] == g]
            b = [x for x in states if x.conds[i] != g]
            if not b:
                raise AnalysisError(f"paths of an unrolled loop cannot be joined (line {getattr(node, 'lineno', '?')})")
            mid = base.copy()
            mid.conds = list(states[0].conds[:i])
            ba, bb = mid.copy(), mid.copy()
            ba.conds.append(g)
            bb.conds.append(b[0].conds[i])
            fa = self._merge_states(a, ba, node)
            fb = self._merge_states(b, bb, node)
            cond, x_, y_ = (g, fa, fb) if neg is None else (neg, fb, fa)
        merged = State(conds=list(base.conds))
        for k in set(x_.env) | set(y_.env):
            u, v = x_.env.get(k), y_.env.get(k)
            merged.env[k] = phi(cond, u if u is not None else Sym("undef:" + k), v if v is not None else Sym("undef:" + k))
        for k in set(x_.heap) | set(y_.heap):
            u, v = x_.heap.get(k), y_.heap.get(k)
            dflt = App("attr:" + k[1], (k[0],))
            merged.heap[k] = phi(cond, u if u is not None else dflt, v if v is not None else dflt)
        # effects common to both (a shared prefix beyond the base) stay linear
        ta, tb = x_.effects[base_e:], y_.effects[base_e:]
        common = 0
        while common < len(ta) and common < len(tb) and ta[common] is tb[common]:
            common += 1
        merged.effects = list(base.effects[:base_e]) + list(ta[:common])
        if ta[common:] or tb[common:]:
            merged.effects.append(App("eff:if", (cond, App("seq", ta[common:]), App("seq", tb[common:])), node))
        return merged

    def s_While(self, s, st, fr):
        g = self.eval_expr(s.test, st, fr)
        return self._symbolic_loop(s, App("while", (g,), s), st, fr)

    def _symbolic_loop(self, s, it, st, fr):
        assigned = self._assigned_names(s.body)
        rebound = {x.id for b in s.body for x in ast.walk(b) if isinstance(x, ast.Name) and isinstance(x.ctx, ast.Store)}
        # names that are only mutated through (never re-assigned) and merely name a part of a parameter / object state keep their value
        assigned = {n for n in assigned if n in rebound or not is_alias(st.env.get(n))}
        sub = st.copy()
        base_e = len(st.effects)
        for n in assigned:
            if n in sub.env:
                sub.env[n] = App("loopvar", (Const(n), Const(getattr(s, "lineno", 0)), sub.env[n]))
        # heap fields may be modified in the loop: havoc the ones stored inside
        stored_attrs = {x.attr for b in s.body for x in ast.walk(b)
                        if isinstance(x, ast.Attribute) and isinstance(x.ctx, ast.Store)}
        for k in list(sub.heap):
            if k[1] in stored_attrs:
                sub.heap[k] = App("loopvar", (Const(k[1]), Const(getattr(s, "lineno", 0)), sub.heap[k]))
        if isinstance(s, ast.For):
            self.bind_target(s.target, App("elem", (it,), s.iter), sub, fr)
        sub.conds = list(st.conds) + [App("inloop", (it,), s)]
        body_base = sub.copy()
        fall, ex = self.exec_block(s.body, sub, fr)
        # the state an iteration ends in: the fall-through state joined with the states of the `continue` exits (a `continue` under a
        # guard leaves the carried values as they were on that path - `if not isinstance(k, str): continue` guards everything below it)
        iter_end = fall
        conts = [State(x.env, x.heap, x.effects, x.conds) for x in ex if x.kind == "continue"]
        if conts:
            try:
                iter_end = self._merge_states(([fall] if fall is not None else []) + conts, body_base, s)
            except (AnalysisError, IndexError, AttributeError):
                iter_end = fall
        exits = []
        alts = [list(fall.effects[base_e:])] if fall is not None else []
        for x in ex:
            if x.kind in ("return", "raise"):
                exits.append(x)
            else:
                # effects of break/continue paths are alternatives of the loop body
                alts.append(list(x.effects[base_e:]))
        alts = [a for a in alts if a] or [[]]
        if len(alts) == 1:
            body_eff = alts[0]
        else:
            # common prefix stays linear, the rest becomes alternatives
            k = 0
            while all(len(a) > k for a in alts) and all(a[k] is alts[0][k] for a in alts):
                k += 1
            body_eff = list(alts[0][:k]) + [App("eff:alts", [App("seq", a[k:]) for a in alts], s)]
        out = st.copy()
        final_env = iter_end.env if iter_end is not None else sub.env
        # the values the loop carries from one iteration to the next (per-iteration update terms over loopvar(...)): kept with the loop
        # so that a term can be evaluated on concrete data (sa.teval folds them over the items)
        carried = App("carried", [App("kv", (Const(n), final_env.get(n, Sym("undef:" + n)))) for n in sorted(assigned)
                                  if n in sub.env and not (isinstance(s, ast.For) and n in {x.id for x in ast.walk(s.target) if isinstance(x, ast.Name)})])
        out.effects = list(st.effects[:base_e]) + [App("eff:loop", (it, App("seq", body_eff), carried), s)]
        for n in assigned:
            if isinstance(s, ast.For) and n in {x.id for x in ast.walk(s.target) if isinstance(x, ast.Name)}:
                out.env[n] = App("elem", (it,), s.iter)
            else:
                out.env[n] = App("loopout", (Const(n), Const(getattr(s, "lineno", 0)), final_env.get(n, Sym("undef:" + n))))
        final_heap = iter_end.heap if iter_end is not None else sub.heap
        for k, v in final_heap.items():
            if st.heap.get(k) != v:
                out.heap[k] = App("loopout", (Const(k[1]), Const(getattr(s, "lineno", 0)), v))
        if getattr(s, "orelse", None):
            if any(x.kind == "break" for x in ex):
                # for ... else: the else clause runs only when the loop was not left by break
                g = App("loopbroke", (it, Const(getattr(s, "lineno", 0))), s)
                merged, ex2 = self._branch(g, s, out, fr, lambda a: (a, []), lambda b: self.exec_block(s.orelse, b, fr))
                return merged, exits + ex2
            return_state, ex2 = self.exec_block(s.orelse, out, fr)
            return return_state, exits + ex2
        return out, exits

    def s_Try(self, s, st, fr):
        entry = st.copy()
        base_e = len(st.effects)
        fall, exits = self.exec_block(s.body, st, fr)
        out_exits = []
        handled_names = []
        for h in s.handlers:
            handled_names.append(ast.unparse(h.type) if h.type is not None else "BaseException")
        # raises inside the body that a handler of matching name catches are absorbed by that handler
        remaining = []
        for x in exits:
            if x.kind == "raise" and self._handler_catches(x, s.handlers, fr):
                continue
            remaining.append(x)
        out_exits.extend(remaining)
        states = []
        if fall is not None:
            if s.orelse:
                fall, ex = self.exec_block(s.orelse, fall, fr)
                out_exits.extend(ex)
            if fall is not None:
                states.append((None, fall))
        assigned = self._assigned_names(s.body)
        for h in s.handlers:
            hs = entry.copy()
            hname = ast.unparse(h.type) if h.type is not None else "BaseException"
            g = App("exc", (Const(hname), Const(getattr(s, "lineno", 0))), h)
            hs.conds.append(g)
            for n in assigned:
                hs.env[n] = App("maybe_assigned", (Const(n), entry.env.get(n, Sym("undef:" + n))))
            body_effects = (fall.effects[base_e:] if fall is not None else
                            (exits[0].effects[base_e:] if exits else []))
            if body_effects:
                hs.effects.append(App("eff:partial", (App("seq", body_effects),), s))
            if h.name:
                hs.env[h.name] = App("caught", (Const(hname),), h)
            hf, hex_ = self.exec_block(h.body, hs, fr)
            out_exits.extend(hex_)
            if hf is not None:
                states.append((g, hf))
        if s.finalbody:
            new_states = []
            for g, stt in states:
                f2, ex = self.exec_block(s.finalbody, stt, fr)
                out_exits.extend(ex)
                if f2 is not None:
                    new_states.append((g, f2))
            states = new_states
        if not states:
            return None, out_exits
        # merge the normal state with handler states
        cur = states[0][1]
        for g, other in states[1:]:
            merged = State(conds=entry.conds)
            for k in set(cur.env) | set(other.env):
                x, y = cur.env.get(k), other.env.get(k)
                merged.env[k] = phi(g, y if y is not None else Sym("undef:" + k), x if x is not None else Sym("undef:" + k))
            for k in set(cur.heap) | set(other.heap):
                x, y = cur.heap.get(k), other.heap.get(k)
                dflt = App("attr:" + k[1], (k[0],))
                merged.heap[k] = phi(g, y if y is not None else dflt, x if x is not None else dflt)
            ta, tb = other.effects[base_e:], cur.effects[base_e:]
            merged.effects = list(entry.effects[:base_e]) + [App("eff:if", (g, App("seq", ta), App("seq", tb)), s)]
            cur = merged
        cur.conds = list(entry.conds)
        return cur, out_exits

    def _handler_catches(self, x: Exit, handlers, fr) -> bool:
        """Conservative: an explicit raise of a named exception is absorbed only by a handler naming
        the same class, one of its known bases, or Exception/BaseException/bare."""
        name = None
        if isinstance(x.node, ast.Raise) and x.node.exc is not None:
            exc = x.node.exc
            f = exc.func if isinstance(exc, ast.Call) else exc
            name = ast.unparse(f).split(".")[-1]
        for h in handlers:
            if h.type is None:
                return True
            names = [ast.unparse(t).split(".")[-1] for t in (h.type.elts if isinstance(h.type, ast.Tuple) else [h.type])]
            if "Exception" in names or "BaseException" in names:
                return True
            if name is not None and name in names:
                return True
        return False

    def unset_optional_params(self, fi: FuncInfo) -> dict:
        cache = self.__dict__.setdefault("_unset_cache", {})
        if fi.fq in cache:
            return cache[fi.fq]
        a = fi.node.args
        pos = [x.arg for x in a.posonlyargs + a.args]
        defaults = dict(zip(pos[len(pos) - len(a.defaults):], a.defaults)) if a.defaults else {}
        defaults.update({k.arg: d for k, d in zip(a.kwonlyargs, a.kw_defaults) if d is not None})
        cands = {n: Const(d.value) for n, d in defaults.items() if isinstance(d, ast.Constant)}
        # a default that merely names a constant of a module (uuid.NAMESPACE_DNS, a module-level name): its value at definition time
        for n, d in defaults.items():
            if n not in cands and isinstance(d, (ast.Name, ast.Attribute)) and not any(isinstance(x, ast.Call) for x in ast.walk(d)):
                try:
                    cands[n] = self.eval_expr(d, State(), Frame(None, fi.module, None, 0))
                except Exception:
                    pass
        if cands:
            calls = self.__dict__.get("_all_calls")
            if calls is None:
                calls = {}
                for m in self.repo.modules.values():
                    for c in ast.walk(m.tree):
                        if isinstance(c, ast.Call):
                            nm = c.func.attr if isinstance(c.func, ast.Attribute) else c.func.id if isinstance(c.func, ast.Name) else None
                            if nm:
                                calls.setdefault(nm, []).append(c)
                        elif isinstance(c, (ast.Attribute, ast.Name)):
                            pass
                self._all_calls = calls
            decos = [getattr(d, "id", getattr(d, "attr", None)) for d in fi.node.decorator_list]
            bound = 1 if fi.cls is not None and "staticmethod" not in decos else 0
            names = list(dict.fromkeys([fi.name, getattr(fi.node, "name", fi.name)])) + ([fi.cls.name, "cls", "super"] if fi.name == "__init__" and fi.cls is not None else [])
            if not any(calls.get(nm) for nm in names):
                cands = {}   # no call of this function is visible under its name(s): nothing is known about what callers supply
            # the function taken as a value (callback, functools.partial, table entry) may be called with anything
            refs = self.__dict__.get("_value_refs")
            if refs is None:
                refs = set()
                for m in self.repo.modules.values():
                    funcs_ = {id(n.func) for n in ast.walk(m.tree) if isinstance(n, ast.Call)}
                    for n in ast.walk(m.tree):
                        if id(n) in funcs_:
                            continue
                        if isinstance(n, ast.Attribute) and isinstance(n.ctx, ast.Load):
                            refs.add(n.attr)
                        elif isinstance(n, ast.Name) and isinstance(n.ctx, ast.Load):
                            refs.add(n.id)
                self._value_refs = refs
            as_value = fi.name in refs or fi.name.startswith("__") and fi.name != "__init__"
            if as_value:
                cands = {}
            for nm in names:
                for c in calls.get(nm, []) if cands else []:
                    if any(isinstance(x, ast.Starred) for x in c.args) or any(k.arg is None for k in c.keywords):
                        cands = {}
                        break
                    alias = getattr(fi, "kw_alias", None) or {}
                    known = set(pos) | {x.arg for x in a.kwonlyargs}
                    for k in c.keywords:
                        kn = alias.get(k.arg, k.arg)
                        if kn not in known:
                            # a keyword this function does not declare (a parameter renamed at the call sites, another function of
                            # the same name): nothing can be said about which parameters are supplied
                            cands = {}
                            break
                        cands.pop(kn, None)
                    if not cands:
                        break
                    for n in list(cands):
                        if n in pos and len(c.args) > pos.index(n) - bound:
                            cands.pop(n, None)
        cache[fi.fq] = cands
        return cands

    # ------------------------------------------------------------------ entry
    def run_function(self, fi: FuncInfo, args: Optional[dict] = None, self_cls: Optional[ClassInfo] = None,
                     heap: Optional[dict] = None, exact: bool = False):
        """Evaluate a function with symbolic parameters. Returns (fall-through state, exits)."""
        env = {}
        a = fi.node.args
        for x in a.posonlyargs + a.args + a.kwonlyargs:
            env[x.arg] = Sym("param:" + x.arg)
        if a.vararg:
            env[a.vararg.arg] = Sym("param:" + a.vararg.arg)
        if a.kwarg:
            env[a.kwarg.arg] = Sym("param:" + a.kwarg.arg)
        # an optional parameter with a constant default that no call in the analysed packages supplies always holds that default
        # inside the program (a parameter added for callers that do not exist yet does not change what the tool does)
        for n_, v_ in self.unset_optional_params(fi).items():
            env[n_] = v_
        if args:
            env.update(args)
        st = State(env, heap or {})
        fr = Frame(fi, fi.module, self_cls or fi.cls, 0, exact=exact)
        fall, exits = self.exec_block(fi.node.body, st, fr)
        return fall, exits

    def outcomes(self, fi: FuncInfo, **kw):
        """All terminal outcomes (returns incl. implicit, raises) of a function."""
        fall, exits = self.run_function(fi, **kw)
        outs = [x for x in exits if x.kind in ("return", "raise")]
        if fall is not None:
            outs.append(Exit("return", Const(None), fall.conds, fall.effects, fi.node, fall.heap, fall.env))
        return outs

    def const(self, expr: ast.AST, mod: Mod):
        """Fold an expression to a Python constant or raise AnalysisError."""
        t = self.eval_expr(expr, State(), Frame(None, mod, None, 0))
        if not isinstance(t, Const):
            raise AnalysisError(f"expression is not constant: {ast.unparse(expr)[:80]} -> {t!r}"[:300])
        return t.v

    def term(self, expr: ast.AST, mod: Mod) -> Term:
        return self.eval_expr(expr, State(), Frame(None, mod, None, 0))


def flatten_effects(effects, choose_loops=True, twice=False):
    """Enumerate linear effect sequences through nested eff:if / eff:loop / eff:partial structures.
    Loops are taken zero times and once (and twice with ``twice=True``, for order rules across iterations)."""
    def go(seq):
        if not seq:
            yield []
            return
        head, rest = seq[0], seq[1:]
        if isinstance(head, App) and head.op == "eff:if":
            for branch in (head.args[1].args, head.args[2].args):
                for pre in go(list(branch)):
                    for post in go(rest):
                        yield pre + post
        elif isinstance(head, App) and head.op == "eff:loop":
            for post in go(rest):
                yield list(post)
            for pre in go(list(head.args[1].args)):
                for post in go(rest):
                    yield [App("eff:loop_enter", (head.args[0],), head.node)] + pre + [App("eff:loop_exit", (head.args[0],), head.node)] + post
            if twice:
                for pre in go(list(head.args[1].args)):
                    for pre2 in go(list(head.args[1].args)):
                        for post in go(rest):
                            yield pre + pre2 + post
        elif isinstance(head, App) and head.op == "eff:partial":
            for pre in go(list(head.args[0].args)):
                for post in go(rest):
                    yield pre + post
        elif isinstance(head, App) and head.op == "eff:alts":
            for alt in head.args:
                for pre in go(list(alt.args)):
                    for post in go(rest):
                        yield pre + post
        else:
            for post in go(rest):
                yield [head] + post

    yield from go(list(effects))


def all_effects(effects):
    """Every primitive effect regardless of path (descends into if / loop / partial)."""
    for e in effects:
        if isinstance(e, App) and e.op == "eff:if":
            yield from all_effects(e.args[1].args)
            yield from all_effects(e.args[2].args)
        elif isinstance(e, App) and e.op == "eff:loop":
            yield from all_effects(e.args[1].args)
        elif isinstance(e, App) and e.op == "eff:partial":
            yield from all_effects(e.args[0].args)
        elif isinstance(e, App) and e.op == "eff:alts":
            for alt in e.args:
                yield from all_effects(alt.args)
        else:
            yield e
