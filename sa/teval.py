"""Helpers on terms: evaluation of a term under a finite assignment of its symbols (used to expand
decision tables against a reference table) and linear normal forms for comparisons."""
from __future__ import annotations

from fractions import Fraction

from .terms import App, Const, Ref, Sym, Term


import string as _string

_EXT_CONSTS = {"string.hexdigits": _string.hexdigits, "string.digits": _string.digits, "string.ascii_letters": _string.ascii_letters}


def _iterate(it, env):
    """Environments for the items of an iterable term: elem(it) bound to the item; for zip(xs, ys) / enumerate(xs) the elements of the
    zipped sequences (position(xs)) are bound as the abstract evaluator names them."""
    if isinstance(it, App) and it.op == "call:zip" and len(it.args) >= 2:
        seqs = [list(teval(x, env)) for x in it.args]
        for items in zip(*seqs):
            e2 = dict(env)
            e2[App("elem", (it,))] = tuple(items)
            for x, v in zip(it.args, items):
                e2[App("elem", (x,))] = v
            yield e2
        return
    if isinstance(it, App) and it.op == "call:enumerate" and len(it.args) in (1, 2):
        start = teval(it.args[1], env) if len(it.args) == 2 else 0
        for i, v in enumerate(list(teval(it.args[0], env))):
            e2 = dict(env)
            e2[App("elem", (it,))] = (i + start, v)
            e2[App("elem", (it.args[0],))] = v
            e2[App("position", (it.args[0],))] = i
            yield e2
        return
    el = App("elem", (it,))
    for item in teval(it, env):
        yield {**env, el: item}


def _subterms(t):
    yield t
    if isinstance(t, App):
        for x in t.args:
            yield from _subterms(x)


class CBORTag:
    """Stand-in for a decoded CBOR tag in sample values (same attribute names as the decoder's class)."""

    def __init__(self, tag, value):
        self.tag = tag
        self.value = value


class _BoundStandIn:
    """self.<method> taken as a value, with the caller's stand-in behind it (equal to the same method taken elsewhere)."""

    def __init__(self, name, fn):
        self.name, self.fn = name, fn

    def __call__(self, *args):
        return self.fn(None, *args)

    def __eq__(self, other):
        return isinstance(other, _BoundStandIn) and other.name == self.name

    def __hash__(self):
        return hash(("bound", self.name))

    def __repr__(self):
        return f"<bound {self.name}>"


class Stub:
    """A stand-in object for evaluation: any method call on it returns a record of the call."""

    def __init__(self, tag):
        self.tag = tag

    def __repr__(self):
        return f"<{self.tag}>"

    def __eq__(self, other):
        return isinstance(other, Stub) and other.tag == self.tag

    def __hash__(self):
        return hash(("Stub", self.tag))


class Unknown(Exception):
    pass


class Raised(Exception):
    """The evaluated term is a 'raises' marker."""


def teval(t: Term, env: dict):
    """Evaluate ``t`` with symbols bound by ``env`` (keys: Sym names or whole terms). Raises Unknown."""
    if t in env:
        return env[t]
    if isinstance(t, Const):
        return t.v
    if isinstance(t, Sym):
        if t.name in env:
            return env[t.name]
        raise Unknown(f"unbound {t}")
    if isinstance(t, Ref):
        if t.kind == "ext" and t.obj in _EXT_CONSTS:
            return _EXT_CONSTS[t.obj]
        raise Unknown(f"ref {t}")
    op, a = t.op, t.args
    ev = lambda x: teval(x, env)
    if op == "phi":
        return ev(a[1]) if ev(a[0]) else ev(a[2])
    if op == "not":
        return not ev(a[0])
    if op == "neg":
        return -ev(a[0])
    if op == "inv":
        return ~ev(a[0])
    if op == "truth":
        return bool(ev(a[0]))
    if op == "and":
        v = True
        for x in a:
            v = ev(x)
            if not v:
                return v
        return v
    if op == "or":
        v = False
        for x in a:
            v = ev(x)
            if v:
                return v
        return v
    if op == "is":
        l, r = ev(a[0]), ev(a[1])
        return l is r if (l is None or r is None or isinstance(l, bool) or isinstance(r, bool)) else l == r
    if op == "is not":
        l, r = ev(a[0]), ev(a[1])
        return not (l is r if (l is None or r is None or isinstance(l, bool) or isinstance(r, bool)) else l == r)
    binops = {"==": lambda x, y: x == y, "!=": lambda x, y: x != y, "<": lambda x, y: x < y, "<=": lambda x, y: x <= y,
              ">": lambda x, y: x > y, ">=": lambda x, y: x >= y, "+": lambda x, y: x + y, "-": lambda x, y: x - y,
              "*": lambda x, y: x * y, "//": lambda x, y: x // y, "%": lambda x, y: x % y, "/": lambda x, y: x / y,
              "<<": lambda x, y: x << y, ">>": lambda x, y: x >> y, "&": lambda x, y: x & y, "|": lambda x, y: x | y,
              "in": lambda x, y: x in y, "not in": lambda x, y: x not in y}
    if op in binops:
        try:
            return binops[op](ev(a[0]), ev(a[1]))
        except Unknown:
            raise
        except Exception as e:
            raise Unknown(f"{op}: {e}")
    if op == "cat":
        parts = [ev(x) for x in a]
        out = parts[0]
        for p in parts[1:]:
            out = out + p
        return out
    if op == "byte":
        return bytes([ev(a[0])])
    if op == "repeat":
        return ev(a[0]) * ev(a[1])
    if op == "len":
        return len(ev(a[0]))
    if op == "idx":
        try:
            return ev(a[0])[ev(a[1])]
        except Unknown:
            raise
        except Exception as e:
            raise Unknown(f"idx: {e}")
    if op == "meth:to_bytes":
        return ev(a[0]).to_bytes(*[ev(x) for x in a[1:]])
    if op in ("meth:bit_length", "meth:bit_count") and len(a) == 1:
        v_ = ev(a[0])
        if not isinstance(v_, int):
            raise Unknown(f"{op} of {type(v_).__name__}")
        return getattr(v_, op[5:])()
    if op in ("meth:ljust", "meth:rjust", "meth:zfill", "meth:center"):
        return getattr(ev(a[0]), op[5:])(*[ev(x) for x in a[1:]])
    if op in ("call:struct.pack", "call:struct.calcsize", "call:struct.Struct") or (
            op in ("meth:pack", "attr:size") and a and isinstance(a[0], App) and a[0].op == "call:struct.Struct"):
        import struct as _struct

        def flat(xs):
            out_ = []
            for x in xs:
                if isinstance(x, Const) and isinstance(x.v, tuple) and x.v[:1] == ("site",):
                    continue
                if isinstance(x, App) and x.op == "star" and len(x.args) == 1:
                    out_.extend(list(ev(x.args[0])))
                else:
                    out_.append(ev(x))
            return out_

        def portable(args):
            # native byte order / alignment ('@', '=' or no prefix) depends on the machine the code runs on: not a value
            if not (args and isinstance(args[0], (str, bytes)) and args[0][:1] in ("<", ">", "!", b"<", b">", b"!")):
                raise Unknown("struct format in native byte order: host dependent")
            return args
        try:
            if op == "call:struct.pack":
                return _struct.pack(*portable(flat(a)))
            if op == "call:struct.calcsize":
                return _struct.calcsize(*portable(flat(a)))
            if op == "call:struct.Struct":
                return _struct.Struct(*portable(flat(a)))
            if op == "attr:size":
                return ev(a[0]).size
            return ev(a[0]).pack(*flat(a[1:]))
        except Unknown:
            raise
        except Exception as e:
            raise Unknown(f"{op}: {e}")
    if op.startswith("meth:") and a and not (isinstance(a[0], Const)):
        try:
            r0 = ev(a[0])
        except Unknown:
            r0 = None
        import pathlib as _pl
        if isinstance(r0, _pl.PurePath) and op[5:] in ("with_suffix", "with_name", "with_stem", "joinpath", "as_posix", "relative_to", "is_absolute"):
            try:
                return getattr(r0, op[5:])(*[ev(x) for x in a[1:]])
            except Unknown:
                raise
            except Exception as e:
                raise Unknown(f"{op}: {e}")
        if isinstance(r0, Stub):
            return (op[5:], r0.tag) + tuple(ev(x) for x in a[1:])
        if op == "meth:pop" and isinstance(r0, list) and len(a) <= 2:
            try:
                return r0[ev(a[1])] if len(a) == 2 else r0[-1]
            except IndexError as e:
                raise Unknown(f"pop: {e}")
        if op == "meth:pop" and isinstance(r0, dict) and len(a) in (2, 3):
            k_ = ev(a[1])
            if k_ in r0:
                return r0[k_]
            if len(a) == 3:
                return ev(a[2])
            raise Unknown("pop of a missing key")
    if op == "meth:get":
        return ev(a[0]).get(*[ev(x) for x in a[1:]])
    if op.startswith("meth:") and op[5:] in ("startswith", "endswith", "lower", "upper", "strip", "replace", "split", "hex",
                                               "encode", "decode", "isnumeric", "isdigit", "isdecimal", "isalpha", "isalnum", "count", "find", "join", "zfill", "lstrip", "rstrip",
                                               "removeprefix", "removesuffix", "title", "capitalize", "partition", "rpartition", "rsplit", "splitlines",
                                               "index", "rfind", "isspace", "islower", "isupper", "casefold", "center", "rjust", "swapcase", "format"):
        try:
            return getattr(ev(a[0]), op[5:])(*[ev(x) for x in a[1:]])
        except Unknown:
            raise
        except Exception as e:
            raise Unknown(f"{op}: {e}")
    if op in ("call:codecs.decode", "call:codecs.encode"):
        import codecs as _codecs
        pos = [ev(x) for x in a if not (isinstance(x, App) and x.op == "kw")]
        kws = {x.args[0].v: ev(x.args[1]) for x in a if isinstance(x, App) and x.op == "kw"}
        try:
            return getattr(_codecs, op.split(".")[-1])(*pos, **kws)
        except Exception as e:
            raise Unknown(f"{op}: {e}")
    if op in ("str", "call:str"):
        return str(ev(a[0]))
    if op == "call:int":
        pos = [x for x in a if not (isinstance(x, App) and x.op == "kw")]
        kws = {x.args[0].v: ev(x.args[1]) for x in a if isinstance(x, App) and x.op == "kw"}
        try:
            return int(*[ev(x) for x in pos], **kws)
        except Unknown:
            raise
        except Exception as e:
            raise Unknown(f"int: {e}")
    if op == "call:math.ceil":
        import math
        return math.ceil(ev(a[0]))
    if op == "isinstance" and len(a) == 2:
        types = {"int": int, "str": str, "bytes": bytes, "list": list, "dict": dict, "tuple": tuple, "bool": bool, "float": float, "set": set}
        refs = a[1].args if isinstance(a[1], App) and a[1].op == "tuple" else [a[1]]
        types["frozenset"] = frozenset
        types["bytearray"] = bytearray
        ts = []
        for r in refs:
            if isinstance(r, Ref) and r.kind == "builtin" and r.obj in types:
                ts.append(types[r.obj])
            elif isinstance(r, Ref) and r.kind == "ext" and r.obj in ("collections.abc.Mapping", "typing.Mapping"):
                from collections.abc import Mapping as _Mapping
                ts.append(_Mapping)
            elif isinstance(r, Ref) and r.kind == "ext" and r.obj == "decimal.Decimal":
                from decimal import Decimal as _Decimal
                ts.append(_Decimal)
            elif isinstance(r, Ref) and r.kind == "ext" and r.obj == "cbor2.CBORTag":
                ts.append(CBORTag)  # the stand-in below (the library itself is never imported by the checker)
            else:
                raise Unknown(f"isinstance against {r}")
        return isinstance(ev(a[0]), tuple(ts))
    if op == "slice":
        try:
            return ev(a[0])[ev(a[1]):ev(a[2]):ev(a[3])]
        except Unknown:
            raise
        except Exception as e:
            raise Unknown(f"slice: {e}")
    if op in ("call:all", "call:any") and len(a) == 1 and isinstance(a[0], App) and a[0].op in ("comp:gen", "comp:list") and len(a[0].args) == 3:
        body, it, conds = a[0].args
        vals = []
        for env2 in _iterate(it, env):
            if all(teval(c, env2) for c in conds.args):
                vals.append(bool(teval(body, env2)))
        return all(vals) if op == "call:all" else any(vals)
    if op == "unpack" and len(a) == 3:
        seq = list(ev(a[0]))
        if len(seq) != ev(a[2]):
            raise Unknown("unpack: length mismatch")
        return seq[ev(a[1])]
    if op in ("call:re.findall", "call:re.split") and len(a) == 2:
        import re as _re
        try:
            return getattr(_re, op.split(".")[-1])(ev(a[0]), ev(a[1]))
        except Unknown:
            raise
        except Exception as e:
            raise Unknown(f"{op}: {e}")
    if op in ("call:re.sub",) and len(a) == 3:
        import re as _re
        try:
            return _re.sub(ev(a[0]), ev(a[1]), ev(a[2]))
        except Unknown:
            raise
        except Exception as e:
            raise Unknown(f"{op}: {e}")
    if op in ("call:all", "call:any") and len(a) == 1:
        try:
            vals_ = list(ev(a[0]))
        except Unknown:
            raise
        except Exception as e:
            raise Unknown(f"{op}: {e}")
        return all(vals_) if op == "call:all" else any(vals_)
    if op in ("call:re.match", "call:re.fullmatch", "call:re.search") and len(a) >= 2:
        import re as _re
        try:
            return getattr(_re, op.split(".")[-1])(ev(a[0]), ev(a[1]))
        except Unknown:
            raise
        except Exception as e:
            raise Unknown(f"{op}: {e}")
    if op in ("meth:groups", "meth:group", "meth:groupdict"):
        try:
            return getattr(ev(a[0]), op[5:])(*[ev(x) for x in a[1:]])
        except Unknown:
            raise
        except Exception as e:
            raise Unknown(f"{op}: {e}")
    if op in ("comp:list", "comp:gen") and len(a) == 3:
        body, it, conds = a
        out = []
        for env2 in _iterate(it, env):
            if all(teval(c, env2) for c in conds.args):
                out.append(teval(body, env2))
        return out
    if op in ("call:sum", "call:min", "call:max", "call:len", "call:sorted", "call:reversed", "call:abs") and len(a) >= 1:
        import builtins as _b
        vals = [ev(x) for x in a]
        try:
            r_ = getattr(_b, op[5:])(*vals)
            return list(r_) if op == "call:reversed" else r_
        except Unknown:
            raise
        except Exception as e:
            raise Unknown(f"{op}: {e}")
    if op == "call:range" and 1 <= len(a) <= 3:
        return range(*[ev(x) for x in a])
    if op == "call:zip":
        return list(zip(*[ev(x) for x in a]))
    if op == "call:enumerate" and len(a) in (1, 2):
        return list(enumerate(ev(a[0]), *( [ev(a[1])] if len(a) == 2 else [])))
    if op == "loopout" and len(a) == 3 and "__loops__" in env:
        # the value a name has after a loop: fold the per-iteration values of all names the loop carries over the items of the
        # loop's iterable.  `for x in xs` where the body mutates xs itself walks the live list by index, as Python does.
        name, line, val = a
        info = env["__loops__"].get(line.v)
        if info is None:
            raise Unknown("loop not known")
        it, iter_name = info
        carried = dict(env.get("__loopouts__", {}).get(line.v, {}))
        carried[name.v] = val
        inits, states = {}, {}
        for n_, v_ in carried.items():
            lvs = [s_ for s_ in _subterms(v_) if isinstance(s_, App) and s_.op == "loopvar" and s_.args[1] == line]
            for lv in lvs:
                inits.setdefault(lv.args[0].v, []).append(lv)
        for n_, lvs in inits.items():
            states[n_] = ev(lvs[0].args[2])
        if name.v not in states:
            raise Unknown("loop-carried value without its initial value")
        live = iter_name is not None and iter_name in states and iter_name in carried and inits[iter_name][0].args[2] == it
        fixed = None if live else list(_iterate(it, env))
        el = App("elem", (it,))
        i = 0
        while True:
            seq = states[iter_name] if live else fixed
            if i >= len(seq) or i > 10000:
                break
            item = seq[i]
            i += 1
            env2 = {**env, el: item} if live else dict(item)
            for n_, lvs in inits.items():
                for lv in lvs:
                    env2[lv] = states[n_]
            new = {}
            for n_ in states:
                new[n_] = teval(carried[n_], env2) if n_ in carried else states[n_]
            states = new
        return states[name.v]
    if op == "mutated" and len(a) >= 2 and isinstance(a[1], Const):
        base = ev(a[0])
        args = [ev(x) for x in a[2:]]
        try:
            if isinstance(base, list):
                new = list(base)
            elif isinstance(base, dict):
                new = dict(base)
            elif isinstance(base, set):
                new = set(base)
            else:
                raise Unknown(f"mutated {type(base).__name__}")
            getattr(new, a[1].v)(*args)
            return new
        except Unknown:
            raise
        except Exception as e:
            raise Unknown(f"mutated: {e}")
    if op in ("meth:keys", "meth:values", "meth:items") and len(a) == 1:
        try:
            return list(getattr(ev(a[0]), op[5:])())
        except Unknown:
            raise
        except Exception as e:
            raise Unknown(f"{op}: {e}")
    if op in ("listof", "call:list", "call:sorted", "call:tuple", "tupleof", "call:dict", "call:set") and len(a) == 1:
        f = {"listof": list, "call:list": list, "call:sorted": sorted, "call:tuple": tuple, "tupleof": tuple, "call:dict": dict, "call:set": set}[op]
        try:
            return f(ev(a[0]))
        except Unknown:
            raise
        except Exception as e:
            raise Unknown(f"{op}: {e}")
    if op in ("call:pathlib.Path", "call:Path", "call:pathlib.PurePath") and a:
        import pathlib as _pl
        pos = [x for x in a if not (isinstance(x, Const) and isinstance(x.v, tuple) and x.v[:1] == ("site",))]
        try:
            return _pl.PurePosixPath(*[ev(x) for x in pos])
        except Unknown:
            raise
        except Exception as e:
            raise Unknown(f"Path: {e}")
    if op in ("attr:suffix", "attr:name", "attr:stem", "attr:parent") and len(a) == 1:
        v_ = ev(a[0])
        import pathlib as _pl
        if not isinstance(v_, _pl.PurePath):
            raise Unknown(f"{op} of a non-path")
        return getattr(v_, op[5:])
    if op == "lambda" and len(a) == 3:
        names, body = a[1].v, a[2]

        def _fn(*vals):
            if len(vals) != len(names):
                raise Unknown("lambda arity")
            return teval(body, {**env, **{"lamparam:" + n_: v_ for n_, v_ in zip(names, vals)}})
        return _fn
    def _arg(x):
        # with env["__opaque_args__"], an argument that has no value here is handed to a stand-in as an opaque object
        if not env.get("__opaque_args__"):
            return ev(x)
        try:
            return ev(x)
        except Unknown:
            return Stub("opaque")
    if op == "bound" and len(a) == 2 and isinstance(a[0], Ref) and a[0].kind == "func" and a[0].obj.name in env.get("__calls__", {}):
        # a method of the repository taken as a value (self.m): the stand-in given for it, bound
        fn_ = env["__calls__"][a[0].obj.name]
        return _BoundStandIn(a[0].obj.name, fn_)
    if op == "call" and a and not isinstance(a[0], Ref):
        f_ = ev(a[0])
        if callable(f_):
            return f_(*[_arg(x) for x in a[1:]])
        raise Unknown("call of a non-function")
    if op in ("bytes", "call:bytes") and len(a) == 1:
        v_ = ev(a[0])
        try:
            if isinstance(v_, int) and not isinstance(v_, bool):
                if v_ > 10_000_000:
                    raise Unknown("bytes(n) too large")
                return bytes(v_)
            return bytes(v_)
        except Unknown:
            raise
        except Exception as e:
            raise Unknown(f"bytes: {e}")
    if op == "cbor" and len(a) == 1:
        from . import cbor_mini
        try:
            return cbor_mini.dumps(ev(a[0]))
        except Unknown:
            raise
        except Exception as e:
            raise Unknown(f"cbor: {e}")
    if op == "fmt" and len(a) in (2, 3):
        try:
            v_ = ev(a[0])
            conv = ev(a[2]) if len(a) == 3 else -1
            v_ = {114: repr, 115: str, 97: ascii}[conv](v_) if conv in (114, 115, 97) else v_
            return format(v_, ev(a[1]) or "")
        except Unknown:
            raise
        except Exception as e:
            raise Unknown(f"fmt: {e}")
    if op == "call" and a and isinstance(a[0], Ref) and a[0].kind == "func" and a[0].obj.name in env.get("__calls__", {}):
        # a repository function the caller of teval has given a stand-in for (an opaque callee of the evaluated function)
        args = []
        for x in a[1:]:
            args.append(None if isinstance(x, Sym) and x.name in ("param:self", "param:cls") else _arg(x))
        return env["__calls__"][a[0].obj.name](*args)
    if op == "dict" and all(isinstance(kv_, App) and kv_.op == "kv" and len(kv_.args) == 2 for kv_ in a):
        # a mapping literal: the keys must have values; a value that has none here (a library object, ...) is an opaque object
        d_ = {}
        for kv_ in a:
            try:
                v_ = ev(kv_.args[1])
            except Unknown:
                v_ = Stub("opaque:" + repr(kv_.args[1])[:40])
            try:
                d_[ev(kv_.args[0])] = v_
            except TypeError as e:
                raise Unknown(f"dict: {e}")
        return d_
    if op == "list":
        out_ = []
        for x in a:
            if isinstance(x, App) and x.op == "star" and len(x.args) == 1:
                out_.extend(list(ev(x.args[0])))
            else:
                out_.append(ev(x))
        return out_
    if op in ("attr:value", "attr:tag") and len(a) == 1:
        v_ = ev(a[0])
        if type(v_).__name__ == "CBORTag":
            return getattr(v_, op[5:])
        raise Unknown(f"{op} of {type(v_).__name__}")
    if op == "call:id" and len(a) == 1:
        return id(ev(a[0]))
    if op == "tuple":
        return tuple(ev(x) for x in a)
    if op == "raises":
        raise Raised()
    raise Unknown(f"op {op}")


# ---------------------------------------------------------------------------------------------
def linear(t: Term):
    """Linear normal form of an integer-valued term: ({atom term: coeff}, const) or None."""
    if isinstance(t, Const):
        if isinstance(t.v, bool) or not isinstance(t.v, int):
            return None
        return ({}, t.v)
    if isinstance(t, App) and t.op in ("+", "-"):
        l, r = linear(t.args[0]), linear(t.args[1])
        if l is None or r is None:
            return None
        sign = 1 if t.op == "+" else -1
        co = dict(l[0])
        for k, v in r[0].items():
            co[k] = co.get(k, 0) + sign * v
        return ({k: v for k, v in co.items() if v != 0}, l[1] + sign * r[1])
    if isinstance(t, App) and t.op == "neg":
        l = linear(t.args[0])
        return None if l is None else ({k: -v for k, v in l[0].items()}, -l[1])
    if isinstance(t, App) and t.op == "*":
        l, r = linear(t.args[0]), linear(t.args[1])
        if l is None or r is None:
            return None
        if not l[0]:
            return ({k: v * l[1] for k, v in r[0].items() if v * l[1] != 0}, r[1] * l[1])
        if not r[0]:
            return ({k: v * r[1] for k, v in l[0].items() if v * r[1] != 0}, l[1] * r[1])
        return ({t: 1}, 0)
    return ({t: 1}, 0)


def lin_sub(a, b):
    co = dict(a[0])
    for k, v in b[0].items():
        co[k] = co.get(k, 0) - v
    return ({k: v for k, v in co.items() if v != 0}, a[1] - b[1])


def ge0_form(cmp: Term):
    """Normalise an integer comparison into  expr >= 0  (returns the linear expr) or None."""
    if not (isinstance(cmp, App) and cmp.op in ("<", "<=", ">", ">=")):
        return None
    l, r = linear(cmp.args[0]), linear(cmp.args[1])
    if l is None or r is None:
        return None
    if cmp.op == "<":   # l < r  <=>  r - l - 1 >= 0
        d = lin_sub(r, l)
        return (d[0], d[1] - 1)
    if cmp.op == "<=":
        return lin_sub(r, l)
    if cmp.op == ">":
        d = lin_sub(l, r)
        return (d[0], d[1] - 1)
    return lin_sub(l, r)


def lin_key(le):
    """Hashable key of a linear expression."""
    return (tuple(sorted(((repr(k), v) for k, v in le[0].items()))), le[1])


def negate_cmp(cmp: Term):
    inv = {"<": ">=", "<=": ">", ">": "<=", ">=": "<", "==": "!=", "!=": "=="}
    if isinstance(cmp, App) and cmp.op in inv:
        return App(inv[cmp.op], cmp.args, cmp.node)
    return App("not", (cmp,))


def disjuncts(t: Term):
    if isinstance(t, App) and t.op == "or":
        out = []
        for a in t.args:
            out.extend(disjuncts(a))
        return out
    if isinstance(t, App) and t.op == "not" and isinstance(t.args[0], App) and t.args[0].op == "and":
        out = []
        for a in t.args[0].args:
            out.extend(disjuncts(negate_cmp(a) if isinstance(a, App) and a.op in ("<", "<=", ">", ">=") else App("not", (a,))))
        return out
    if isinstance(t, App) and t.op == "not" and isinstance(t.args[0], App) and t.args[0].op in ("<", "<=", ">", ">="):
        return [negate_cmp(t.args[0])]
    return [t]
