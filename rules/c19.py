"""C19 — NCS templates yield consistent dependency wiring for every image set (abstract interpretation of the templates)."""
from __future__ import annotations

import ast
import json
from itertools import product

import yaml

from sa.absint import Evaluator
from sa.index import AnalysisError
from sa.jinja_ai import NotModelled
from sa.terms import Sym
from sa.jinja_ai import ConfigMap, Image, JinjaAI, UNDEF
from sa.schema import KeyRef, TypeRef

EXPLANATION = ("the Jinja AST of each shipped template (parsed, never rendered by jinja2) is interpreted over all "
               "configurations of its `is defined` atoms with placeholder tokens for image names / folders / configured "
               "names; the resulting YAML (parsed with the yaml parser only) is type-checked against the schema graph "
               "extracted from the encoder, and a manifest walk checks component indices, dependency components, URI <-> "
               "integrated dependency <-> digest source wiring and installed-manifest identifiers; configuration space "
               "enumerated completely; no repository code executed")

NOTES = set()
LOADER = getattr(yaml, "CSafeLoader", yaml.SafeLoader)
ROOT = "ncs/root_with_nordic_top_envelope.yaml.jinja2"
TOP = "ncs/nordic_top_envelope.yaml.jinja2"
NUM = {"APP_ROOT_SEQ_NUM": 700001, "DEFAULT_SEQ_NUM": 700002, "NORDIC_TOP_SEQ_NUM": 700003}
VER = {"APP_ROOT_VERSION": "7.1.1", "DEFAULT_VERSION": "7.2.2-rc.1", "NORDIC_TOP_VERSION": "7.3.3"}
MPI_KEYS = ["SB_CONFIG_SUIT_MPI_ROOT_VENDOR_NAME", "SB_CONFIG_SUIT_MPI_ROOT_CLASS_NAME", "SB_CONFIG_SUIT_MPI_APP_LOCAL_1_VENDOR_NAME",
            "SB_CONFIG_SUIT_MPI_APP_LOCAL_1_CLASS_NAME", "SB_CONFIG_SUIT_MPI_RAD_LOCAL_1_VENDOR_NAME", "SB_CONFIG_SUIT_MPI_RAD_LOCAL_1_CLASS_NAME"]


# ---------------------------------------------------------------------------------------------- acceptor
class Acceptor:
    """Static model of from_obj acceptance, driven by the schema graph (generic nodes) plus the reviewed custom nodes."""

    CUSTOM = {"SuitUUID", "SuitImageSize", "SuitDigestExt", "SuitComponentVersion", "SuitIntegratedPayloadMap", "SuitEncryptionInfoExt",
              "SuitHeaderMapOptional"}

    def __init__(self, ctx):
        self.ctx = ctx
        self.S = ctx.schema
        self.repo = ctx.repo
        self.hash_names = {k.name for k in self.S.metadata_of(self.repo.cls("suit_generator.suit.security", "SuitCoseHashAlg")).children}
        # every class with its own from_obj outside the generic module must be in the reviewed table
        for ci in self.S.reachable():
            if "from_obj" in ci.methods and ci.module.name != "suit_generator.suit.types.common" and ci.name not in self.CUSTOM:
                raise AnalysisError(f"custom from_obj of {ci.fq} has no acceptance model")

    def own_validators_reject(self, ci, obj, path):
        """Checks a class adds in its own from_obj / __init__ (beyond the generic node it derives from), evaluated on the concrete
        rendered value: a raise whose guard holds for this value means create refuses what the template renders."""
        from sa.teval import Raised, Unknown, teval
        if not hasattr(self, "_val_cache"):
            self._val_cache = {}
            self._ev0 = Evaluator(self.repo, inline_depth=0)
        errs = []
        for mname in ("from_obj", "__init__"):
            m = ci.methods.get(mname)
            if m is None:
                continue
            params = [a.arg for a in m.node.args.args if a.arg not in ("self", "cls")]
            if len(params) != 1:
                continue
            key = (m.fq, repr(obj))
            if key not in self._val_cache:
                res = None
                try:
                    for o in self._ev0.outcomes(m):
                        if o.kind != "raise" or not o.conds:
                            continue
                        try:
                            if all(bool(teval(c, {Sym("param:" + params[0]): obj})) for c in o.conds):
                                res = f"{ci.name}.{mname} raises for {obj!r}"
                                break
                        except (Unknown, Raised, Exception):
                            continue
                except AnalysisError:
                    res = None
                self._val_cache[key] = res
            if self._val_cache[key]:
                errs.append(f"{path}: {self._val_cache[key]}")
        return errs

    def check(self, tr: TypeRef, obj, path="") -> list:
        ci = tr.cls
        if ci is None:
            return [f"{path}: unresolved type"]
        name = ci.name
        if name not in self.CUSTOM and isinstance(obj, (int, str, list, dict, bool, type(None))):
            e0 = self.own_validators_reject(ci, obj, path)
            if e0:
                return e0
        if name in self.CUSTOM:
            return getattr(self, "c_" + name)(obj, path)
        kind = self.S.kind(ci)
        mi = self.S.metadata_of(ci)
        if kind in ("kv", "pair"):
            if not isinstance(obj, dict):
                return [f"{path}: expected a mapping for {name}, found {type(obj).__name__}"]
            errs = []
            table = {k.name: v for k, v in mi.map if isinstance(k, KeyRef)}
            if kind == "pair" and len(obj) != 1:
                errs.append(f"{path}: a command must have exactly one key, found {list(obj)}")
            for k, v in obj.items():
                if k not in table:
                    errs.append(f"{path}: name {k!r} is not in the key space of {name}")
                else:
                    errs += self.check(table[k], v, f"{path}/{k}")
            return errs
        if kind == "umap":
            if not isinstance(obj, dict):
                return [f"{path}: expected a mapping for {name}"]
            errs = []
            for k, v in obj.items():
                ok = False
                last = []
                for kt, vt in mi.map:
                    cands = []
                    if isinstance(k, str):
                        try:
                            cands.append(json.loads(k))
                        except ValueError:
                            pass
                    cands.append(k)
                    for kc in cands:
                        if not self.check(kt, kc, path) :
                            e = self.check(vt, v, f"{path}/{k}")
                            if not e:
                                ok = True
                            last = e
                            break
                    if ok:
                        break
                if not ok:
                    errs.append(f"{path}: entry {k!r} is accepted by no key/value alternative of {name} ({last[:1]})")
            return errs
        if kind == "array":
            if not isinstance(obj, dict):
                return [f"{path}: expected a mapping for tuple {name}"]
            errs = []
            for k, v in mi.map:
                if k in obj:
                    errs += self.check(v, obj[k], f"{path}/{k}")
                elif isinstance(k, str) and k.endswith("*"):
                    for sk in [x for x in obj if x.startswith(k[:-1])]:
                        errs += self.check(v, obj[sk], f"{path}/{sk}")
                else:
                    errs.append(f"{path}: missing {k!r} in {name}")
            return errs
        if kind == "list":
            if not isinstance(obj, list):
                return [f"{path}: expected a list for {name}, found {type(obj).__name__}"]
            ch = [c for c in mi.children if isinstance(c, TypeRef)]
            errs = []
            for i, x in enumerate(obj):
                errs += self.check(ch[0], x, f"{path}[{i}]")
            return errs
        if kind == "union":
            last = []
            for alt in mi.children:
                e = self.check(alt, obj, path)
                if not e:
                    return []
                last = e
            return [f"{path}: value {str(obj)[:60]!r} is accepted by no alternative of {name} (last: {last[:1]})"]
        if kind == "tag":
            if not isinstance(obj, dict) or mi.tag[1] not in obj:
                return [f"{path}: missing tag key {mi.tag[1]!r}"]
            ch = [c for c in mi.children if isinstance(c, TypeRef)]
            return self.check(ch[0], obj[mi.tag[1]], f"{path}/{mi.tag[1]}")
        if kind == "enum":
            names = {k.name for k in mi.children}
            return [] if obj in names else [f"{path}: {obj!r} is not a member of {name}"]
        if kind == "bits":
            if not isinstance(obj, list):
                return [f"{path}: expected a list of policy bits"]
            a = self.repo.class_attr(ci, "_bit_class")
            bc = self.S.parse_type(a[0], a[1].module)
            errs = []
            for x in obj:
                errs += self.check(bc, x, path)
            return errs
        if kind in ("int",):
            return [] if isinstance(obj, int) else [f"{path}: expected int, found {obj!r}"]
        if kind == "uint":
            return [] if isinstance(obj, int) and obj >= 0 else [f"{path}: expected unsigned int, found {obj!r}"]
        if kind == "bool":
            return [] if isinstance(obj, bool) else [f"{path}: expected bool, found {obj!r}"]
        if kind == "tstr":
            return [] if isinstance(obj, str) else [f"{path}: expected text, found {obj!r}"]
        if kind == "null":
            return [] if obj is None else [f"{path}: expected null"]
        if kind in ("bstr", "emptybstr"):
            if name == "SuitBchar":
                return [] if isinstance(obj, str) and len(obj) == 1 else [f"{path}: expected a single character"]
            if not isinstance(obj, str):
                return [f"{path}: expected a hex string, found {obj!r}"]
            try:
                bytes.fromhex(obj)
                return []
            except ValueError:
                return [f"{path}: {obj!r} is not a hex string"]
        return [f"{path}: no acceptance model for {name} ({kind})"]

    # -- reviewed custom nodes
    def c_SuitUUID(self, obj, path):
        if not isinstance(obj, dict):
            return [f"{path}: expected a UUID mapping"]
        if "RFC4122_UUID" in obj:
            u = obj["RFC4122_UUID"]
            if isinstance(u, dict):
                return [] if "name" in u and all(isinstance(v, str) for v in u.values()) else [f"{path}: UUID mapping without name"]
            return [] if isinstance(u, str) else [f"{path}: UUID name must be text"]
        if "raw" in obj:
            return [] if isinstance(obj["raw"], str) else [f"{path}: raw UUID must be hex"]
        return [f"{path}: unknown UUID form {list(obj)}"]

    def c_SuitImageSize(self, obj, path):
        if not isinstance(obj, dict) or not (set(obj) & {"raw", "file", "envelope", "file_direct"}):
            return [f"{path}: unknown image size form"]
        return []

    def c_SuitDigestExt(self, obj, path):
        if not isinstance(obj, dict):
            return [f"{path}: expected a digest mapping"]
        extra = set(obj) - {"suit-digest-algorithm-id", "suit-digest-bytes"}
        if extra:
            return [f"{path}: unknown digest members {sorted(extra)}"]
        if obj.get("suit-digest-algorithm-id") not in self.hash_names:
            return [f"{path}: digest algorithm {obj.get('suit-digest-algorithm-id')!r} unknown"]
        b = obj.get("suit-digest-bytes", "")
        if isinstance(b, dict) and not (set(b) & {"file", "envelope", "raw", "file_direct"}):
            return [f"{path}: unknown digest source {list(b)}"]
        return []

    def c_SuitComponentVersion(self, obj, path):
        if isinstance(obj, str):
            for part in obj.replace("-", ".").split("."):
                if not (part.isnumeric() or part in ("alpha", "beta", "rc")):
                    return [f"{path}: version part {part!r} not accepted"]
            return []
        return [] if isinstance(obj, list) and all(isinstance(x, int) for x in obj) else [f"{path}: version must be text or int list"]

    def c_SuitIntegratedPayloadMap(self, obj, path):
        if not isinstance(obj, dict):
            return [f"{path}: expected a mapping of payloads"]
        return [f"{path}: payload {k!r} must be text or a description" for k, v in obj.items() if not isinstance(v, (str, dict))]

    def c_SuitEncryptionInfoExt(self, obj, path):
        return [] if isinstance(obj, dict) and (set(obj) & {"raw", "file"}) else [f"{path}: unknown encryption info form"]

    def c_SuitHeaderMapOptional(self, obj, path):
        return [] if isinstance(obj, dict) or obj in ("", b"") else [f"{path}: expected header map or empty"]


# ---------------------------------------------------------------------------------------------- manifest walk
SEQ_KEYS = ["suit-validate", "suit-load", "suit-invoke", "suit-install", "suit-install-legacy", "suit-payload-fetch", "suit-dependency-resolution",
            "suit-candidate-verification", "suit_uninstall"]


def walk_manifest(doc):
    """Return (errors, facts) of the manifest walk."""
    errs = []
    notes = []
    env = doc.get("SUIT_Envelope_Tagged", {})
    man = env.get("suit-manifest", {})
    common = man.get("suit-common", {})
    comps = common.get("suit-components", [])
    n = len(comps)
    deps = common.get("suit-dependencies", {}) or {}
    dep_idx = []
    for k in deps:
        try:
            i = int(k)
        except (TypeError, ValueError):
            errs.append(f"dependency key {k!r} is not an index")
            continue
        dep_idx.append(i)
        if not 0 <= i < n:
            errs.append(f"suit-dependencies key {i} does not refer to a declared component (0..{n - 1})")
        elif not (comps[i] and comps[i][0] in ("CAND_MFST", "INSTLD_MFST")):
            errs.append(f"dependency {i} is component {comps[i][:1]}, not a candidate/installed manifest")
    integrated = env.get("suit-integrated-dependencies", {}) or {}
    fetched = []
    seqs = [("suit-shared-sequence", common.get("suit-shared-sequence", []))] + [(k, man[k]) for k in SEQ_KEYS if isinstance(man.get(k), list)]
    index_sets = {}
    for sname, seq in seqs:
        current = None
        uri = None
        for cmd in seq:
            if not isinstance(cmd, dict) or len(cmd) != 1:
                continue
            (k, v), = cmd.items()
            if k == "suit-directive-set-component-index":
                idxs = [v] if isinstance(v, int) and not isinstance(v, bool) else v if isinstance(v, list) else []
                if isinstance(v, list) and not v:
                    notes.append(f"{sname}: suit-directive-set-component-index selects no component (empty list)")
                for i in idxs:
                    if not (isinstance(i, int) and 0 <= i < n):
                        errs.append(f"{sname}: component index {i!r} does not refer to a declared component (0..{n - 1})")
                index_sets.setdefault(sname, []).append(idxs)
                current = idxs
            elif k in ("suit-directive-override-parameters", "suit-directive-set-parameters") and isinstance(v, dict):
                if "suit-parameter-uri" in v:
                    uri = v["suit-parameter-uri"]
                dg = v.get("suit-parameter-image-digest")
                src = dg.get("suit-digest-bytes") if isinstance(dg, dict) else None
                if isinstance(src, dict) and "envelope" in src:
                    p = src["envelope"]
                    if "suit-parameter-uri" in v:
                        u = v["suit-parameter-uri"]
                        if isinstance(u, str) and u.startswith("#"):
                            if integrated.get(u) != p:
                                errs.append(f"{sname}: digest of {u} is computed from {p!r} but the integrated dependency {u} is {integrated.get(u)!r}")
                    elif p not in integrated.values():
                        errs.append(f"{sname}: digest source {p!r} is not one of the embedded dependencies {sorted(integrated.values())}")
            elif k == "suit-directive-fetch":
                if isinstance(uri, str) and uri.startswith("#"):
                    fetched.append((sname, uri))
                    if uri not in integrated:
                        errs.append(f"{sname}: fetched URI {uri!r} has no integrated dependency of that name ({sorted(integrated)})")
            elif k == "suit-directive-process-dependency":
                for i in (current or []):
                    if isinstance(i, int) and i not in dep_idx:
                        errs.append(f"{sname}: process-dependency on component {i} which is not declared in suit-dependencies")
    facts = {"components": comps, "dep_idx": sorted(dep_idx), "integrated": integrated, "fetched": fetched, "index_sets": index_sets,
             "manifest": man, "common": common, "notes": notes}
    return errs, facts


# ---------------------------------------------------------------------------------------------- run
def run(ctx):
    R = ctx.report
    repo = ctx.repo
    ctx.use_files(ROOT, TOP, "ncs/build.py", "suit_generator/cmd_image.py")
    for rel in (ROOT, TOP):
        if rel not in repo.extra:
            raise AnalysisError(f"template {rel} vanished")
    acc = Acceptor(ctx)
    envt = TypeRef(repo.cls("suit_generator.suit.envelope", "SuitEnvelopeTagged"))
    abi = ctx.reference("storage_abi.json")
    default_roles = {n: v["role"] for n, v in abi["default_classes"]["EnvelopeStorageNrf54h20"].items()}
    R.exhaustive = True
    root_rules(ctx, acc, envt, default_roles)
    top_rules(ctx, acc, envt, default_roles)
    glue_rules(ctx)


def root_rules(ctx, acc, envt, default_roles):
    R = ctx.report
    ai = JinjaAI(ctx.repo.extra[ROOT], ROOT)
    tested = ai.tested_variables()
    expected_atoms = {"radio", "application", "top", "APP_ROOT_SEQ_NUM", "DEFAULT_SEQ_NUM", "APP_ROOT_VERSION", "DEFAULT_VERSION",
                      "hci_rpmsg_subimage", "_802154_rpmsg_subimage", "multiprotocol_rpmsg_subimage"}
    if not {"radio", "application", "top"} <= set(tested):
        raise AnalysisError(f"{ROOT}: image atoms not found among the tested variables {tested}")
    other = [v for v in tested if v not in ("radio", "application", "top")]
    R.analysed["root_template_atoms"] = tested
    R.rule("C19-D1a root: rendering and type check", 100, "every configuration renders and the document is accepted by the schema")
    R.rule("C19-D1b root: indices and dependencies", 100, "every component index and dependency key refers to a declared manifest component")
    R.rule("C19-D1c root: URI / integrated dependency / digest source", 100, "each fetched #name is embedded under that name and its digest is computed from the embedded file")
    R.rule("C19-D1d root: installed-manifest identifiers and coverage", 100, "components are the configured-or-default classes of the present images; sequences cover them")
    configs = 0
    images = ["radio", "application", "top"]
    for present in product([False, True], repeat=3):
        if not any(present):
            continue  # the property excludes the empty image set
        for flags in flag_space(other):
            for custom in (False, True):
                configs += 1
                var = {"artifacts_folder": "PHfolder/", "sysbuild": {"name": "PHsysbuild", "config": ConfigMap(
                    {k: f"PH{k[len('SB_CONFIG_SUIT_MPI_'):].lower()}" for k in MPI_KEYS} if custom else {})}}
                for img, on in zip(images, present):
                    if on:
                        var[img] = Image(name=f"PH{img}")
                for v, on in zip(other, flags):
                    if on:
                        var[v] = NUM.get(v, VER.get(v, Image(name=f"PH{v}")))
                label = "+".join(i for i, on in zip(images, present) if on) + "|" + ",".join(v for v, on in zip(other, flags) if on) + \
                    ("|custom-mpi" if custom else "|default-mpi")
                check_root_config(ctx, ai, var, label, acc, envt, present, custom, default_roles)
    R.analysed["root_configurations"] = configs
    for nt in sorted(NOTES):
        R.info("informational (not part of the property): " + nt)
    # the alias atoms must really be dead: the variable they set is never read
    reads = [n.name for n in ai.tree.find_all(__import__("jinja2").nodes.Name) if n.ctx == "load"]
    if "rad" in reads:
        raise AnalysisError(f"{ROOT}: variable 'rad' is read - the radio alias atoms must be enumerated fully")


def flag_space(other):
    """All combinations of the scalar atoms; the three radio alias atoms only feed an unused variable (checked), so they are
    explored as {none, each one alone} instead of all eight subsets."""
    alias = [v for v in other if v.endswith("_subimage")]
    rest = [v for v in other if v not in alias]
    for combo in product([False, True], repeat=len(rest)):
        for a in [None] + alias:
            yield tuple(combo[rest.index(v)] if v in rest else (v == a) for v in other)


def _fail(ctx, rid, label, tmpl, expected, found):
    ctx.report.fail(rid, label, file=tmpl, line=0, function=f"template {tmpl}", construct=f"{tmpl}|{rid}|{found[:120]}", expected=expected,
                    found=f"[{label}] {found}", witness=[label])


def check_root_config(ctx, ai, var, label, acc, envt, present, custom, default_roles):
    R = ctx.report
    try:
        text = ai.render(var)
        doc = yaml.load(text, Loader=LOADER)
    except NotModelled:
        raise  # a construct the template interpreter does not model: not a verdict about the template
    except AnalysisError as e:
        _fail(ctx, "C19-D1a root: rendering and type check", label, ROOT, "the template renders", str(e))
        return
    except yaml.YAMLError as e:
        _fail(ctx, "C19-D1a root: rendering and type check", label, ROOT, "the rendered text is valid YAML", str(e)[:200])
        return
    errs = acc.check(envt, doc) if isinstance(doc, dict) else ["document is not a mapping"]
    if errs:
        _fail(ctx, "C19-D1a root: rendering and type check", label, ROOT, "create accepts the rendered description", "; ".join(errs[:3]))
    else:
        R.ok("C19-D1a root: rendering and type check", label)
    werrs, f = walk_manifest(doc)
    for nt in f["notes"]:
        NOTES.add(f"{ROOT}: {nt} when only the Nordic top image is present")
    idx_errs = [e for e in werrs if "index" in e or "dependenc" in e.lower() and "digest" not in e and "URI" not in e and "fetched" not in e]
    uri_errs = [e for e in werrs if e not in idx_errs]
    if idx_errs:
        _fail(ctx, "C19-D1b root: indices and dependencies", label, ROOT, "indices < number of components; dependencies are manifest components", "; ".join(idx_errs[:3]))
    else:
        R.ok("C19-D1b root: indices and dependencies", label)
    radio, app, top = present
    names = [n for n, on in zip(("PHradio", "PHapplication", "PHtop"), present) if on]
    want_uris = {"#" + n: f"PHfolder/{n}.suit" for n in names}
    if f["integrated"] != want_uris:
        uri_errs.append(f"integrated dependencies {f['integrated']} != {want_uris}")
    for seqname in ("suit-install", "suit-candidate-verification"):
        got = [u for s, u in f["fetched"] if s == seqname]
        if got != list(want_uris):
            uri_errs.append(f"{seqname} fetches {got}, expected {list(want_uris)}")
    if uri_errs:
        _fail(ctx, "C19-D1c root: URI / integrated dependency / digest source", label, ROOT,
              "every present image is fetched by '#name', embedded under '#name', digest from the embedded file", "; ".join(uri_errs[:3]))
    else:
        R.ok("C19-D1c root: URI / integrated dependency / digest source", label)
    # identifiers
    ierrs = []
    cfgd = lambda key, dflt: f"PH{key}" if custom else dflt
    rootv, rootc = cfgd("root_vendor_name", "nordicsemi.com"), cfgd("root_class_name", "nRF54H20_sample_root")
    exp_comps = [["CAND_MFST", 0]]
    if radio:
        exp_comps.append(["INSTLD_MFST", {"RFC4122_UUID": {"namespace": cfgd("rad_local_1_vendor_name", "nordicsemi.com"),
                                                            "name": cfgd("rad_local_1_class_name", "nRF54H20_sample_rad")}}])
    if app:
        exp_comps.append(["INSTLD_MFST", {"RFC4122_UUID": {"namespace": cfgd("app_local_1_vendor_name", "nordicsemi.com"),
                                                            "name": cfgd("app_local_1_class_name", "nRF54H20_sample_app")}}])
    if top:
        exp_comps.append(["INSTLD_MFST", {"RFC4122_UUID": {"namespace": "nordicsemi.com", "name": "nRF54H20_nordic_top"}}])
    if f["components"] != exp_comps:
        ierrs.append(f"components {f['components']} != {exp_comps}")
    n = len(exp_comps)
    all_idx = list(range(1, n))
    no_top = list(range(1, n - (1 if top else 0)))
    if f["dep_idx"] != list(range(0, n)):
        ierrs.append(f"dependencies {f['dep_idx']} != {list(range(0, n))}")
    isets = f["index_sets"]
    if isets.get("suit-shared-sequence") != [all_idx]:
        ierrs.append(f"shared sequence applies to {isets.get('suit-shared-sequence')}, expected {[all_idx]}")
    for s in ("suit-validate", "suit-invoke"):
        if isets.get(s) != [no_top]:
            ierrs.append(f"{s} applies to {isets.get(s)}, expected {[no_top]} (all installed manifests except Nordic top)")
    for s in ("suit-install", "suit-candidate-verification"):
        if isets.get(s) != [[0]]:
            ierrs.append(f"{s} works on {isets.get(s)}, expected the candidate component [[0]]")
    mci = f["manifest"].get("suit-manifest-component-id")
    if mci != ["INSTLD_MFST", {"RFC4122_UUID": {"namespace": rootv, "name": rootc}}]:
        ierrs.append(f"manifest component id {mci}")
    try:
        ov = f["common"]["suit-shared-sequence"][1]["suit-directive-override-parameters"]
        if ov.get("suit-parameter-vendor-identifier") != {"RFC4122_UUID": rootv}:
            ierrs.append(f"vendor identifier {ov.get('suit-parameter-vendor-identifier')}")
        if ov.get("suit-parameter-class-identifier") != {"RFC4122_UUID": {"namespace": rootv, "name": rootc}}:
            ierrs.append(f"class identifier {ov.get('suit-parameter-class-identifier')}")
    except (KeyError, IndexError, TypeError, AttributeError):
        ierrs.append("shared sequence does not set vendor/class identifier in its second command")
    if not custom:
        want_roles = {"nRF54H20_sample_root": "APP_ROOT", "nRF54H20_sample_app": "APP_LOCAL_1", "nRF54H20_sample_rad": "RAD_LOCAL_1",
                      "nRF54H20_nordic_top": "SEC_TOP"}
        used = {c[1]["RFC4122_UUID"]["name"] for c in f["components"][1:] if isinstance(c[1], dict)} | {rootc}
        for u in used:
            if default_roles.get(u) != want_roles.get(u):
                ierrs.append(f"default class {u} has role {default_roles.get(u)} in the storage table, expected {want_roles.get(u)}")
    # sequence number / version selection
    man = f["manifest"]
    seq = man.get("suit-manifest-sequence-number")
    want_seq = var.get("APP_ROOT_SEQ_NUM", var.get("DEFAULT_SEQ_NUM", 1))
    if seq != want_seq:
        ierrs.append(f"sequence number {seq} != {want_seq}")
    want_ver = var.get("APP_ROOT_VERSION", var.get("DEFAULT_VERSION"))
    if man.get("suit-current-version") != want_ver:
        ierrs.append(f"current version {man.get('suit-current-version')!r} != {want_ver!r}")
    if ierrs:
        _fail(ctx, "C19-D1d root: installed-manifest identifiers and coverage", label, ROOT,
              "components/identifiers/coverage follow the present images and configured-or-default names", "; ".join(ierrs[:3]))
    else:
        R.ok("C19-D1d root: installed-manifest identifiers and coverage", label)


def top_rules(ctx, acc, envt, default_roles):
    R = ctx.report
    ai = JinjaAI(ctx.repo.extra[TOP], TOP)
    tested = ai.tested_variables()
    R.rule("C19-D1e top: rendering, type check and wiring", 16, "every configuration of the Nordic top template renders, type-checks and is wired consistently")
    n = 0
    for flags in product([False, True], repeat=len(tested)):
        n += 1
        var = {"artifacts_folder": "PHfolder/", "secdom": Image(name="PHsecdom"), "sysctrl": Image(name="PHsysctrl")}
        for v, on in zip(tested, flags):
            if on:
                var[v] = NUM.get(v, VER.get(v, f"PH{v}"))
        label = ",".join(v for v, on in zip(tested, flags) if on) or "no-version-variables"
        errs = []
        try:
            doc = yaml.load(ai.render(var), Loader=LOADER)
            errs += acc.check(envt, doc)
            w, f = walk_manifest(doc)
            errs += w
            if f["integrated"] != {"#PHsecdom": "PHfolder/PHsecdom.suit", "#PHsysctrl": "PHfolder/PHsysctrl.suit"}:
                errs.append(f"integrated dependencies {f['integrated']}")
            exp = [["CAND_MFST", 0], ["INSTLD_MFST", {"RFC4122_UUID": {"namespace": "nordicsemi.com", "name": "nRF54H20_sec"}}],
                   ["INSTLD_MFST", {"RFC4122_UUID": {"namespace": "nordicsemi.com", "name": "nRF54H20_sys"}}]]
            if f["components"] != exp:
                errs.append(f"components {f['components']}")
            if f["dep_idx"] != [0, 1, 2]:
                errs.append(f"dependencies {f['dep_idx']}")
            for s in ("suit-install", "suit-candidate-verification"):
                if [u for sn, u in f["fetched"] if sn == s] != ["#PHsecdom", "#PHsysctrl"]:
                    errs.append(f"{s} fetches {[u for sn, u in f['fetched'] if sn == s]}")
            if f["manifest"].get("suit-manifest-component-id") != ["INSTLD_MFST", {"RFC4122_UUID": {"namespace": "nordicsemi.com", "name": "nRF54H20_nordic_top"}}]:
                errs.append("manifest component id is not the Nordic top class")
            for s in ("suit-validate", "suit-load", "suit-invoke"):
                if f["index_sets"].get(s) != [[2]]:
                    errs.append(f"{s} works on {f['index_sets'].get(s)}, expected the system controller manifest [[2]]")
            # the digest verified in suit-validate for component 2 must come from the sysctrl envelope
            val = f["manifest"].get("suit-validate", [])
            srcs = [c["suit-directive-override-parameters"]["suit-parameter-image-digest"]["suit-digest-bytes"].get("envelope")
                    for c in val if isinstance(c, dict) and "suit-directive-override-parameters" in c
                    and "suit-parameter-image-digest" in c["suit-directive-override-parameters"]]
            if srcs != ["PHfolder/PHsysctrl.suit"]:
                errs.append(f"suit-validate verifies component 2 (nRF54H20_sys) against {srcs}, expected the sysctrl envelope")
            want_seq = var.get("NORDIC_TOP_SEQ_NUM", var.get("DEFAULT_SEQ_NUM", 1))
            if f["manifest"].get("suit-manifest-sequence-number") != want_seq:
                errs.append(f"sequence number {f['manifest'].get('suit-manifest-sequence-number')} != {want_seq}")
            want_ver = var.get("NORDIC_TOP_VERSION", var.get("DEFAULT_VERSION"))
            if f["manifest"].get("suit-current-version") != want_ver:
                errs.append(f"current version {f['manifest'].get('suit-current-version')!r} != {want_ver!r}")
            for cname, role in (("nRF54H20_sec", "SEC_SDFW"), ("nRF54H20_sys", "SEC_SYSCTRL"), ("nRF54H20_nordic_top", "SEC_TOP")):
                if default_roles.get(cname) != role:
                    errs.append(f"class {cname} has role {default_roles.get(cname)} in the storage table, expected {role}")
        except NotModelled:
            raise
        except AnalysisError as e:
            errs.append(str(e))
        except yaml.YAMLError as e:
            errs.append(f"invalid YAML: {str(e)[:120]}")
        if errs:
            _fail(ctx, "C19-D1e top: rendering, type check and wiring", label, TOP, "consistent Nordic top envelope", "; ".join(errs[:3]))
        else:
            R.ok("C19-D1e top: rendering, type check and wiring", label)
    R.analysed["top_configurations"] = n


def glue_rules(ctx):
    R = ctx.report
    repo = ctx.repo
    R.rule("C19-D2 build glue", 3, "render_template passes the configuration unmodified; version items are merged before rendering")
    rt = repo.func("ncs.build", "render_template")
    from sa.absint import Evaluator as _Ev
    from sa.terms import App as _App, Const as _Const, Sym as _Sym
    ro = [o for o in _Ev(repo, inline_depth=0).outcomes(rt) if o.kind == "return"]
    ok = False
    if len(ro) == 1:
        v = ro[0].value
        ok = isinstance(v, _App) and v.op == "meth:render" and len(v.args) == 2 and v.args[1] == _Sym("param:data") and isinstance(v.args[0], _App) \
            and v.args[0].op == "call:jinja2.Template" and v.args[0].args[-1] == _App("filetext", (_Sym("param:template_location"),))
    R.check("C19-D2 build glue", ok, "render_template", mod=rt.module,
            node=rt.node, function=ctx.fq(rt), expected="Template(<whole file>).render(data)", found=repr(ro[0].value)[:200] if ro else "shape not recognised")
    m = repo.mod("ncs.build")
    main_block = None
    for s in m.tree.body:
        if isinstance(s, ast.If) and isinstance(s.test, ast.Compare) and isinstance(s.test.left, ast.Name) and s.test.left.id == "__name__":
            main_block = s
    if main_block is None:
        raise AnalysisError("ncs/build.py: main block vanished")

    def pos(n):
        return (n.lineno, n.col_offset)
    renders = [n for n in ast.walk(main_block) if isinstance(n, ast.Call) and isinstance(n.func, ast.Name) and n.func.id == "render_template"
               and len(n.args) == 2 and isinstance(n.args[1], ast.Name)]
    order_ok = bool(renders)
    found = ""
    for rcall in renders:
        cfgname = rcall.args[1].id
        updates = [n for n in ast.walk(main_block) if isinstance(n, ast.Call) and isinstance(n.func, ast.Attribute) and n.func.attr == "update"
                   and isinstance(n.func.value, ast.Name) and n.func.value.id == cfgname and n.args and isinstance(n.args[0], ast.Call)
                   and isinstance(n.args[0].func, ast.Name) and n.args[0].func.id == "read_version_file"]
        folder = [n for n in ast.walk(main_block) if isinstance(n, ast.Assign) and any(
            isinstance(t, ast.Subscript) and isinstance(t.value, ast.Name) and t.value.id == cfgname and isinstance(t.slice, ast.Constant)
            and t.slice.value == "artifacts_folder" for t in n.targets)]
        if not updates or not folder or not all(pos(u) < pos(rcall) for u in updates) or not all(pos(x) < pos(rcall) for x in folder):
            order_ok = False
            found = f"render at line {rcall.lineno}: {len(updates)} version updates, {len(folder)} artifacts_folder stores before it"
    R.check("C19-D2 build glue", order_ok, "version values and artifacts folder are in the configuration before rendering",
            file="ncs/build.py", line=0, function="ncs.build:__main__", construct="main block order", expected="update(version) … artifacts_folder … render",
            found=found or "render_template call not recognised")
    rc = repo.func("ncs.build", "read_configurations")
    entry_ok = False
    for n in ast.walk(rc.node):
        if isinstance(n, ast.Assign) and len(n.targets) == 1 and isinstance(n.targets[0], ast.Subscript) and isinstance(n.value, ast.Dict):
            keys = {k.value: v for k, v in zip(n.value.keys, n.value.values) if isinstance(k, ast.Constant)}
            if {"name", "config"} <= set(keys) and isinstance(keys["config"], ast.Call):
                r_ = repo.resolve_expr(rc.module, keys["config"].func)
                if r_ and r_[0] == "class" and r_[1].name == "BuildConfiguration":
                    entry_ok = True
    R.check("C19-D2 build glue", entry_ok,
            "each image is offered to the template under its name with 'name' and 'config'", mod=rc.module, node=rc.node, function=ctx.fq(rc),
            expected="data[image_name] = {'name': name, 'config': BuildConfiguration(kconfig)}", found="shape not recognised")
