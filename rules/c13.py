"""C13 — vendor/class UUIDs are derived identically everywhere."""
from __future__ import annotations

import ast
import re

from sa.absint import Evaluator, all_effects, flatten_effects
from sa.index import AnalysisError
from sa.teval import Unknown, teval
from sa.terms import App, Const, Ref, Sym, cases, cat_parts, subterms
from . import argname, generic
from .layout import DNS, class_uuid, find_effect_calls, vendor_uuid

EXPLANATION = ("the three derivation sites (description encoder, MPI record, storage role table) are abstractly evaluated "
               "to canonical terms over uuid5/NAMESPACE_DNS and compared for equality up to parameter renaming; the "
               "Kconfig-to-role plumbing is checked on its term structure; no repository code executed")

IMG = "suit_generator.cmd_image"


def _leafs(t):
    """phi-free alternatives of a term with their guards."""
    return cases(t)


def run(ctx):
    R = ctx.report
    repo = ctx.repo
    ctx.use_files("suit_generator/suit/manifest.py", "suit_generator/cmd_mpi.py", "suit_generator/cmd_image.py",
                  "build_configuration/configuration.py")
    ev = Evaluator(repo, inline_depth=0)

    # ---- site 1: description encoder
    R.rule("C13-D1a description forms", 3, "RFC4122_UUID forms of the description evaluate to the reference derivations")
    fi = repo.func("suit_generator.suit.manifest", "SuitUUID.from_obj")
    fq = ctx.fq(fi)
    outs = ev.outcomes(fi)
    U = App("idx", (Sym("param:obj"), Const("RFC4122_UUID")))
    want = {
        "namespace+name": App("attr:bytes", (App("uuid5", (App("uuid5", (DNS, App("idx", (U, Const("namespace"))))),
                                                               App("idx", (U, Const("name"))))),)),
        "name only": App("attr:bytes", (App("uuid5", (DNS, App("idx", (U, Const("name"))))),)),
        "plain string": App("attr:bytes", (App("uuid5", (DNS, U)),)),
    }
    OBJ = Sym("param:obj")
    isdict = App("isinstance", (U, Ref("builtin", "dict")))
    has_ns = App("in", (Const("namespace"), U))
    has_name = App("in", (Const("name"), U))
    base = {App("isinstance", (OBJ, Ref("builtin", "dict"))): True, App("in", (Const("RFC4122_UUID"), OBJ)): True}
    # case analysis over the guards, whatever the nesting / order of the tests in the code
    forms = {"namespace+name": {isdict: True, has_name: True, has_ns: True}, "name only": {isdict: True, has_name: True, has_ns: False},
             "plain string": {isdict: False}}
    for form, facts in forms.items():
        taken = generic.taken_outcomes(outs, {**base, **facts}, strict=False)
        got = []
        for o_ in taken:
            if o_.kind != "return":
                got.append(App("raises", (Const(o_.kind),)))
                continue
            for v in generic.select_alternatives(o_.value, {**base, **facts}):
                got.append(v.args[1] if isinstance(v, App) and v.op == "call" and v.args[0] == Sym("param:cls") and len(v.args) == 2 else v)
        R.check("C13-D1a description forms", bool(got) and all(g_ == want[form] for g_ in got), form, mod=fi.module, node=fi.node, function=fq,
                expected=f"cls({want[form]!r}) whenever the description has this form", found=f"{[repr(g_)[:200] for g_ in got if g_ != want[form]][:2]}", key_extra=form)
    # the name-less dict form is rejected
    rej = generic.taken_outcomes(outs, {**base, isdict: True, has_name: False, has_ns: True}, strict=False) + \
        generic.taken_outcomes(outs, {**base, isdict: True, has_name: False, has_ns: False}, strict=False)
    R.rule("C13-D1b nameless rejected", 1, "a UUID dict without name is rejected")
    R.check("C13-D1b nameless rejected", bool(rej) and all(o.kind == "raise" for o in rej), "RFC4122_UUID: {namespace: …} without name", mod=fi.module, node=fi.node,
            function=fq, expected="raise ValueError", found="accepted")

    # ---- site 2: MPI record (fields located by C12's layout; here only the terms)
    R.rule("C13-D1c MPI record", 2, "vendor and class UUID terms of the MPI record")
    gen = repo.func("suit_generator.cmd_mpi", "MpiGenerator.generate")
    gouts = [o for o in Evaluator(repo).outcomes(gen) if o.kind == "return"]
    fb = [c for o in gouts for c in find_effect_calls(o.effects, "meth:frombytes")]
    if len(fb) != 1:
        raise AnalysisError("MpiGenerator.generate: record not recognised")
    vend, cls = Sym("param:vendor_name"), Sym("param:class_name")
    uu = [s for s in subterms(fb[0].args[1]) if isinstance(s, App) and s.op == "attr:bytes"
          and isinstance(s.args[0], App) and s.args[0].op == "uuid5"]
    uniq = []
    for s in uu:
        if s not in uniq:
            uniq.append(s)
    R.check("C13-D1c MPI record", App("attr:bytes", (vendor_uuid(vend),)) in uniq, "vendor id", mod=gen.module, node=gen.node,
            function=ctx.fq(gen), expected=repr(vendor_uuid(vend)), found=f"{uniq}"[:300])
    R.check("C13-D1c MPI record", App("attr:bytes", (class_uuid(vend, cls),)) in uniq and len(uniq) == 2, "class id",
            mod=gen.module, node=gen.node, function=ctx.fq(gen), expected=repr(class_uuid(vend, cls)), found=f"{uniq}"[:300])

    # ---- site 3: storage role table
    R.rule("C13-D1d role table", 4, "role table keyed by the class UUID; lookup by the class id bytes")
    ar = repo.func(IMG, "EnvelopeStorage.assign_role")
    aouts = ev.outcomes(ar)
    stores = [e for o in aouts for e in all_effects(o.effects) if isinstance(e, App) and e.op == "eff:store"]
    if len(stores) != 1:
        raise AnalysisError("assign_role: store not recognised")
    st = stores[0]
    container, key, val = st.args
    cid = class_uuid(vend, cls)
    R.check("C13-D1d role table", key == App("attr:hex", (cid,)) or key == App("meth:hex", (App("attr:bytes", (cid,)),)),
            "table key = hex of UUIDv5(UUIDv5(DNS, vendor), class)", mod=ar.module, node=st.node, function=ctx.fq(ar),
            expected=f"{cid!r}.hex", found=repr(key)[:200])
    entry = {kv.args[0].v: kv.args[1] for kv in val.args} if isinstance(val, App) and val.op == "dict" else {}
    R.check("C13-D1d role table", entry.get("class_id") == App("attr:bytes", (cid,))
            and entry.get("vendor_id") == App("attr:bytes", (vendor_uuid(vend),)) and entry.get("role") == Sym("param:role"),
            "entry holds vendor id, class id and the role passed in", mod=ar.module, node=st.node, function=ctx.fq(ar),
            expected="{'vendor_id': vid.bytes, 'class_id': cid.bytes, 'role': role}", found=repr(val)[:300])
    fr = repo.func(IMG, "EnvelopeStorage._find_role")
    fouts = [o for o in ev.outcomes(fr) if o.kind == "return"]
    found = ""
    lookup_key = App("meth:hex", (Sym("param:class_id"),))
    got_entry = App("meth:get", (container, lookup_key))
    # "the class id is in the table", in the spellings of a membership test or of a .get() that found something
    present = {generic.norm_cond(App("in", (lookup_key, container))): True, App("is not", (got_entry, Const(None))): True,
               App("is", (got_entry, Const(None))): False, got_entry: True}

    def subst(t):
        if t == got_entry or t == App("meth:get", (container, lookup_key, Const(None))):
            return App("idx", (container, lookup_key))
        if isinstance(t, App):
            return App(t.op, [subst(a_) for a_ in t.args], t.node)
        return t
    want_role = App("idx", (App("idx", (container, lookup_key)), Const("role")))
    hit, miss, other = False, False, []
    for o in fouts:
        for g, t in cases(o.value):
            found += repr(t)[:100] + "; "
            pol = set()
            for c_, v_ in list(g.items()) + [(c2, True) for c2 in o.conds]:
                c_ = generic.norm_cond(c_)
                while isinstance(c_, App) and c_.op == "not" and len(c_.args) == 1:
                    c_, v_ = c_.args[0], not v_
                c_ = App(c_.op, [App("meth:get", (container, lookup_key)) if a_ == App("meth:get", (container, lookup_key, Const(None))) else a_ for a_ in c_.args], c_.node) \
                    if isinstance(c_, App) else c_
                pol.add(present[c_] == v_ if c_ in present else None)
            if subst(t) == want_role and pol == {True}:
                hit = True
            elif t == Const(None) and pol == {False}:
                miss = True
            else:
                other.append(repr(t)[:80])
    R.check("C13-D1d role table", hit and not other, "lookup by class_id.hex() in the same table (UUID.hex == UUID.bytes.hex())", mod=fr.module,
            node=fr.node, function=ctx.fq(fr), expected="self._assignments[class_id.hex()]['role'] when the class id is in the table", found=found[:300])
    R.check("C13-D1d role table", miss, "an unknown class id maps to no role", mod=fr.module, node=fr.node, function=ctx.fq(fr),
            expected="None when the key is absent", found=found[:200])

    kconfig_rules(ctx, ev)
    template_defaults(ctx)
    configuration_values(ctx)

    R.rule("C13-D2d assign_role plumbing", 4, "assign_role receives vendor, class and role of one entry; configured assignments are applied after the defaults")
    init = repo.func(IMG, "EnvelopeStorage.__init__")
    ar_fi = repo.func(IMG, "EnvelopeStorage.assign_role")
    reader = kconfig_reader(ctx)
    ev_init = Evaluator(repo, inline_depth=0)
    if ev_init.known is not None:
        ev_init.known = ev_init.known | {reader.fq}  # the reader is a source of its own (kept as a call), wherever it lives now
    iouts = [o for o in ev_init.outcomes(init) if o.kind == "return"]
    if not iouts:
        raise AnalysisError("EnvelopeStorage.__init__: no normal outcome")

    def classify(part):
        if isinstance(part, App) and part.op == "attr:_CLASS_ROLE_ASSIGNMENTS":
            return "defaults"
        if isinstance(part, App) and part.op == "call" and isinstance(part.args[0], Ref) and part.args[0].obj is reader:
            return "configuration"
        if (isinstance(part, Const) and part.v in ([], ())) or (isinstance(part, App) and part.op in ("list", "tuple") and not part.args):
            return None
        raise AnalysisError(f"EnvelopeStorage.__init__: source of role assignments not recognised: {part!r}"[:200])

    def parts(t):
        if isinstance(t, App) and t.op in ("+", "cat"):
            out = []
            for x in t.args:
                out += parts(x)
            return out
        if isinstance(t, App) and t.op in ("call:list", "listof", "call:tuple") and len(t.args) == 1:
            return parts(t.args[0])
        if isinstance(t, App) and t.op == "mutated" and len(t.args) == 3 and t.args[1] in (Const("extend"), Const("__iadd__")):
            return parts(t.args[0]) + parts(t.args[2])  # xs.extend(ys): xs first, then ys
        if isinstance(t, App) and t.op in ("loopout", "loopvar", "maybe_assigned"):
            return parts(t.args[-1])
        return [t]
    n_calls = 0
    seen_kinds = set()
    order_bad, arg_bad = [], []
    for o in iouts:
        for seq in flatten_effects(o.effects):
            # flatten_effects takes loops once: the sequence of loop iterables on this path gives the order of the sources
            srcs = []
            for e in seq:
                if isinstance(e, App) and e.op == "eff:call" and isinstance(e.args[0], App) and e.args[0].op == "call" \
                        and isinstance(e.args[0].args[0], Ref) and e.args[0].args[0].obj is ar_fi:
                    c = e.args[0]
                    n_calls += 1
                    a = list(c.args[2:]) if c.args[1] == Sym("param:self") else list(c.args[1:])
                    if len(a) == 1 and isinstance(a[0], App) and a[0].op == "starkw" and isinstance(a[0].args[0], App) and a[0].args[0].op == "elem":
                        # assign_role(**entry): every field of the entry reaches the parameter of its own name
                        a = [App("idx", (a[0].args[0], Const(k_))) for k_ in ar_fi.params()[1:]]
                    if len(a) != 3 or not all(isinstance(x, App) and x.op == "idx" and isinstance(x.args[0], App) and x.args[0].op == "elem" for x in a):
                        arg_bad.append(repr(c)[:160])
                        continue
                    elems = {x.args[0] for x in a}
                    keys = [x.args[1].v if isinstance(x.args[1], Const) else None for x in a]
                    if len(elems) != 1 or keys != ["vendor_name", "class_name", "role"]:
                        arg_bad.append(f"{keys} from {len(elems)} entries")
                    it = a[0].args[0].args[0]
                    for g, alt in cases(it):
                        for sub in _alternatives_of_parts(parts(alt)):
                            seq_kinds = [k for k in (classify(p) for p in sub) if k]
                            srcs.append(seq_kinds)
            # within one path: concatenate in order (alternatives of one iterable are each checked)
            flat = []
            for alt in srcs:
                if "defaults" in alt and "configuration" in flat + alt[:alt.index("defaults")]:
                    order_bad.append(" -> ".join(flat + alt))
                flat += alt
                seen_kinds.update(alt)
    if n_calls < 1 or not ({"defaults", "configuration"} <= seen_kinds):
        raise AnalysisError(f"EnvelopeStorage.__init__: assign_role calls not recognised ({n_calls} calls, sources {sorted(seen_kinds)})")
    R.check("C13-D2d assign_role plumbing", not arg_bad, "assign_role(entry['vendor_name'], entry['class_name'], entry['role']) of one entry",
            mod=init.module, node=init.node, function=ctx.fq(init), expected="the three fields of the same entry, in this order", found=f"{arg_bad[:2]}")
    st_last = [e for o in ev.outcomes(ar_fi) for e in all_effects(o.effects) if isinstance(e, App) and e.op == "eff:store"]
    R.check("C13-D2d assign_role plumbing", not order_bad, "assignments from the build configuration are applied after the defaults (the last store wins)",
            mod=init.module, node=init.node, function=ctx.fq(init),
            expected="defaults first, configuration second: a configured role replaces the default of the same class",
            found=f"order {order_bad[:1]}: a default overrides the configured role")
    R.check("C13-D2d assign_role plumbing", len(st_last) == 1, "assign_role stores unconditionally (later assignment replaces the earlier one)",
            mod=ar_fi.module, node=ar_fi.node, function=ctx.fq(ar_fi), expected="one store per call", found=f"{len(st_last)} stores")
    R.check("C13-D2d assign_role plumbing", True, "sources recognised")


def configuration_values(ctx):
    """BuildConfiguration._parse: a quoted value is text, whatever it looks like.  Vendor and class names reach the UUID derivation
    through this parser; a name such as "0042", "0x1F" or "y" must stay the name.  The value depends on the raw text only through a
    few syntactic tests, so one representative per combination of them is a complete decision table (evaluated on the extracted term)."""
    R = ctx.report
    repo = ctx.repo
    # anchored at the constructor, private helpers of the class followed: the parsing loop may live in _parse or in __init__ itself
    fi = repo.func("build_configuration.configuration", "BuildConfiguration.__init__")
    fq = ctx.fq(fi)
    R.rule("C13-D4 quoted configuration values stay text", 5, "per syntactic class of a quoted value: the stored value is the text between the quotes")
    evp = Evaluator(repo, inline_depth=2, inline_filter=lambda f: f.cls is fi.cls and f.name.startswith("_") and not f.name.startswith("__"))
    outs = [o for o in evp.outcomes(fi) if o.kind == "return"]
    stores = [e.args[0] for o in outs for e in all_effects(o.effects) if isinstance(e, App) and e.op == "eff:call" and isinstance(e.args[0], App)
              and e.args[0].op in ("supercall:__setitem__", "meth:__setitem__")]
    stores += [App("x", (e.args[0], e.args[1], e.args[2])) for o in outs for e in all_effects(o.effects) if isinstance(e, App) and e.op == "eff:store"]
    if len(stores) != 1:
        raise AnalysisError(f"{fq}: store of the parsed value not recognised ({len(stores)})")
    val = stores[0].args[-1]
    raws = {s_ for s_ in subterms(val) if isinstance(s_, App) and s_.op == "meth:group" and Const("kconfig_value") in s_.args[1:]}
    if not raws:
        raise AnalysisError(f"{fq}: raw value (group 'kconfig_value') not found in the stored term")

    def bind(raw):
        # match.group('kconfig_value') is the raw text; group(a, b, ...) the tuple of the named groups
        return {g_: (raw if len(g_.args) == 2 else tuple(raw if a_ == Const("kconfig_value") else "CONFIG_NAME" for a_ in g_.args[1:])) for g_ in raws}
    table = {'"0042"': "0042", '"0x1F"': "0x1F", '"y"': "y", '"nordicsemi.com"': "nordicsemi.com", '"42"': "42", '""': "", '"n"': "n",
             '"M\u00fcller Ger\u00e4tebau"': "M\u00fcller Ger\u00e4tebau", '"funk\u00b5controller"': "funk\u00b5controller", '"a b&c<d>"': "a b&c<d>"}
    for raw, want in table.items():
        try:
            got = teval(val, bind(raw))
        except Unknown as e:
            raise AnalysisError(f"{fq}: stored value not evaluable for {raw!r}: {e}")
        R.check("C13-D4 quoted configuration values stay text", got == want and type(got) is type(want), f"{raw} -> {want!r}", mod=fi.module, node=fi.node,
                function=fq, expected=f"{want!r} (text)", found=f"{got!r} ({type(got).__name__})", key_extra=raw)
    # the same from the whole line: the pattern that splits NAME=VALUE is part of the parser (a value pattern that stops at a '#',
    # at a blank or at a second '=' cuts a quoted name short)
    matches = {g_.args[0] for g_ in raws if isinstance(g_.args[0], App) and g_.args[0].op in ("call:re.match", "call:re.fullmatch", "call:re.search")
               and len(g_.args[0].args) >= 2}
    if len(matches) == 1:
        line_t = next(iter(matches)).args[1]
        lines = {'"ACME Corp #1"': "ACME Corp #1", '"a # b"': "a # b", '"x=y"': "x=y", '"tab\there"': "tab\there", '"nordicsemi.com"': "nordicsemi.com",
                 '"  lead"': "  lead", '"semi;colon"': "semi;colon"}
        for raw, want in lines.items():
            for eol in ("\n", ""):
                env_ = {line_t: f"SB_CONFIG_SUIT_MPI_ROOT_VENDOR_NAME={raw}{eol}"}
                try:
                    got = teval(val, env_) if teval(next(iter(matches)), env_) is not None else "<line not matched by the pattern: the option is dropped>"
                except Unknown as e:
                    R.info(f"C13-D4: stored value not evaluable from the whole line for {raw!r}: {e}")
                    break
                if not R.check("C13-D4 quoted configuration values stay text", got == want, f"line NAME={raw} -> {want!r}", mod=fi.module, node=fi.node,
                               function=fq, expected=f"{want!r} (the text between the quotes)", found=f"{got!r}", key_extra="line" + raw):
                    break


def template_defaults(ctx):
    """The names a template falls back to when a SB_CONFIG_SUIT_MPI_<M>_{VENDOR,CLASS}_NAME option is absent are literals, and the pair
    is the pair the storage layer assigns to that role by default: otherwise the class id embedded in the manifest is one that
    `image boot` / the MPI record (which use the defaults independently) do not know."""
    import json
    import jinja2
    from jinja2 import nodes as jn
    from sa.report import VERIF
    R = ctx.report
    repo = ctx.repo
    R.rule("C13-D3 template fallback names", 6, "default(<literal>) per option; (vendor, class) fallback pair = a default pair of the storage layer with the role of that manifest")
    abi = json.loads((VERIF / "reference" / "storage_abi.json").read_text())
    pairs = {}
    for soc, table in abi["default_classes"].items():
        for cname, e in table.items():
            pairs[(e["vendor"], cname)] = e["role"]
    env = jinja2.Environment()
    found = {}
    n = 0
    for rel, text in sorted(repo.extra.items()):
        if not rel.endswith(".jinja2"):
            continue
        tree = env.parse(text)
        for a in tree.find_all(jn.Assign):
            v = a.node
            if not (isinstance(v, jn.Filter) and v.name == "default"):
                continue
            keys = [g.arg.value for g in v.find_all(jn.Getitem) if isinstance(g.arg, jn.Const) and isinstance(g.arg.value, str)]
            opt = next((k for k in keys if re.fullmatch(r"SB_CONFIG_SUIT_MPI_[A-Z0-9_]+_(VENDOR|CLASS)_NAME", k)), None)
            if opt is None:
                continue
            n += 1
            m_ = re.fullmatch(r"SB_CONFIG_SUIT_MPI_([A-Z0-9_]+)_(VENDOR|CLASS)_NAME", opt)
            lit = v.args[0].value if v.args and isinstance(v.args[0], jn.Const) and isinstance(v.args[0].value, str) else None
            R.check("C13-D3 template fallback names", lit is not None, f"{rel}: {opt}", file=rel, line=a.lineno, function=f"template {rel}",
                    construct=f"{opt}|default", expected="default('<literal name>'): independent of the other options, like the storage layer's own default",
                    found="the fallback is computed from another value" if lit is None else "", key_extra=opt)
            found.setdefault((rel, m_.group(1)), {})[m_.group(2)] = lit
    if n < 6:
        raise AnalysisError(f"only {n} MPI name options with a default found in the templates")
    for (rel, man), d in sorted(found.items()):
        if d.get("VENDOR") is None or d.get("CLASS") is None:
            continue
        want_role = "APP_ROOT" if man == "ROOT" else man
        got = pairs.get((d["VENDOR"], d["CLASS"]))
        R.check("C13-D3 template fallback names", got == want_role, f"{rel}: {man} falls back to ({d['VENDOR']}, {d['CLASS']})", file=rel, line=0,
                function=f"template {rel}", construct=f"{man}|pair", expected=f"a default pair of the storage layer with role {want_role}",
                found=f"role {got}" if got else "not a default pair of the storage layer", key_extra=man)


def _alternatives_of_parts(ps):
    """A concatenation whose parts are themselves conditional: every combination of their alternatives, each flattened again."""
    combos = [[]]
    for p in ps:
        alts = [t for _g, t in cases(p)] if isinstance(p, App) and p.op == "phi" else [p]
        combos = [c + [a_] for c in combos for a_ in alts]
        if len(combos) > 64:
            raise AnalysisError("EnvelopeStorage.__init__: too many alternatives of the assignment sources")
    return combos


def kconfig_reader(ctx):
    """The function that reads role assignments from the build configuration: by its name, or - moved / renamed - the one function
    of the module that opens a BuildConfiguration and names ManifestRole members."""
    repo = ctx.repo
    f = repo.find_func(IMG, "EnvelopeStorage._get_role_assignments_from_kconfig")
    if f is not None:
        return f
    cands = []
    for q, g in repo.mod(IMG).functions.items():
        names = {n.id for n in ast.walk(g.node) if isinstance(n, ast.Name)}
        if {"BuildConfiguration", "ManifestRole"} <= names:
            cands.append(g)
    if len(cands) != 1:
        raise AnalysisError(f"anchor function {IMG}:EnvelopeStorage._get_role_assignments_from_kconfig vanished ({len(cands)} candidates by role)")
    return cands[0]


_RE_OPS = ("call:re.match", "call:re.fullmatch", "call:re.search")


def kconfig_rules(ctx, ev):
    R = ctx.report
    repo = ctx.repo
    fi = kconfig_reader(ctx)
    fq = ctx.fq(fi)
    generic.loops_run_to_end(ctx, "C13-D2e every configured manifest is read", fi, {"append", "assign_role", "match", "fullmatch"}, "configuration entries", floor=0)
    outs = ev.outcomes(fi)
    rets = [o for o in outs if o.kind == "return"]
    raises = [o for o in outs if o.kind == "raise"]
    appends = [c for o in rets for c in find_effect_calls(o.effects, "meth:append")]
    built = None   # the list of entries when it is built by one comprehension that is returned
    if not appends:
        comps = {o.value for o in rets if isinstance(o.value, App) and o.value.op == "comp:list" and len(o.value.args) == 3}
        if len(comps) == 1 and len(rets) == len([o for o in rets if o.value in comps]):
            built = next(iter(comps))
    if len(appends) != 1 and built is None:
        raise AnalysisError(f"{fq}: append of the assignment not recognised")
    data = appends[0].args[1] if built is None else built.args[0]
    entry_node = appends[0].node if built is None else fi.node
    entry = {kv.args[0].v: kv.args[1] for kv in data.args} if isinstance(data, App) and data.op == "dict" else None
    if entry is None:
        raise AnalysisError(f"{fq}: assignment entry is not a dict literal")
    R.rule("C13-D2a same manifest", 2, "vendor and class names are read from the two keys of the same manifest")

    def unstr(t):
        return t.args[0] if isinstance(t, App) and t.op == "str" and len(t.args) == 1 else t

    matches = [s_ for o in outs for c in list(o.conds) + [e for e in all_effects(o.effects)] for s_ in subterms(c)
               if isinstance(s_, App) and s_.op in _RE_OPS and isinstance(s_.args[0], Const)]

    def key_parts(t):
        # config[ 'SB_CONFIG_SUIT_MPI_' + str(manifest) + '_X_NAME' ]
        while isinstance(t, App) and t.op in ("str", "call:str") and len(t.args) == 1:
            t = t.args[0]  # str(<configuration value>): the value is text already (C13-D4)
        if isinstance(t, App) and t.op == "idx":
            parts = cat_parts(t.args[1])
            if len(parts) == 3 and isinstance(parts[0], Const) and isinstance(parts[2], Const):
                return t.args[0], parts[0].v, unstr(parts[1]), parts[2].v
        # the value of the (key, value) pair being iterated, whose key was matched by ^<prefix>(?P<manifest>…)<suffix>$:
        # the same as config[<prefix> + manifest + <suffix>]
        if isinstance(t, App) and t.op == "unpack" and t.args[1:] == (Const(1), Const(2)) and isinstance(t.args[0], App) and t.args[0].op == "elem" \
                and isinstance(t.args[0].args[0], App) and t.args[0].args[0].op == "meth:items":
            cfg = t.args[0].args[0].args[0]
            keyterm = App("unpack", (t.args[0], Const(0), Const(2)))
            for mt in matches:
                if mt.args[1] == keyterm:
                    pm = re.fullmatch(r"\^?(\w*)\(\?P<manifest>[^()]*\)(\w*)\$?", mt.args[0].v)
                    if pm and mt.op != "call:re.fullmatch" and not (mt.args[0].v.startswith("^") and mt.args[0].v.endswith("$")) and mt.op == "call:re.search":
                        pm = None
                    if pm:
                        return cfg, pm.group(1), App("meth:group", (mt, Const("manifest"))), pm.group(2)
        return None

    kv_, kc = key_parts(entry.get("vendor_name")), key_parts(entry.get("class_name"))
    ok = kv_ is not None and kc is not None and kv_[0] == kc[0] and kv_[1] == kc[1] == "SB_CONFIG_SUIT_MPI_" and kv_[2] == kc[2]
    R.check("C13-D2a same manifest", ok and kv_[3] == "_VENDOR_NAME" and kc[3] == "_CLASS_NAME",
            "config[SB_CONFIG_SUIT_MPI_<m>_VENDOR_NAME] / config[SB_CONFIG_SUIT_MPI_<m>_CLASS_NAME] with one <m>",
            mod=fi.module, node=entry_node, function=fq, expected="both keys built from the same matched manifest name",
            found=f"vendor key {repr(entry.get('vendor_name'))[-120:]}, class key {repr(entry.get('class_name'))[-120:]}")
    # the manifest name is the regex group of the key being iterated
    manifest = kv_[2] if kv_ else (kc[2] if kc else None)
    grp_ok = manifest is not None and any(isinstance(s, App) and s.op == "meth:group" and s.args[1:] == (Const("manifest"),)
                                          for s in subterms(manifest))
    rx = [s for s in subterms(manifest) if isinstance(s, App) and s.op in _RE_OPS] if manifest is not None else []
    pattern = rx[0].args[0].v if rx and isinstance(rx[0].args[0], Const) else None
    R.check("C13-D2a same manifest", grp_ok and pattern is not None, "manifest name = named group of the matched key", mod=fi.module,
            node=fi.node, function=fq, expected="re.match(<pattern with (?P<manifest>…)>, key).group('manifest')",
            found=repr(manifest)[:200])

    # role mapping for every manifest name the templates / Kconfig use
    R.rule("C13-D2b role mapping", 3, "each configurable manifest name maps to the intended ManifestRole member")
    names = set()
    for rel, txt in repo.extra.items():
        names |= set(re.findall(r"SB_CONFIG_SUIT_MPI_([A-Z0-9_]+?)_VENDOR_NAME", txt))
        names |= set(re.findall(r"SUIT_MPI_([A-Z0-9_]+?)_VENDOR_NAME", txt))
    names = {n for n in names if n}
    if not {"ROOT", "APP_LOCAL_1", "RAD_LOCAL_1"} <= names:
        raise AnalysisError(f"configurable manifest names not found in templates/Kconfig: {sorted(names)}")
    role = entry.get("role")
    if not (isinstance(role, App) and role.op == "enum_by_name"):
        raise AnalysisError(f"{fq}: role is not ManifestRole[<name>]")
    roles_cls = role.args[0].obj
    members = {n for n in roles_cls.attrs if not n.startswith("_")}
    for n in sorted(names):
        want = "APP_ROOT" if n == "ROOT" else n
        try:
            base = manifest.args[0] if isinstance(manifest, App) and manifest.op == "str" else manifest
            got = teval(role.args[1], {manifest: n, base: n, App("str", (base,)): n})
        except Unknown as e:
            raise AnalysisError(f"{fq}: role name expression not evaluable: {e}")
        matches_regex = pattern is not None and getattr(re, rx[0].op.split(".")[-1])(pattern, f"SB_CONFIG_SUIT_MPI_{n}_VENDOR_NAME") is not None
        R.check("C13-D2b role mapping", got == want and got in members and matches_regex, f"{n} -> {want}", mod=fi.module,
                node=fi.node, function=fq, expected=f"ManifestRole.{want}, key matched by the pattern",
                found=f"ManifestRole[{got!r}]{'' if got in members else ' (no such member)'}"
                      f"{'' if matches_regex else '; key not matched by pattern ' + repr(pattern)}", key_extra=n)

    # duplicate pair rejected before the entry is appended: some raising path is selected by "both names equal an earlier entry",
    # and the scan over the earlier entries is complete (no break / return leaves it early)
    R.rule("C13-D2c duplicate pair rejected", 2, "a vendor/class pair given to two roles raises before it is recorded; every earlier entry is compared")

    any_scans = []

    def equalities(conds):
        out = []
        for c in conds:
            todo = [c]
            while todo:
                x = todo.pop()
                if isinstance(x, App) and x.op == "and":
                    todo.extend(x.args)
                elif isinstance(x, App) and x.op == "call:any" and len(x.args) == 1 and isinstance(x.args[0], App) \
                        and x.args[0].op in ("comp:gen", "comp:list") and len(x.args[0].args) == 3:
                    # any(<test of item> for item in <earlier entries>): the test holds for some earlier entry
                    any_scans.append(x.args[0])
                    todo.append(x.args[0].args[0])
                elif isinstance(x, App) and x.op == "==":
                    out.append(x)
                elif isinstance(x, App) and x.op == "not" and isinstance(x.args[0], App) and x.args[0].op == "!=":
                    out.append(App("==", x.args[0].args))
        return out
    ok = False
    kpv, kpc = key_parts(entry.get("vendor_name")), key_parts(entry.get("class_name"))
    for r in raises:
        eqs = equalities(r.conds)
        sides = set()
        for e in eqs:
            for a in e.args:
                if kpv is not None and key_parts(a) == kpv:
                    sides.add("v")
                if kpc is not None and key_parts(a) == kpc:
                    sides.add("c")
        item_sides = any(isinstance(a, App) and a.op == "idx" and a.args[1] == Const("vendor_name") for e in eqs for a in e.args) \
            and any(isinstance(a, App) and a.op == "idx" and a.args[1] == Const("class_name") for e in eqs for a in e.args)
        if sides == {"v", "c"} and item_sides:
            pre = find_effect_calls(r.effects, "meth:append")
            exc = r.value
            en = exc.args[0].obj.name if isinstance(exc, App) and exc.op == "new" and isinstance(exc.args[0], Ref) else "?"
            ok = ok or (not pre and en == "GeneratorError")
    if not ok and built is not None:
        # duplicates looked for after the list is complete.  itertools.groupby(xs, key) (library fact: it starts a new group whenever
        # the key CHANGES, i.e. it groups adjacent items only) finds every duplicate pair iff xs is sorted by the same key.
        for r in raises:
            exc = r.value
            en = exc.args[0].obj.name if isinstance(exc, App) and exc.op == "new" and isinstance(exc.args[0], Ref) else "?"
            gbs = [c.args[0] for c in r.conds if isinstance(c, App) and c.op == "inloop" and len(c.args) == 1 and isinstance(c.args[0], App)
                   and c.args[0].op == "call:itertools.groupby"]
            if en != "GeneratorError" or len(gbs) != 1:
                continue
            gb = gbs[0]
            pos = [x for x in gb.args if not (isinstance(x, App) and x.op == "kw")]
            kws = {x.args[0].v: x.args[1] for x in gb.args if isinstance(x, App) and x.op == "kw"}
            keyf = kws.get("key", pos[1] if len(pos) > 1 else None)
            both = isinstance(keyf, App) and keyf.op == "call:operator.itemgetter" and {a_.v for a_ in keyf.args if isinstance(a_, Const)} == {"vendor_name", "class_name"} \
                and len(keyf.args) == 2
            group = App("unpack", (App("elem", (gb,)), Const(1), Const(2)))
            sized = any(isinstance(c, App) and c.op in (">", ">=", "!=") and any(s_ == group for s_ in subterms(c)) for c in r.conds)
            if not (both and sized and pos):
                continue
            src = pos[0]
            srt = isinstance(src, App) and src.op == "call:sorted" and src.args and src.args[0] == built and \
                {x.args[0].v: x.args[1] for x in src.args if isinstance(x, App) and x.op == "kw"}.get("key") == keyf
            R.check("C13-D2c duplicate pair rejected", True, "same vendor_name and class_name as an earlier entry", mod=fi.module,
                    node=r.node, function=fq, expected="entries grouped by (vendor_name, class_name); a group of two or more raises GeneratorError", found="")
            R.check("C13-D2c duplicate pair rejected", srt, "the scan compares every earlier entry", mod=fi.module, node=r.node, function=fq,
                    expected="every pair of entries is compared (groupby over the entries sorted by the same key, or a scan of all earlier entries)",
                    found="itertools.groupby over the entries in file order groups adjacent entries only: a pair repeated with another entry in between is accepted")
            return
    R.check("C13-D2c duplicate pair rejected", ok, "same vendor_name and class_name as an earlier entry", mod=fi.module,
            node=fi.node, function=fq, expected="raise GeneratorError when both names equal an earlier entry, before append",
            found="no such rejecting path")
    scans = [n for n in ast.walk(fi.node) if isinstance(n, ast.For) and any(isinstance(x, ast.Raise) for x in ast.walk(n))
             and not any(isinstance(x, ast.For) and x is not n and any(isinstance(y, ast.Raise) for y in ast.walk(x)) for x in ast.walk(n))]
    if ok and not scans and any_scans:
        # written as any(… for item in entries): every earlier entry is compared unless the generator filters some out
        filtered = [c_ for c_ in any_scans if c_.args[2].args]
        R.check("C13-D2c duplicate pair rejected", not filtered, "the scan compares every earlier entry", mod=fi.module, node=fi.node, function=fq,
                expected="any(<both names equal> for item in <all earlier entries>)", found="the generator skips some of the earlier entries")
        return
    if len(scans) != 1:
        raise AnalysisError(f"{fq}: scan over the earlier entries not recognised ({len(scans)})")
    early = [x for x in ast.walk(scans[0]) if isinstance(x, (ast.Break, ast.Return))]
    R.check("C13-D2c duplicate pair rejected", not early, "the scan compares every earlier entry", mod=fi.module,
            node=early[0] if early else scans[0], function=fq, expected="no break / return inside the scan before all entries are compared",
            found=f"{type(early[0]).__name__.lower()} at line {early[0].lineno} ends the scan early" if early else "")
