"""C11 — payload extraction conserves payloads and leaves authenticated content intact (structure)."""
from __future__ import annotations

import ast

from sa.absint import Evaluator, all_effects
from sa.index import AnalysisError
from sa.terms import App, Const, Ref, Sym, cases, subterms
from . import argname, frozen, generic
from .c04 import strip_sites

EXPLANATION = ("abstract evaluation of the two extraction commands: the string keys of the decoded envelope map are "
               "partitioned into dependencies / extracted / kept by full-match of the two patterns; each extracted key is "
               "removed with pop and handed to the cache under the same key; each dependency is recursed with the same two "
               "patterns and stored back under its own key; the write set on the envelope map is exactly that; single "
               "extraction pops, optionally replaces under the same name with the whole replacement file, and writes the "
               "popped bytes unmodified; library-fact rule for in-place mutation of decoded tag content; no repository code executed")

CC = "suit_generator.cmd_cache_create"
PX = "suit_generator.cmd_payload_extract"
P = lambda n: Sym("param:" + n)


def env_map_of(L):
    """The decoded map itself or a dict copy of it."""
    v = App("attr:value", (L,))
    return v, App("call:dict", (v,))


def regex_calls(t):
    out = []
    for s in subterms(t):
        if isinstance(s, App) and s.op.startswith("call:re."):
            out.append(s)
    return out


def loops_of(effects):
    out = []
    for e in effects:
        if isinstance(e, App) and e.op == "eff:loop":
            out.append(e)
        elif isinstance(e, App) and e.op == "eff:if":
            out.extend(loops_of(e.args[1].args))
            out.extend(loops_of(e.args[2].args))
    return out


def run(ctx):
    R = ctx.report
    repo = ctx.repo
    ctx.use_files("suit_generator/cmd_cache_create.py", "suit_generator/cmd_payload_extract.py")
    fi = repo.func(CC, "CacheFromEnvelope.fill_cache_from_envelope_data")
    # helpers of the same module are followed; the recursive call and the cache methods stay opaque
    ev = Evaluator(repo, inline_depth=2, inline_filter=lambda f: f is not fi and f.module is fi.module and (f.cls is None or f.cls is fi.cls))
    fq = ctx.fq(fi)
    generic.loops_run_to_end(ctx, "C11-D1k every selected payload and dependency is visited", fi, {"add_cache_slot", "fill_cache_from_envelope_data", "pop"},
                             "selected payloads / dependency envelopes", floor=0)
    outs = ev.outcomes(fi)
    rets = [o for o in outs if o.kind == "return"]
    if not rets:
        raise AnalysisError(f"{fq}: no normal outcome")
    # the main outcome is the one that runs the loops; any other normal outcome (an early return) is checked against it below
    rets.sort(key=lambda x: -len(loops_of([strip_sites(e) for e in x.effects])))
    o = rets[0]
    early = rets[1:]
    L = strip_sites(App("cborload", (P("envelope_data"),)))
    raw, copy = env_map_of(L)
    eff = [strip_sites(e) for e in o.effects]
    used_copy = any(s == copy for e in eff for s in subterms(e))
    ENV = copy if used_copy else raw
    cache, omit, depre = P("cache"), P("omit_payload_regex"), P("dependency_regex")
    loops = loops_of(eff)

    # classify loops by what their body does
    removal, extraction, recursion = [], [], []
    for lp in loops:
        body = list(all_effects(lp.args[1].args))
        for e in body:
            if isinstance(e, App) and e.op == "eff:call" and isinstance(e.args[0], App):
                c = e.args[0]
                if c.op == "meth:remove":
                    removal.append((lp, c))
                if c.op == "meth:add_cache_slot":
                    extraction.append((lp, c))
                if c.op == "call" and isinstance(c.args[0], Ref) and c.args[0].obj is fi:
                    recursion.append((lp, c))
    def dedupe(pairs):
        out = []
        for lp, c in pairs:
            if not any(lp is l2 and c == c2 for l2, c2 in out):
                out.append((lp, c))
        return out
    extraction, recursion = dedupe(extraction), dedupe(recursion)
    if len(extraction) != 1 or len(recursion) != 1:
        raise AnalysisError(f"{fq}: extraction/recursion loops not recognised ({len(extraction)}/{len(recursion)})")

    R.rule("C11-D1a selection", 5, "string keys; dependencies = full-match of the dependency pattern; extracted = no full-match of the omit pattern")
    lpB, add = extraction[0]
    lpC, rec = recursion[0]
    itB, itC = lpB.args[0], lpC.args[0]
    R.rule("C11-D1h every level is processed", 1, "no normal exit skips the extraction loop or the dependency loop unless its guard says the list is empty")

    def implies_empty(conds, it):
        for c in conds:
            c = strip_sites(c)
            if c in (App("not", (it,)), App("==", (App("len", (it,)), Const(0))), App("<", (App("len", (it,)), Const(1)))):
                return True
        return False
    bad_early = []
    for x in early:
        xl = loops_of([strip_sites(e) for e in x.effects])
        has_ext = any(lp.args[0] == itB for lp in xl)
        has_rec = any(lp.args[0] == itC for lp in xl)
        if not (has_ext or implies_empty(x.conds, itB)):
            bad_early.append((x, "selected payloads stay in the envelope"))
        if not (has_rec or implies_empty(x.conds, itC)):
            bad_early.append((x, "dependency envelopes are not processed"))
    R.check("C11-D1h every level is processed", not bad_early, f"{len(early)} early return(s)", mod=fi.module,
            node=bad_early[0][0].node if bad_early else fi.node, function=fq,
            expected="every normal exit has extracted the selected payloads and recursed into every dependency of this level",
            found="; ".join(f"return under {[repr(strip_sites(c))[:90] for c in x.conds[-2:]]}: {why}" for x, why in bad_early)[:400])
    decided = selection_by_evaluation(ctx, fi, fq, eff, itB, itC, raw, copy, omit, depre)
    R.analysed["selection decided by"] = "evaluation on the grid" if decided else "normal forms"
    if not decided:
        selection_by_shape(ctx, fi, fq, itB, itC, ENV, omit, depre, removal)

    R.rule("C11-D1c pairing", 7, "pop(k) -> cache slot k; dependency d recursed and stored back under d; same patterns")
    k = App("elem", (itB,))
    pos = [a for a in add.args[1:] if not (isinstance(a, App) and a.op == "kw")]
    R.check("C11-D1c pairing", add.args[0] == cache and len(pos) == 2 and pos[0] == k, "cache slot keyed by the payload's own name",
            mod=fi.module, node=add.node, function=fq, expected="cache.add_cache_slot(payload, …)", found=repr(add)[:200])
    val = pos[1] if len(pos) == 2 else None
    popped = isinstance(val, App) and val.op == "meth:pop" and val.args[0] == ENV and val.args[1] == k
    R.check("C11-D1c pairing", popped, "the payload is removed from the envelope (pop of the same key), not copied", mod=fi.module,
            node=add.node, function=fq, expected="envelope.value.pop(payload)", found=repr(val)[:200])
    d = App("elem", (itC,))
    rargs = rec.args[1:]
    if rargs and isinstance(rargs[0], Ref):
        rargs = rargs[1:]
    R.check("C11-D1c pairing", len(rargs) == 4 and rargs[0] == cache and rargs[1] == App("idx", (ENV, d)),
            "recursion into the dependency's own bytes with the same cache", mod=fi.module, node=rec.node, function=fq,
            expected="fill_cache_from_envelope_data(cache, envelope.value[dependency], …)", found=repr(rargs[:2])[:240])
    R.check("C11-D1c pairing", len(rargs) == 4 and rargs[2] == omit and rargs[3] == depre, "the same two patterns apply at every level",
            mod=fi.module, node=rec.node, function=fq, expected="(omit_payload_regex, dependency_regex)", found=repr(rargs[2:])[:160])
    stores = [e for e in all_effects(eff) if isinstance(e, App) and e.op == "eff:store" and e.args[0] == ENV]
    back = [e for e in stores if e.args[1] == d]
    val_ok = bool(back) and all(strip_maybe(e.args[2]) == rec for e in back)
    R.check("C11-D1c pairing", val_ok, "the stripped dependency is stored back under the key it was read from", mod=fi.module,
            node=back[0].node if back else fi.node, function=fq, expected="envelope.value[dependency] = new_dependency_data",
            found=f"{[repr(e)[:160] for e in stores]}")

    # every way through one iteration of the dependency loop stores the stripped dependency back: a handler that swallows a failure of
    # the recursive call and goes on leaves payloads that were already moved to the cache in the (unchanged) dependency as well
    from sa.absint import flatten_effects as _flat2
    body_paths = list(_flat2(list(lpC.args[1].args)))
    unstored = [pth for pth in body_paths if not any(isinstance(e, App) and e.op == "eff:store" and strip_sites(e).args[0] == ENV and strip_sites(e).args[1] == d
                                                      for e in pth)]
    R.check("C11-D1c pairing", not unstored, "every way through an iteration of the dependency loop stores the result back (or leaves the function)",
            mod=fi.module, node=rec.node, function=fq, expected="a failure of the recursive call aborts the command",
            found=f"{len(unstored)} of {len(body_paths)} paths continue without storing: a dependency that failed half-way keeps payloads that are already in the cache")
    # the payload popped from the envelope reaches the cache or the command fails: the hand-over is not inside a handler that goes on
    direct_add = [e for e in lpB.args[1].args if isinstance(e, App) and e.op == "eff:call" and strip_sites(e.args[0]) == strip_sites(add)]
    R.check("C11-D1c pairing", bool(direct_add), "a failure of add_cache_slot aborts the command (the popped payload is not dropped)", mod=fi.module,
            node=add.node, function=fq, expected="cache.add_cache_slot(payload, envelope.value.pop(payload)) outside any handler that continues",
            found="the hand-over sits in a try whose handler goes on: a payload that was already removed from the envelope ends up nowhere")
    R.rule("C11-D1d write set and result", 3, "nothing else in the envelope map is written; result = re-encoded envelope with the same tag")
    other = [e for e in all_effects(eff) if isinstance(e, App) and (
        (e.op in ("eff:store", "eff:delitem") and e.args[0] in (ENV, raw) and e not in back) or
        (e.op == "eff:call" and isinstance(e.args[0], App) and e.args[0].op in frozen.MUTATORS
         and e.args[0].args[0] in (ENV, raw) and e.args[0] != val))]
    R.check("C11-D1d write set and result", not other, "write set = {extracted keys (pop), dependency keys}", mod=fi.module, node=fi.node,
            function=fq, expected="no other mutation of envelope.value", found=f"{[repr(e)[:120] for e in other]}")
    rv = strip_sites(o.value)
    want = [App("cbor", (App("tag", (App("attr:tag", (L,)), ENV)),)), App("cbor", (L,))]
    R.check("C11-D1d write set and result", rv in want, "returns cbor2.dumps(<same tag, same map>)", mod=fi.module, node=fi.node,
            function=fq, expected="cbor2.dumps(envelope)", found=repr(rv)[:200])
    # invalid input -> GeneratorError on both guards
    rej = [x for x in outs if x.kind == "raise"]
    names = {_exc(x) for x in rej}
    R.check("C11-D1d write set and result", names == {"GeneratorError"} and len(rej) >= 2, "malformed input is reported as GeneratorError",
            mod=fi.module, node=fi.node, function=fq, expected="GeneratorError", found=f"{sorted(names)}")

    file_level(ctx, ev)
    single_extract(ctx, ev)
    generic.serializer_options(ctx, "C11-D1i serializer options", (CC, PX), 2, "members that are not moved keep their bytes and their order")
    R.rule("C11-D2 extraction path executable with installed cbor2", 1, "no in-place mutation of decoded tag content")
    frozen.check(ctx, "C11-D2 extraction path executable with installed cbor2", [CC, PX], {})


def selection_by_shape(ctx, fi, fq, itB, itC, ENV, omit, depre, removal):
    """The selection rules on the normal forms of the two iterables (used when they cannot be evaluated)."""
    R = ctx.report
    # these rules read the three-step form (candidate comprehension, dependency comprehension, omit comprehension).  A selection that
    # is written another way and could not be evaluated either is a form the check cannot decide - not a violation
    if not any(isinstance(s, App) and s.op == "comp:list" and s.args[1] in (App("meth:keys", (ENV,)), ENV) for s in subterms(itB)):
        raise AnalysisError(f"{fq}: the selection of payloads / dependencies is neither evaluable on the grid nor in the three-comprehension form")
    # every regex use is fullmatch with (pattern parameter, key)
    rx = regex_calls(itB) + regex_calls(itC)
    names = {r.op for r in rx}
    R.check("C11-D1a selection", bool(rx) and names == {"call:re.fullmatch"}, "patterns are applied with re.fullmatch", mod=fi.module,
            node=fi.node, function=fq, expected="re.fullmatch (whole name)", found=f"{sorted(names)}")
    pats = {repr(r.args[0]) for r in rx}
    R.check("C11-D1a selection", pats == {repr(omit), repr(depre)}, "both patterns are used, each as the pattern argument", mod=fi.module,
            node=fi.node, function=fq, expected="fullmatch(omit_payload_regex, k) and fullmatch(dependency_regex, k)", found=f"{sorted(pats)}")
    # base list: string keys of the envelope map
    base_ok = any(isinstance(s, App) and s.op == "comp:list" and s.args[1] in (App("meth:keys", (ENV,)), ENV)
                  and s.args[2] == App("conds", (App("isinstance", (App("elem", (s.args[1],)), Ref("builtin", "str"))),))
                  and s.args[0] == App("elem", (s.args[1],)) for s in subterms(itB))
    R.check("C11-D1a selection", base_ok, "candidates are exactly the text-string keys of the envelope map", mod=fi.module, node=fi.node,
            function=fq, expected="[k for k in envelope.value.keys() if isinstance(k, str)]", found=repr(itB)[:200])
    # dependency polarity: selected when fullmatch is not None
    dep_alts = [t for g, t in cases(itC)]
    dep_sel = [t for t in dep_alts if isinstance(t, App) and t.op == "comp:list"]
    pol_ok = False
    for t in dep_sel:
        conds = t.args[2].args
        k = App("elem", (t.args[1],))
        fm = App("call:re.fullmatch", (depre, k))
        if list(conds) in ([App("not", (App("is", (fm, Const(None))),))], [App("is not", (fm, Const(None)))], [fm]):
            pol_ok = True
    none_case = any(t == Const([]) for t in dep_alts)

    def given(guards, param):
        """True / False when the guards say the pattern parameter is / is not None-free, None when they say nothing"""
        for c_, v_ in guards.items():
            if c_ == App("is not", (param, Const(None))):
                return bool(v_)
            if c_ == App("is", (param, Const(None))):
                return not bool(v_)
            if c_ == param:
                return bool(v_)
        return None
    for g_, t_ in cases(itC):
        if isinstance(t_, App) and t_.op == "comp:list" and given(g_, depre) is not True:
            pol_ok = False  # the pattern is applied on the branch where none was given
        if t_ == Const([]) and given(g_, depre) is not False:
            none_case = False
    R.check("C11-D1a selection", pol_ok and none_case, "dependencies: names fully matching the dependency pattern; none when no pattern is given",
            mod=fi.module, node=fi.node, function=fq, expected="[k for k in integrated if re.fullmatch(dependency_regex, k) is not None] / []",
            found=repr(itC)[:240])
    ext_alts = [t for g, t in cases(itB)]
    ext_sel = [t for t in ext_alts if isinstance(t, App) and t.op == "comp:list" and regex_calls(t.args[2])]
    pol2 = False
    for t in ext_sel:
        conds = t.args[2].args
        k = App("elem", (t.args[1],))
        fm = App("call:re.fullmatch", (omit, k))
        if list(conds) in ([App("is", (fm, Const(None)))], [App("not", (fm,))]):
            pol2 = True
    for g_, t_ in cases(itB):
        filtered = isinstance(t_, App) and t_.op == "comp:list" and bool(regex_calls(t_.args[2]))
        if filtered and given(g_, omit) is not True:
            pol2 = False
        if not filtered and given(g_, omit) is not False:
            pol2 = False
    R.check("C11-D1a selection", pol2 and len(ext_alts) > len(ext_sel), "extracted: names not fully matching the omit pattern; all when no pattern is given",
            mod=fi.module, node=fi.node, function=fq, expected="integrated if omit is None else [k … if re.fullmatch(omit, k) is None]",
            found=repr(itB)[:240])

    R.rule("C11-D1b disjoint partition", 2, "dependencies are removed from the candidates before payloads are selected")
    rem_ok = bool(removal) and all(c.args[1] == App("elem", (lp.args[0],)) for lp, c in removal) and any(
        strip_loop(lp.args[0]) == strip_loop(t) for lp, c in removal for t in dep_sel)
    R.check("C11-D1b disjoint partition", rem_ok, "integrated.remove(dep) for every dependency", mod=fi.module, node=fi.node, function=fq,
            expected="for dep in integrated_dependencies: integrated.remove(dep)", found=f"{[repr(c)[:120] for lp, c in removal]}")
    uses_mutated = any(isinstance(s, App) and s.op == "mutated" and s.args[1] == Const("remove") for s in subterms(itB))
    R.check("C11-D1b disjoint partition", uses_mutated, "payload selection uses the candidates after the removal", mod=fi.module,
            node=fi.node, function=fq, expected="payloads_to_extract derives from the reduced list", found=repr(itB)[:200])



def selection_by_evaluation(ctx, fi, fq, eff, itB, itC, raw, copy, omit, depre) -> bool:
    """Decide the selection by evaluating the two extracted iterables (the list the extraction loop walks, the list the dependency
    loop walks) on a grid of key sets and patterns against the specification: candidates = text-string keys in map order;
    dependencies = candidates fully matching the dependency pattern (none without a pattern); extracted = the other candidates that
    do not fully match the omit pattern (all of them without a pattern).  The grid separates fullmatch from match / search, the two
    polarities, the None cases, non-string keys, and a key matching both patterns.  Returns False when the terms are not evaluable
    (the caller then falls back to the rules on normal forms)."""
    import re as _re
    from sa.teval import teval, Unknown
    R = ctx.report
    loops = {}

    def collect(effs):
        for e in effs:
            if not isinstance(e, App):
                continue
            if e.op == "eff:loop":
                ln = getattr(e.node, "lineno", None)
                if ln is not None:
                    loops[ln] = (e.args[0], e.node.iter.id if isinstance(e.node, ast.For) and isinstance(e.node.iter, ast.Name) else None)
                collect(e.args[1].args)
            elif e.op == "eff:if":
                collect(e.args[1].args)
                collect(e.args[2].args)
            elif e.op in ("eff:alts",):
                for alt in e.args:
                    collect(alt.args)
            elif e.op == "eff:partial":
                collect(e.args[0].args)
    collect(eff)
    # every value carried by a loop, per loop: a loop that walks a list it mutates needs all of them at once
    loopouts = {}
    for t_ in [itB, itC] + list(eff):
        for s_ in subterms(t_):
            if isinstance(s_, App) and s_.op == "loopout" and len(s_.args) == 3:
                loopouts.setdefault(s_.args[1].v, {})[s_.args[0].v] = s_.args[2]
    keysets = [["fw", "dep", "dep_a", "xdep", "omit", "omit_1", "xomit", "both", 7, b"raw", "plain"], ["dep", "omit"], [], [3, "only"]]
    patterns = [(None, None), ("dep", None), (None, "omit"), ("dep", "omit"), ("(dep|both)", "(omit|both)"), ("dep.*", ".*omit"), (".*", None), (None, ".*"),
                ("", ""), ("nomatch", "nomatch")]
    results = []
    try:
        for keys in keysets:
            m = {k: b"x" for k in keys}
            for dp, om in patterns:
                env = {raw: m, copy: dict(m), depre.name: dp, omit.name: om, "__loops__": loops, "__loopouts__": loopouts}
                strs = [k for k in keys if isinstance(k, str)]
                want_dep = [k for k in strs if dp is not None and _re.fullmatch(dp, k)]
                want_ext = [k for k in strs if k not in want_dep and (om is None or not _re.fullmatch(om, k))]
                got_dep, got_ext = list(teval(itC, env)), list(teval(itB, env))
                results.append(((keys, dp, om), want_dep, got_dep, want_ext, got_ext))
    except Unknown:
        return False
    except Exception as e:  # a term that evaluates to something that is not a list of keys
        raise AnalysisError(f"{fq}: selection terms not evaluable ({type(e).__name__}: {e})")
    bad_dep = next((r for r in results if r[1] != r[2]), None)
    bad_ext = next((r for r in results if r[3] != r[4]), None)
    R.check("C11-D1a selection", bad_dep is None, "dependencies: the text-string keys fully matching the dependency pattern; none when no pattern is given",
            mod=fi.module, node=fi.node, function=fq, expected=f"{bad_dep[1]} for keys/dependency/omit = {bad_dep[0]}" if bad_dep else "as specified on the whole grid",
            found=f"{bad_dep[2]}" if bad_dep else "")
    R.check("C11-D1a selection", bad_ext is None, "extracted: the other text-string keys not fully matching the omit pattern; all of them when no pattern is given",
            mod=fi.module, node=fi.node, function=fq, expected=f"{bad_ext[3]} for keys/dependency/omit = {bad_ext[0]}" if bad_ext else "as specified on the whole grid",
            found=f"{bad_ext[4]}" if bad_ext else "")
    for _ in range(3):
        R.ok("C11-D1a selection", f"grid of {len(results)} (key set, patterns) cases")
    R.rule("C11-D1b disjoint partition", 2, "dependencies are removed from the candidates before payloads are selected")
    overlap = next((r for r in results if set(r[2]) & set(r[4])), None)
    R.check("C11-D1b disjoint partition", overlap is None, "no key is both recursed into and extracted", mod=fi.module, node=fi.node, function=fq,
            expected="dependencies and extracted payloads are disjoint", found=f"{sorted(set(overlap[2]) & set(overlap[4]))} for {overlap[0]}" if overlap else "")
    R.ok("C11-D1b disjoint partition", "evaluated on the grid")
    return True


def strip_loop(t):
    return t


def strip_maybe(t):
    while isinstance(t, App) and t.op in ("maybe_assigned", "loopout", "loopvar"):
        t = t.args[-1]
    return t


def _exc(o):
    v = o.value
    if isinstance(v, App) and v.op == "new":
        return v.args[0].obj.name
    if isinstance(v, App) and v.op.startswith("call:"):
        return v.op.split(":")[-1]
    return "?"


def file_level(ctx, ev):
    R = ctx.report
    repo = ctx.repo
    R.rule("C11-D1e file level", 4, "whole input file in, returned bytes out, both patterns passed")
    fi = repo.func(CC, "CacheFromEnvelope.fill_cache_from_envelope")
    fq = ctx.fq(fi)
    outs = [o for o in ev.outcomes(fi) if o.kind == "return"]
    outs = generic.sole_outcome(ctx, outs, f"{fq}: expected one outcome")
    o = outs[0]
    calls = [e.args[0] for e in all_effects(o.effects) if isinstance(e, App) and e.op == "eff:call" and isinstance(e.args[0], App)
             and e.args[0].op == "call" and isinstance(e.args[0].args[0], Ref)
             and e.args[0].args[0].obj.name == "fill_cache_from_envelope_data"]
    if len(calls) != 1:
        raise AnalysisError(f"{fq}: call not recognised")
    c = calls[0]
    a = [x for x in c.args[1:] if not isinstance(x, Ref)]
    R.check("C11-D1e file level", a[:2] == [P("cache"), App("filebytes", (P("input_envelope"),))], "input = whole binary content of the envelope file",
            mod=fi.module, node=c.node, function=fq, expected="(cache, open(input_envelope, 'rb').read(), …)", found=repr(a[:2])[:200])
    R.check("C11-D1e file level", a[2:] == [P("omit_payload_regex"), P("dependency_regex")], "patterns passed in order", mod=fi.module,
            node=c.node, function=fq, expected="(omit_payload_regex, dependency_regex)", found=repr(a[2:])[:160])
    w = [e for e in all_effects(o.effects) if isinstance(e, App) and e.op == "eff:write"]
    R.check("C11-D1e file level", len(w) == 1 and w[0].args[0] == App("open", (P("output_envelope"), Const("wb"))) and w[0].args[1] == c,
            "the returned bytes are written unmodified to the output envelope", mod=fi.module, node=fi.node, function=fq,
            expected="open(output_envelope, 'wb').write(result)", found=repr(w)[:200])
    # the output file is opened (truncated) only after the input was read and processed: input and output may be the same file
    from sa.absint import flatten_effects as _flat
    order_ok = True
    for seq in _flat(o.effects):
        i_out = [i for i, e in enumerate(seq) if isinstance(e, App) and e.op == "eff:open" and e.args[0] == P("output_envelope")]
        i_call = [i for i, e in enumerate(seq) if isinstance(e, App) and e.op == "eff:call" and e.args[0] == c]
        if i_out and i_call and min(i_out) < max(i_call):
            order_ok = False
    R.check("C11-D1e file level", order_ok, "the output envelope is opened for writing only after the extraction returned", mod=fi.module,
            node=fi.node, function=fq, expected="read input; extract; then open(output_envelope, 'wb') - stripping in place must not empty the input first",
            found="the output file is opened (truncated) before the input has been read and processed")
    R.rule("C11-D1f CLI plumbing", 4, "main passes each option to the parameter of the same name")
    n = argname.check_function(ctx, "C11-D1f CLI plumbing", repo.func(CC, "main"))
    if n < 4:
        raise AnalysisError("cmd_cache_create.main: named bindings not recognised")


def object_of(t):
    """The container object a term denotes, whatever mutations the local name that holds it has seen (mutated(x, ...) is still x;
    `x after a conditional mutation` is x)."""
    while True:
        if isinstance(t, App) and t.op == "mutated" and t.args:
            t = t.args[0]
            continue
        if isinstance(t, App) and t.op == "phi":
            a, b = object_of(t.args[1]), object_of(t.args[2])
            if a == b:
                t = a
                continue
        return t


def _norm_objects(e):
    """An effect with the receiver / container of a store, delete or method call reduced to the object it denotes."""
    if isinstance(e, App) and e.op in ("eff:store", "eff:delitem") and e.args:
        return App(e.op, (object_of(e.args[0]),) + tuple(e.args[1:]), e.node)
    if isinstance(e, App) and e.op == "eff:call" and isinstance(e.args[0], App) and e.args[0].op.startswith("meth:") and e.args[0].args:
        c = e.args[0]
        return App("eff:call", (App(c.op, (object_of(c.args[0]),) + tuple(c.args[1:]), c.node),) + tuple(e.args[1:]), e.node)
    if isinstance(e, App) and e.op in ("eff:if", "eff:loop", "eff:partial", "eff:alts", "seq"):
        return App(e.op, [_norm_objects(a) for a in e.args], e.node)
    return e


def _is_not_as_is(guards):
    """`x is not None` spelled as not(`x is None`) so that both ways of writing the test compare equal."""
    out = []
    for g, pol in guards:
        if isinstance(g, App) and g.op == "is not":
            out.append((App("is", g.args), not pol))
        else:
            out.append((g, pol))
    return out


def _norm_objects_term(t):
    if isinstance(t, App) and t.op.startswith("meth:") and t.args:
        return App(t.op, (object_of(t.args[0]),) + tuple(_norm_objects_term(a) for a in t.args[1:]), t.node)
    if isinstance(t, App):
        return App(t.op, [_norm_objects_term(a) for a in t.args], t.node)
    return t


def single_extract(ctx, ev):
    R = ctx.report
    repo = ctx.repo
    R.rule("C11-D1g single payload", 6, "pop(name); optional replacement under the same name from the whole file; popped bytes written unmodified")
    fi = repo.func(PX, "main")
    fq = ctx.fq(fi)
    outs = [o for o in ev.outcomes(fi) if o.kind == "return"]
    outs = generic.sole_outcome(ctx, outs, f"{fq}: expected one outcome")
    o = outs[0]
    eff = [_norm_objects(strip_sites(e)) for e in o.effects]
    L = strip_sites(App("cborload", (App("open", (P("input_envelope"), Const("rb"))),)))
    raw, copy = env_map_of(L)
    ENV = copy if any(s == copy for e in eff for s in subterms(e)) else raw
    name = P("payload_name")
    pops = [e.args[0] for e in all_effects(eff) if isinstance(e, App) and e.op == "eff:call" and isinstance(e.args[0], App)
            and e.args[0].op == "meth:pop"]
    ok = len(pops) == 1 and pops[0].args[0] == ENV and pops[0].args[1] == name
    R.check("C11-D1g single payload", ok, "the named payload is removed from the envelope map read from the input file", mod=fi.module,
            node=fi.node, function=fq, expected="envelope.value.pop(payload_name, None)", found=repr(pops)[:200])
    extracted = pops[0] if pops else None
    stores = [(e, g) for e, g in _with_guards(eff) if isinstance(e, App) and e.op == "eff:store" and e.args[0] in (ENV, raw)]
    rp = P("payload_replace_path")
    given = lambda p_: [(App("is", (p_, Const(None))), False)]  # "a value was given for p", in normalised spelling
    ok = len(stores) == 1 and stores[0][0].args[1] == name and stores[0][0].args[2] == App("filebytes", (rp,)) \
        and generic.norm_guards(_is_not_as_is(stores[0][1])) == given(rp)
    R.check("C11-D1g single payload", ok, "replacement: same name, whole binary content of the replacement file, only when a path is given",
            mod=fi.module, node=fi.node, function=fq, expected="if payload_replace_path is not None: envelope.value[payload_name] = <file bytes>",
            found=f"{[(repr(e)[:140], g) for e, g in stores]}"[:300])
    dumps = [e.args[0] for e in all_effects(eff) if isinstance(e, App) and e.op == "eff:call" and isinstance(e.args[0], App)
             and e.args[0].op == "call:cbor2.dump"]
    want = [App("tag", (App("attr:tag", (L,)), ENV)), L]
    R.check("C11-D1g single payload", len(dumps) == 1 and dumps[0].args[0] in want
            and dumps[0].args[1] == App("open", (P("output_envelope"), Const("wb"))), "the same envelope is re-encoded to the output file",
            mod=fi.module, node=fi.node, function=fq, expected="cbor2.dump(envelope, open(output_envelope, 'wb'))", found=repr(dumps)[:240])
    writes = [(e, g) for e, g in _with_guards(eff) if isinstance(e, App) and e.op == "eff:write"]
    of = P("output_payload_file")
    # d.pop(k) if k in d else None is d.pop(k, None)
    same_bytes = [extracted]
    if extracted is not None:
        plain = App("meth:pop", tuple(extracted.args[:2]))
        for cont in (ENV, App("meth:keys", (ENV,))):
            same_bytes.append(App("phi", (App("in", (name, cont)), plain, Const(None))))
            same_bytes.append(App("phi", (App("in", (name, cont)), extracted, Const(None))))
    ok = len(writes) == 1 and writes[0][0].args[0] == App("open", (of, Const("wb"))) and _norm_objects_term(writes[0][0].args[1]) in same_bytes \
        and generic.norm_guards(_is_not_as_is(writes[0][1])) == given(of)
    R.check("C11-D1g single payload", ok, "the extracted bytes are written unmodified to the payload file when one is given", mod=fi.module,
            node=fi.node, function=fq, expected="open(output_payload_file, 'wb').write(extracted_payload)",
            found=f"{[(repr(e)[:140], g) for e, g in writes]}"[:300])
    # ordering: dump happens after pop and after the optional replacement
    from sa.absint import flatten_effects
    order_ok = True
    # `if name in envelope: payload = envelope.pop(name)`: on the other side of that test there is nothing to remove
    pop_guards = [g for e, g in _with_guards(eff) if isinstance(e, App) and e.op == "eff:call" and e.args[0] == extracted]
    pop_only_if_present = bool(pop_guards) and all(
        len(g) == 1 and g[0][1] is True and isinstance(g[0][0], App) and g[0][0].op == "in" and g[0][0].args[0] == name
        and g[0][0].args[1] in (ENV, App("meth:keys", (ENV,))) for g in [generic.norm_guards(_is_not_as_is(g_)) for g_ in pop_guards])
    for seq in flatten_effects(eff):
        if pop_only_if_present and not any(isinstance(e, App) and e.op == "eff:call" and e.args[0] == extracted for e in seq):
            continue
        idx = {("pop" if (isinstance(e, App) and e.op == "eff:call" and e.args[0] == extracted) else
                "store" if (isinstance(e, App) and e.op == "eff:store") else
                "dump" if (isinstance(e, App) and e.op == "eff:call" and dumps and e.args[0] == dumps[0]) else None): i
               for i, e in enumerate(seq)}
        if "dump" in idx and ("pop" not in idx or idx["pop"] > idx["dump"] or idx.get("store", -1) > idx["dump"]):
            order_ok = False
    R.check("C11-D1g single payload", order_ok, "the output envelope is written after removal / replacement", mod=fi.module, node=fi.node,
            function=fq, expected="pop -> [replace] -> dump", found="dump precedes a modification")
    other = [e for e in all_effects(eff) if isinstance(e, App) and e.op == "eff:call" and isinstance(e.args[0], App)
             and e.args[0].op in frozen.MUTATORS and e.args[0].args[0] in (ENV, raw) and e.args[0] != extracted]
    R.check("C11-D1g single payload", not other, "no other member of the envelope is touched", mod=fi.module, node=fi.node, function=fq,
            expected="write set = {payload_name}", found=f"{other}"[:200])


def _with_guards(effects, guards=()):
    """Yield (effect, guards) where guards are the enclosing eff:if conditions plus the eff:assume facts that
    precede the effect in its sequence."""
    guards = tuple(guards)
    for e in effects:
        if isinstance(e, App) and e.op == "eff:assume":
            c = e.args[0]
            pol = True
            while isinstance(c, App) and c.op == "not":
                c, pol = c.args[0], not pol
            guards = guards + ((c, pol),)
            continue
        if isinstance(e, App) and e.op == "eff:if":
            c, pol = e.args[0], True
            while isinstance(c, App) and c.op in ("not", "truth") and len(c.args) == 1:
                pol = (not pol) if c.op == "not" else pol
                c = c.args[0]
            yield from _with_guards(e.args[1].args, guards + ((c, pol),))
            yield from _with_guards(e.args[2].args, guards + ((c, not pol),))
        elif isinstance(e, App) and e.op == "eff:loop":
            yield from _with_guards(e.args[1].args, guards)
        elif isinstance(e, App) and e.op in ("eff:partial",):
            yield from _with_guards(e.args[0].args, guards)
        elif isinstance(e, App) and e.op == "eff:alts":
            for a in e.args:
                yield from _with_guards(a.args, guards)
        else:
            yield e, guards
