"""Use analysis for hash-ordered values: a set (or an object identity) is a source of nondeterminism / reordering only when its
iteration order (or its numeric value) can be observed.  Membership tests, size, set algebra whose result is again only tested,
and sorted() do not observe it.

order_observable(func_node, expr) -> None when every use of the set-valued expression is order-blind, otherwise a short text
naming the observing use.  The analysis is local to the function and conservative: an unrecognised use is observable."""
from __future__ import annotations

import ast

BLIND_CALLS = {"len", "sorted", "min", "max", "any", "all", "bool", "sum", "isinstance"}
SET_CALLS = {"set", "frozenset"}
SET_METHODS_BLIND = {"add", "discard", "remove", "clear", "update", "issubset", "issuperset", "isdisjoint", "difference_update",
                     "intersection_update", "symmetric_difference_update", "__contains__"}
SET_METHODS_SET = {"union", "intersection", "difference", "symmetric_difference", "copy"}


def parents_of(func_node):
    par = {}
    for n in ast.walk(func_node):
        for c in ast.iter_child_nodes(n):
            par[c] = n
    return par


def _name_loads(func_node, name, after=None):
    return [n for n in ast.walk(func_node) if isinstance(n, ast.Name) and n.id == name and isinstance(n.ctx, ast.Load)]


def order_observable(func_node, expr, par=None, _seen=None):
    par = par or parents_of(func_node)
    _seen = _seen if _seen is not None else set()
    if id(expr) in _seen:
        return None
    _seen.add(id(expr))
    p = par.get(expr)
    if p is None:
        return "use not found"
    if isinstance(p, ast.Compare):
        # x in S / x not in S / S == T / S <= T
        if expr in p.comparators and all(isinstance(o, (ast.In, ast.NotIn, ast.Eq, ast.NotEq, ast.LtE, ast.GtE, ast.Lt, ast.Gt)) for o in p.ops):
            return None
        if expr is p.left and all(isinstance(o, (ast.Eq, ast.NotEq, ast.LtE, ast.GtE, ast.Lt, ast.Gt)) for o in p.ops):
            return None
        return "compared in an order-sensitive way"
    if isinstance(p, ast.Call):
        fn = p.func
        if expr in p.args or any(k.value is expr for k in p.keywords):
            if isinstance(fn, ast.Name) and fn.id in BLIND_CALLS:
                return None
            if isinstance(fn, ast.Name) and fn.id in SET_CALLS:
                return order_observable(func_node, p, par, _seen)
            if isinstance(fn, ast.Attribute) and fn.attr in SET_METHODS_BLIND | {"issubset", "issuperset"}:
                return None  # other.update(S) etc. keeps it a set of the receiver: the receiver is analysed on its own
            return f"passed to {ast.unparse(fn)[:40]}()"
        if isinstance(fn, ast.Attribute) and fn.value is expr:
            return order_observable(func_node, fn, par, _seen)
        return "called"
    if isinstance(p, ast.Attribute) and p.value is expr:
        gp = par.get(p)
        if isinstance(gp, ast.Call) and gp.func is p:
            if p.attr in SET_METHODS_BLIND:
                return None
            if p.attr in SET_METHODS_SET:
                return order_observable(func_node, gp, par, _seen)
            return f".{p.attr}() observes the elements"
        return f".{p.attr} read"
    if isinstance(p, ast.BinOp) and isinstance(p.op, (ast.BitOr, ast.BitAnd, ast.Sub, ast.BitXor)):
        return order_observable(func_node, p, par, _seen)
    if isinstance(p, (ast.If, ast.While, ast.IfExp)) and p.test is expr:
        return None
    if isinstance(p, ast.UnaryOp) and isinstance(p.op, ast.Not):
        return None
    if isinstance(p, ast.BoolOp):
        return order_observable(func_node, p, par, _seen)
    if isinstance(p, ast.Assign) and p.value is expr and len(p.targets) == 1 and isinstance(p.targets[0], ast.Name):
        name = p.targets[0].id
        for use in _name_loads(func_node, name):
            r = order_observable(func_node, use, par, _seen)
            if r:
                return f"{name}: {r}"
        return None
    if isinstance(p, ast.AnnAssign) and p.value is expr and isinstance(p.target, ast.Name):
        for use in _name_loads(func_node, p.target.id):
            r = order_observable(func_node, use, par, _seen)
            if r:
                return f"{p.target.id}: {r}"
        return None
    if isinstance(p, ast.AugAssign) and p.value is expr and isinstance(p.op, (ast.BitOr, ast.BitAnd, ast.Sub, ast.BitXor)):
        return None  # S |= T: the target is analysed on its own
    if isinstance(p, ast.Expr):
        return None
    if isinstance(p, (ast.For, ast.comprehension)) and getattr(p, "iter", None) is expr:
        return "iterated"
    if isinstance(p, ast.Return):
        return "returned"
    if isinstance(p, ast.Starred):
        return "unpacked"
    return f"used in {type(p).__name__}"


def identity_observable(func_node, call, par=None):
    """id(x): blind when the number is only put into / looked up in a set or dict that is itself order-blind."""
    par = par or parents_of(func_node)
    p = par.get(call)
    if isinstance(p, ast.Compare) and p.left is call and all(isinstance(o, (ast.In, ast.NotIn, ast.Eq, ast.NotEq)) for o in p.ops):
        return None
    if isinstance(p, ast.Call) and isinstance(p.func, ast.Attribute) and p.func.attr in ("add", "discard", "remove") and call in p.args \
            and isinstance(p.func.value, ast.Name):
        name = p.func.value.id
        for use in _name_loads(func_node, name):
            r = order_observable(func_node, use, par, set())
            if r:
                return f"stored in {name}: {r}"
        return None
    return "value of id() used"
