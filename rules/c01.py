"""C01 — created envelopes carry correct manifest and severed-member digests (structure)."""
from __future__ import annotations

import ast

from . import generic
from sa.absint import Evaluator, all_effects, flatten_effects
from sa.index import AnalysisError, walk_no_nested
from sa.schema import KeyRef
from sa.terms import App, Const, Ref, Sym, cases, dict_pairs, subterms
from .c11 import _with_guards

EXPLANATION = ("typestate over every construction site of an envelope model (built -> severable digests refreshed -> manifest "
               "digest refreshed -> serialised) on all paths; access-path analysis of the two refreshers (which entry is "
               "tested, hashed, whose algorithm is read, where the result is stored; wrapped vs inner bytes decided on the "
               "schema graph); the severable list compared with the set derived from the schema; unconditional overwrite by "
               "control dependence; hash table folded and compared with the reference lengths; no repository code executed")

ENVM = "suit_generator.suit.envelope"
MIXIN = "SuitBasicEnvelopeOperationsMixin"
P = lambda n: Sym("param:" + n)
SELF = P("self")
HASH_REF = {  # name -> (primitive, output bytes) as the property states them
    "cose-alg-sha-256": ("SHA256", 32), "cose-alg-sha-384": ("SHA384", 48), "cose-alg-sha-512": ("SHA512", 64),
    "cose-alg-shake128": ("SHAKE128", 16), "cose-alg-shake256": ("SHAKE256", 32),
}
OUT_LEN = {"SHA256": 32, "SHA384": 48, "SHA512": 64}


def access_path(t):
    """(root term, [subscript keys]) with attribute steps (dynamic Suit* attributes, .value) skipped."""
    keys = []
    while isinstance(t, App):
        if t.op.startswith("attr:"):
            t = t.args[0]
        elif t.op == "idx":
            keys.append(t.args[1])
            t = t.args[0]
        else:
            break
    return t, list(reversed(keys))


def hash_parts(val):
    """(algorithm term, data term) of a digest value in either evaluated form, or None.
    inlined:      hash(idx(<table>, ALG), DATA)          (a2b_hex(x.hex()) cancels)
    not inlined:  a2b_hex(call(SuitHash.hash, new(SuitHash, site, ALG), DATA))"""
    if isinstance(val, App) and val.op == "hash" and isinstance(val.args[0], App) and val.args[0].op == "idx":
        return val.args[0].args[1], val.args[1]
    if isinstance(val, App) and val.op == "a2b_hex" and isinstance(val.args[0], App) and val.args[0].op == "call" \
            and isinstance(val.args[0].args[0], Ref) and val.args[0].args[0].obj.qualname == "SuitHash.hash":
        h = val.args[0]
        hobj = h.args[1]
        if isinstance(hobj, App) and hobj.op == "new" and len(hobj.args) > 2:
            return hobj.args[2], h.args[2]
    return None


def key_name(k):
    if isinstance(k, Ref) and k.kind == "class":
        return k.obj.name
    if isinstance(k, Const):
        return k.v
    return repr(k)


def run(ctx):
    R = ctx.report
    repo = ctx.repo
    ctx.use_files("suit_generator/suit/envelope.py", "suit_generator/input_output.py", "suit_generator/suit/security.py",
                  "suit_generator/suit/manifest.py", "suit_generator/suit/payloads.py")
    typestate(ctx)
    manifest_digest(ctx)
    severable_digests(ctx)
    hash_table(ctx)


# ------------------------------------------------------------------------------------------------
def _is_envelope_ctor(t, fi, repo):
    """from_obj / from_cbor on the full envelope model (class reference or ``cls`` inside the envelope mixin)."""
    if not (isinstance(t, App) and t.op in ("meth:from_obj", "meth:from_cbor", "call")):
        return False
    if t.op == "call":
        f = t.args[0]
        if isinstance(f, Ref) and f.kind == "func" and f.obj.name in ("from_obj", "from_cbor") and len(t.args) > 1:
            recv = t.args[1]
        else:
            return False
    else:
        recv = t.args[0]
    if isinstance(recv, Ref) and recv.kind == "class" and recv.obj.name == "SuitEnvelopeTagged":
        return True
    if recv == P("cls") and fi.cls is not None and fi.cls.name == MIXIN:
        return True
    return False


_SUMMARIES = {}


def _summary(ctx, mname, depth=0):
    """The refreshers a method of the envelope classes runs on self, unconditionally and in order (empty for the refreshers and the
    sinks themselves, for methods that run none, and for methods that run them only on some paths - those are not summarised)."""
    if mname in ("update_severable_digests", "update_digest", "to_cbor", "get_manifest_digest", "get_digest", "from_obj", "from_cbor", "to_obj") or depth > 2:
        return []
    key = (id(ctx.repo), mname)
    if key in _SUMMARIES:
        return _SUMMARIES[key]
    _SUMMARIES[key] = []
    cands = [f for f in ctx.repo.mod(ENVM).functions.values() if f.name == mname and f.cls is not None]
    if len(cands) != 1:
        return []
    outs = [o for o in Evaluator(ctx.repo, inline_depth=0).outcomes(cands[0]) if o.kind == "return"]
    if len(outs) != 1:
        return []
    steps = []
    for e in outs[0].effects:   # top level only: unconditional
        c_ = e.args[0] if isinstance(e, App) and e.op == "eff:call" and isinstance(e.args[0], App) else None
        m2 = None
        if c_ is not None and c_.op.startswith("meth:") and c_.args and c_.args[0] == SELF:
            m2 = c_.op[5:]
        elif c_ is not None and c_.op == "call" and len(c_.args) >= 2 and isinstance(c_.args[0], Ref) and c_.args[0].kind == "func" and c_.args[1] == SELF:
            m2 = c_.args[0].obj.name
        if m2 is not None:
            if m2 in ("update_severable_digests", "update_digest"):
                steps.append(m2)
            else:
                steps += _summary(ctx, m2, depth + 1)
    _SUMMARIES[key] = steps
    return steps


def typestate(ctx):
    R = ctx.report
    repo = ctx.repo
    R.rule("C01-D1 refresh before serialise", 2, "every site that serialises a freshly built envelope model refreshes severable digests, then the manifest digest, first")
    R.rule("C01-D1b construction sites classified", 7, "every construction site of the full envelope model is either read-only or a checked serialising site")
    ev = Evaluator(repo, inline_depth=0)
    sites = 0
    serialising = 0
    for f in repo.all_functions():
        src = generic.source_with_helpers(repo, f)
        if "SuitEnvelopeTagged" not in src and not (f.cls is not None and f.cls.name == MIXIN and "cls.from_" in src):
            continue
        if "from_obj(" not in src and "from_cbor(" not in src:
            continue
        try:
            outs = ev.outcomes(f)
        except AnalysisError as e:
            raise AnalysisError(f"{ctx.fq(f)}: {e}")
        objs = []
        for o in outs:
            terms = list(all_effects(o.effects)) + ([o.value] if o.value is not None else [])
            for t in terms:
                for s in subterms(t):
                    if _is_envelope_ctor(s, f, repo) and s not in objs:
                        objs.append(s)
        if not objs:
            continue
        fq = ctx.fq(f)
        for obj in objs:
            sites += 1
        # receivers: the constructed term itself or a phi over constructed terms
        def is_recv(t):
            if t in objs:
                return True
            if isinstance(t, App) and t.op == "phi":
                return is_recv(t.args[1]) and is_recv(t.args[2])
            return False

        any_sink = False
        bad = None
        for o in outs:
            if o.kind != "return":
                continue
            for seq in flatten_effects(o.effects):
                state = {}
                for e in seq:
                    if not (isinstance(e, App) and e.op == "eff:call" and isinstance(e.args[0], App)):
                        continue
                    c = e.args[0]
                    if not (c.op.startswith("meth:") and c.args and is_recv(c.args[0])):
                        continue
                    r = c.args[0]
                    m = c.op[5:]
                    st = state.get(r, "built")
                    steps = _summary(ctx, m)
                    if steps:
                        # a method of the envelope classes that itself runs the refreshers on self, in some order: its effect on
                        # the object is that sequence (a helper such as refresh_digests())
                        for m2 in steps:
                            st = state.get(r, "built")
                            if m2 == "update_severable_digests":
                                state[r] = "sev" if st in ("built", "sev") else st
                                if st == "dig":
                                    bad = (c, f"{m}(): severable digests refreshed after the manifest digest (the outer digest is stale)")
                            elif m2 == "update_digest":
                                if st == "built":
                                    bad = (c, f"{m}(): manifest digest refreshed before the severable digests")
                                state[r] = "dig"
                        continue
                    if m == "update_severable_digests":
                        state[r] = "sev" if st in ("built", "sev") else st
                        if st == "dig":
                            bad = (c, "severable digests refreshed after the manifest digest (the outer digest is stale)")
                    elif m == "update_digest":
                        if st == "built":
                            bad = (c, "manifest digest refreshed before the severable digests")
                        state[r] = "dig"
                    elif m in ("to_cbor", "get_manifest_digest", "get_digest"):
                        any_sink = True
                        if st != "dig":
                            bad = (c, f"{m}() reached in state '{st}' (needs update_severable_digests then update_digest)")
        if any_sink:
            serialising += 1
            R.check("C01-D1 refresh before serialise", bad is None, fq, mod=f.module, node=bad[0].node if bad else f.node, function=fq,
                    expected="update_severable_digests(); update_digest(); then to_cbor()/get_manifest_digest() on every path",
                    found=bad[1] if bad else "")
        for obj in objs:
            R.ok("C01-D1b construction sites classified", f"{fq}: {'serialising' if any_sink else 'read-only'}")
    R.analysed["envelope_construction_sites"] = sites
    R.analysed["serialising_sites"] = serialising

    # who-may-call: the suit serializer writes prepare_suit_data(data); simplified serializer is not reachable from create
    R.rule("C01-D1c create writes the refreshed bytes", 3, "to_suit_file writes prepare_suit_data(data); create uses the 'suit' serializer")
    io = repo.func("suit_generator.input_output", "InputOutputMixin.to_suit_file")
    oo = [o for o in ev.outcomes(io) if o.kind == "return"]
    def _unfree(t):
        # a name captured by a lambda / local function from the enclosing function is that function's parameter
        if isinstance(t, Sym) and t.name.startswith("free:") and t.name[5:] in io.params():
            return P(t.name[5:])
        if isinstance(t, App):
            return App(t.op, tuple(_unfree(a_) for a_ in t.args), t.node)
        return t
    w = [_unfree(e) for o in oo for e in all_effects(o.effects) if isinstance(e, App) and e.op == "eff:write"]
    def _is_prepare(t):
        return isinstance(t, App) and t.args and t.args[-1] == P("data") and (
            (t.op == "call" and isinstance(t.args[0], Ref) and t.args[0].obj.name == "prepare_suit_data")
            or (t.op == "meth:prepare_suit_data" and t.args[0] in (P("self"), P("cls"))))
    ok = len(w) == 1 and _is_prepare(w[0].args[1]) and w[0].args[0] == App("open", (P("file_name"), Const("wb")))
    R.check("C01-D1c create writes the refreshed bytes", ok, "to_suit_file", mod=io.module, node=io.node, function=ctx.fq(io),
            expected="open(file_name, 'wb').write(self.prepare_suit_data(data))", found=repr(w)[:200])
    # ... and prepare_suit_data returns the encoding of the very object it refreshed
    ps = repo.func("suit_generator.input_output", "InputOutputMixin.prepare_suit_data")
    pso = [o for o in ev.outcomes(ps) if o.kind == "return"]
    okp = bool(pso)
    for o in pso:
        v = o.value
        refreshed = [e.args[0].args[0] for e in all_effects(o.effects) if isinstance(e, App) and e.op == "eff:call" and isinstance(e.args[0], App)
                     and e.args[0].op.startswith("meth:") and e.args[0].args
                     and (e.args[0].op == "meth:update_digest" or "update_digest" in _summary(ctx, e.args[0].op[5:]))]
        if not (isinstance(v, App) and v.op == "meth:to_cbor" and refreshed and v.args[0] == refreshed[-1] and _is_envelope_ctor(v.args[0], ps, repo)
                and v.args[0].args[-1] == P("data")):
            okp = False
    R.check("C01-D1c create writes the refreshed bytes", okp, "prepare_suit_data", mod=ps.module, node=ps.node, function=ctx.fq(ps),
            expected="return <the refreshed SuitEnvelopeTagged.from_obj(data)>.to_cbor()", found=f"{[repr(o.value)[:160] for o in pso]}")
    cm = repo.func("suit_generator.cmd_create", "main")
    couts = [o for o in ev.outcomes(cm) if o.kind == "return"]
    ccalls = [e.args[0] for o in couts for e in all_effects(o.effects) if isinstance(e, App) and e.op == "eff:call" and isinstance(e.args[0], App)
              and e.args[0].op == "call" and isinstance(e.args[0].args[0], Ref)]
    loads = [c for c in ccalls if c.args[0].obj.name == "load"]
    dumps_ = [c for c in ccalls if c.args[0].obj.name == "dump"]
    ok = len(couts) == 1 and len(loads) == 1 and len(dumps_) == 1 and list(dumps_[0].args[2:]) == [P("output_file"), Const("suit")] \
        and loads[0].args[1] == dumps_[0].args[1] and list(loads[0].args[2:]) == [P("input_file"), P("input_format")]
    R.check("C01-D1c create writes the refreshed bytes", ok, "cmd_create.main dumps with the 'suit' serializer",
            mod=cm.module, node=cm.node, function=ctx.fq(cm), expected="load(input_file, input_format); dump(output_file, 'suit') on the same envelope object",
            found=f"{[repr(c)[:100] for c in loads + dumps_]}")
    ser = ctx.ev.const(repo.cls("suit_generator.input_output", "InputOutputMixin").attrs["SERIALIZERS"], repo.mod("suit_generator.input_output"))
    R.rule("C01-D1d serializer table", 1, "'suit' maps to to_suit_file")
    R.check("C01-D1d serializer table", ser.get("suit") == "to_suit_file", "SERIALIZERS['suit']", mod=io.module, node=io.node, function="InputOutputMixin",
            expected="to_suit_file", found=f"{ser.get('suit')}")


# ------------------------------------------------------------------------------------------------
def manifest_digest(ctx):
    R = ctx.report
    repo = ctx.repo
    S = ctx.schema
    ev = Evaluator(repo, inline_depth=2)
    R.rule("C01-D2a manifest digest", 5, "hash input = wrapped manifest member of this envelope; algorithm and result at positions 0/1 of the wrapper digest")
    fi = repo.func(ENVM, f"{MIXIN}.update_digest")
    fq = ctx.fq(fi)
    outs = [o for o in ev.outcomes(fi) if o.kind == "return"]
    outs = generic.sole_outcome(ctx, outs, f"{fq}: expected one outcome")
    o = outs[0]
    sets = []
    for e in all_effects(o.effects):
        if isinstance(e, App) and e.op in ("eff:setattr", "eff:store"):
            tgt = e.args[0] if e.op == "eff:setattr" else App("idx", (e.args[0], e.args[1]))
            if access_path(tgt)[0] == SELF:
                sets.append(e)
    if len(sets) != 1:
        R.fail("C01-D2a manifest digest", "single store of the digest bytes", mod=fi.module, node=fi.node, function=fq,
               expected="one assignment", found=f"{len(sets)} stores")
        return
    st = sets[0]
    target = st.args[0] if st.op == "eff:setattr" else App("idx", (st.args[0], st.args[1]))
    root, tpath = access_path(target)
    val = st.args[2]
    names = [key_name(k) for k in tpath]
    R.check("C01-D2a manifest digest", root == SELF and names == ["suit_authentication_wrapper", 0, 1], "result stored into wrapper[0] digest, position 1 (bytes)",
            mod=fi.module, node=st.node, function=fq, expected="[suit_authentication_wrapper][0][1]", found=f"{names}")
    hp = hash_parts(val)
    R.check("C01-D2a manifest digest", hp is not None, "stored bytes = SuitHash(alg).hash(...) (binary)", mod=fi.module, node=st.node, function=fq,
            expected="binascii.a2b_hex(hash_func.hash(manifest))", found=repr(val)[:200])
    if hp is None:
        return
    alg, data = hp
    aroot, apath = access_path(alg)
    R.check("C01-D2a manifest digest", aroot == SELF and [key_name(k) for k in apath] == ["suit_authentication_wrapper", 0, 0],
            "algorithm read from the same digest, position 0", mod=fi.module, node=st.node, function=fq,
            expected="[suit_authentication_wrapper][0][0]", found=f"{[key_name(k) for k in apath]}")
    droot, dpath = (None, [])
    if isinstance(data, App) and data.op == "meth:to_cbor":
        droot, dpath = access_path(data.args[0])
    R.check("C01-D2a manifest digest", droot == SELF and [key_name(k) for k in dpath] == ["suit_manifest"],
            "hash input = to_cbor() of the envelope's own manifest member", mod=fi.module, node=st.node, function=fq,
            expected="self[...][suit_manifest].to_cbor()", found=repr(data)[:200])
    # schema: the envelope-level manifest member is byte-string wrapped, digest positions are [alg, bytes]
    env = repo.cls(ENVM, "SuitEnvelope")
    emi = S.metadata_of(env)
    mt = [v for k, v in emi.map if isinstance(k, KeyRef) and k.cls.name == "suit_manifest"]
    R.check("C01-D2a manifest digest", len(mt) == 1 and mt[0].wrap == 1, "the envelope's manifest member is the byte-string-wrapped form",
            mod=env.module, node=emi.node, function=env.fq, expected="cbstr(SuitManifest)", found=f"{mt}")
    digest_positions(ctx, "C01-D2a manifest digest")


def digest_positions(ctx, rid):
    R = ctx.report
    repo = ctx.repo
    S = ctx.schema
    dr = repo.cls("suit_generator.suit.security", "SuitDigestRaw")
    mi = S.metadata_of(dr)
    names = [k for k, v in mi.map]
    R.check(rid, names == ["suit-digest-algorithm-id", "suit-digest-bytes"], "digest tuple positions: 0 = algorithm, 1 = bytes", mod=dr.module,
            node=mi.node, function=dr.fq, expected="['suit-digest-algorithm-id', 'suit-digest-bytes']", found=f"{names}")


def severable_members(ctx):
    """Members the manifest can reference by digest (union with a digest alternative) that also exist at envelope level."""
    repo = ctx.repo
    S = ctx.schema
    man = repo.cls("suit_generator.suit.manifest", "SuitManifest")
    env = repo.cls(ENVM, "SuitEnvelope")
    dig = repo.cls("suit_generator.suit.security", "SuitDigest")
    sev = {}
    for k, v in S.metadata_of(man).map:
        if v.cls is not None and S.kind(v.cls) == "union":
            if any(c.cls is dig for c in S.metadata_of(v.cls).children):
                sev[k.cls.name] = k
    envk = {k.cls.name: v for k, v in S.metadata_of(env).map if isinstance(k, KeyRef)}
    return {n: k for n, k in sev.items() if n in envk}, envk


def severable_digests(ctx):
    R = ctx.report
    repo = ctx.repo
    S = ctx.schema
    ev = Evaluator(repo, inline_depth=2)
    fi = repo.func(ENVM, f"{MIXIN}.update_severable_digests")
    fq = ctx.fq(fi)
    outs = [o for o in ev.outcomes(fi) if o.kind == "return"]
    outs = generic.sole_outcome(ctx, outs, f"{fq}: expected one outcome")
    o = outs[0]
    sev, envk = severable_members(ctx)
    if len(sev) < 5:
        raise AnalysisError(f"severable members not derived from the schema ({sorted(sev)})")
    handled = {}
    for e, guards in _with_guards(o.effects):
        if isinstance(e, App) and e.op in ("eff:setattr", "eff:store"):
            target = e.args[0] if e.op == "eff:setattr" else App("idx", (e.args[0], e.args[1]))
            root, path = access_path(target)
            if root == SELF and len(path) >= 2:
                handled.setdefault(key_name(path[1]), []).append((e, guards, path))
    R.rule("C01-D3 no severable member skipped", len(sev), "every member the manifest can reference by digest is refreshed")
    for n in sorted(sev):
        R.check("C01-D3 no severable member skipped", n in handled, n, mod=fi.module, node=fi.node, function=fq,
                expected=f"{n} is in the list iterated by update_severable_digests", found=f"handled: {sorted(handled)}", key_extra=n)
    # the loop over the members runs to its end: a `break` / `return` that belongs to it leaves every later member with the digest
    # that was supplied (the evaluator unrolls the loop over the static list member by member and does not carry a break across)
    def _own_exits(loop):
        out, todo = [], list(loop.body) + list(loop.orelse)
        while todo:
            x = todo.pop()
            if isinstance(x, (ast.FunctionDef, ast.AsyncFunctionDef, ast.Lambda, ast.ClassDef)):
                continue
            if isinstance(x, (ast.For, ast.AsyncFor, ast.While)):
                todo.extend(y for y in ast.walk(x) if isinstance(y, ast.Return))
                continue
            if isinstance(x, (ast.Break, ast.Return)):
                out.append(x)
            todo.extend(ast.iter_child_nodes(x))
        return out
    for loop in [n_ for n_ in ast.walk(fi.node) if isinstance(n_, (ast.For, ast.While))]:
        hashes = [c for c in ast.walk(loop) if isinstance(c, ast.Call) and isinstance(c.func, ast.Attribute) and c.func.attr in ("hash", "to_cbor")]
        if not hashes:
            continue
        early = _own_exits(loop)
        R.check("C01-D3 no severable member skipped", not early, "the refresh loop visits every member", mod=fi.module, node=early[0] if early else loop,
                function=fq, expected="no break / return ends the loop over the severable members before the last one",
                found=f"{type(early[0]).__name__.lower()} at line {early[0].lineno}: the members after the current one keep the supplied digest" if early else "")
    R.rule("C01-D2b severed member digest", 4 * len(sev), "per member: tested, hashed (wrapped, from the envelope), algorithm and result all belong to that member")
    R.rule("C01-D4 unconditional overwrite", 2 * len(sev), "the store is guarded only by 'manifest references the member by digest' (and presence in the envelope)")
    for n, lst in sorted(handled.items()):
        for e, guards, path in lst:
            names = [key_name(k) for k in path]
            inst = f"{n}"
            R.check("C01-D2b severed member digest", names == ["suit_manifest", n, 1], inst + ": result stored at manifest[member] digest position 1",
                    mod=fi.module, node=e.node, function=fq, expected=f"[suit_manifest][{n}][1]", found=f"{names}", key_extra=n + "s")
            val = e.args[2]
            hp = hash_parts(val)
            if hp is None:
                R.fail("C01-D2b severed member digest", inst + ": stored bytes = SuitHash(alg).hash(...) (binary)", mod=fi.module, node=e.node,
                       function=fq, expected="a2b_hex(SuitHash(alg).hash(data))", found=repr(val)[:200], key_extra=n + "v")
                continue
            alg, data = hp
            aroot, apath = access_path(alg)
            R.check("C01-D2b severed member digest", aroot == SELF and [key_name(k) for k in apath] == ["suit_manifest", n, 0],
                    inst + ": algorithm read from the same manifest entry, position 0", mod=fi.module, node=e.node, function=fq,
                    expected=f"[suit_manifest][{n}][0]", found=f"{[key_name(k) for k in apath]}", key_extra=n + "a")
            droot, dpath = (None, [])
            if isinstance(data, App) and data.op == "meth:to_cbor":
                droot, dpath = access_path(data.args[0])
            R.check("C01-D2b severed member digest", droot == SELF and [key_name(k) for k in dpath] == [n],
                    inst + ": hash input = to_cbor() of the same member taken from the envelope map", mod=fi.module, node=e.node,
                    function=fq, expected=f"self[...][{n}].to_cbor()", found=repr(data)[:160], key_extra=n + "d")
            ev_t = envk.get(n)
            R.check("C01-D2b severed member digest", ev_t is not None and ev_t.wrap == 1, inst + ": the envelope-level member is byte-string wrapped",
                    mod=fi.module, node=e.node, function=fq, expected="cbstr(...) at envelope level", found=f"{ev_t}", key_extra=n + "w")
            # D4: guards
            allowed = True
            why = ""
            for g, pol in guards:
                for s in subterms(g):
                    r_, p_ = access_path(s) if isinstance(s, App) and (s.op == "idx" or s.op.startswith("attr:")) else (None, [])
                    if r_ == SELF and [key_name(k) for k in p_][:3] == ["suit_manifest", n, 1]:
                        allowed, why = False, "the guard reads the previous digest bytes"
            R.check("C01-D4 unconditional overwrite", allowed, inst, mod=fi.module, node=e.node, function=fq,
                    expected="store not control-dependent on the supplied digest", found=why, key_extra=n + "g")
            # D4b: the refresh happens exactly when the manifest names the member and holds it in digest form: both tests positive
            conj = []
            for g, pol in guards:
                todo = [(g, pol)]
                while todo:
                    x, p_ = todo.pop()
                    if isinstance(x, App) and x.op == "and" and p_:
                        todo += [(a_, True) for a_ in x.args]
                    elif isinstance(x, App) and x.op == "not" and len(x.args) == 1:
                        todo.append((x.args[0], not p_))
                    else:
                        conj.append((x, p_))
            member_in = [(x, p_) for x, p_ in conj if isinstance(x, App) and x.op in ("in", "not in") and isinstance(x.args[0], Ref)
                         and key_name(x.args[0]) == n]
            digest_form = [(x, p_) for x, p_ in conj if isinstance(x, App) and x.op in ("hasattr", "call:hasattr") and Const("SuitDigest") in x.args]
            pos_in = any((x.op == "in") == p_ for x, p_ in member_in)
            neg_in = any((x.op == "in") != p_ for x, p_ in member_in)
            R.check("C01-D4 unconditional overwrite", pos_in and not neg_in and bool(digest_form) and all(p_ for x, p_ in digest_form),
                    inst + ": refreshed when the manifest holds the member in digest form", mod=fi.module, node=e.node, function=fq,
                    expected=f"{n} in manifest and hasattr(<its value>, 'SuitDigest')",
                    found=f"membership tests {[(x.op, p_) for x, p_ in member_in]}, digest-form tests {[p_ for x, p_ in digest_form]}", key_extra=n + "p")
    digest_positions(ctx, "C01-D2b severed member digest")


def hash_table(ctx):
    R = ctx.report
    repo = ctx.repo
    S = ctx.schema
    ev = ctx.ev
    R.rule("C01-D5 hash table", 7, "five algorithms, primitive and output length as the property states; names = the digest-algorithm enum; hash() feeds its input unmodified")
    sh = repo.cls("suit_generator.suit.security", "SuitHash")
    t, tnode = generic.hash_table_of(ctx, sh, "hash")
    dp = dict_pairs(t)
    got = {}
    for k, v in dp:
        if isinstance(k, Const) and isinstance(v, App) and v.op.startswith("call:"):
            prim = v.op.split(".")[-1]
            ln = OUT_LEN.get(prim)
            if ln is None and v.args and isinstance(v.args[0], Const):
                ln = v.args[0].v
            got[k.v] = (prim, ln)
    for name, want in sorted(HASH_REF.items()):
        R.check("C01-D5 hash table", got.get(name) == want, name, mod=sh.module, node=tnode, function=sh.fq,
                expected=f"{want}", found=f"{got.get(name)}", key_extra=name)
    alg = repo.cls("suit_generator.suit.security", "SuitCoseHashAlg")
    names = {k.name for k in S.metadata_of(alg).children}
    R.check("C01-D5 hash table", set(got) == names, "table keys = names of the digest-algorithm enum", mod=sh.module,
            node=tnode, function=sh.fq, expected=f"{sorted(names)}", found=f"{sorted(got)}")
    hf = sh.methods["hash"]
    # the attribute holding the algorithm name, by role: what the constructor stores its (first) parameter in
    name_attrs = [App("attr:_hash_name", (SELF,))]
    ini = sh.methods.get("__init__")
    if ini is not None and len(ini.params()) >= 2:
        for o_ in Evaluator(repo, inline_depth=0).outcomes(ini):
            if o_.kind == "return":
                name_attrs += [App("attr:" + k_[1], (SELF,)) for k_, v_ in o_.heap.items() if k_[0] == SELF and v_ == P(ini.params()[1])]
    outs = [o for o in Evaluator(repo, inline_depth=0).outcomes(hf) if o.kind == "return"]
    ok = len(outs) == 1 and isinstance(outs[0].value, App) and outs[0].value.op == "meth:hex" and isinstance(outs[0].value.args[0], App) \
        and outs[0].value.args[0].op == "hash" and outs[0].value.args[0].args[1] == P("bstr") \
        and isinstance(outs[0].value.args[0].args[0], App) and outs[0].value.args[0].args[0].op == "idx" \
        and outs[0].value.args[0].args[0].args[1] in name_attrs \
        and (outs[0].value.args[0].args[0].args[0] == t or outs[0].value.args[0].args[0].args[0].op.startswith("attr:"))
    R.check("C01-D5 hash table", ok, "hash(bstr) = Hash(table[name]).update(bstr).finalize().hex()", mod=hf.module, node=hf.node, function=ctx.fq(hf),
            expected="input fed unmodified to one update(); finalize() returned", found=repr(outs[0].value)[:200] if outs else "?")
