"""C09 — signing policy: already-signed action, key match, recursive configuration (structure)."""
from __future__ import annotations

import ast

from sa.absint import Evaluator, all_effects, flatten_effects
from sa.index import AnalysisError, walk_no_nested
from sa.teval import Unknown, teval
from sa.terms import App, Const, Ref, Sym, cases, subterms
from . import argname, frozen, generic
from .c04 import strip_sites
from .c11 import _with_guards

EXPLANATION = ("abstract evaluation of the already-signed handling (three actions, each with its own effect set), of the "
               "skip test that must precede KMS use, of the key/algorithm check that must dominate the signing call, and of "
               "the recursive signer (child wiring, store-back key, bottom-up order, omit-signing guarding only the signing "
               "call); configuration-key discipline (a key that is only conditionally required is never read "
               "unconditionally); library-fact rule for decoded tag content; no repository code executed")

SIGN = "ncs.sign_script"
CMD = "suit_generator.cmd_sign"
KMS = "ncs.basic_kms"
P = lambda n: Sym("param:" + n)
SELF = P("self")


def action_member(name):
    return lambda t: isinstance(t, App) and t.op == "enum" and t.args[1] == Const(name)


def guard_actions(guards):
    """{action name: polarity} from guards of the form action == SignatureAlreadyPresentActions.X."""
    out = {}
    for g, pol in guards:
        if isinstance(g, App) and g.op == "==":
            for a in g.args:
                if isinstance(a, App) and a.op == "enum":
                    out[a.args[1].v] = pol
    return out


def run(ctx):
    for entry_ in ("main", "single_level_sign", "recursive_sign"):
        generic.kwargs_keys_are_dests(ctx, "C09-D7 keyword reads are option destinations", "suit_generator.cmd_sign", entry_)
    R = ctx.report
    repo = ctx.repo
    ctx.use_files("ncs/sign_script.py", "ncs/basic_kms.py", "suit_generator/cmd_sign.py", "suit_generator/suit_sign_script_base.py")
    ev = Evaluator(repo, inline_depth=0)
    actions_cls = repo.cls("suit_generator.suit_sign_script_base", "SignatureAlreadyPresentActions")
    members = [n for n in actions_cls.attrs if not n.startswith("_")]

    asa = repo.func(SIGN, "Signer.already_signed_action")
    fq = ctx.fq(asa)
    outs = ev.outcomes(asa)
    rets = [o for o in outs if o.kind == "return"]
    raises = [o for o in outs if o.kind == "raise"]
    rets = generic.sole_outcome(ctx, rets, f"{fq}: expected one normal outcome")
    eff = [strip_sites(e) for e in rets[0].effects]
    # the skip flag, by its role: the attribute of the signer that is set under action == SKIP (whatever it is called)
    skip_attrs = {e_.args[1].v for e_, g_ in _with_guards(eff) if isinstance(e_, App) and e_.op == "eff:setattr" and e_.args[0] == SELF
                  and isinstance(e_.args[1], Const) and guard_actions(g_).get("SKIP") is True}
    FLAG = next(iter(skip_attrs)) if len(skip_attrs) == 1 else "_skip_signing"
    envattr = App("attr:envelope", (SELF,))
    ENV = App("attr:value", (envattr,))
    wrapper = App("cborload", (App("idx", (ENV, Const(2))),))

    R.rule("C09-D1a action coverage", len(members), "every already-signed action has its own branch")
    seen = set()
    for o in outs:
        for c in o.conds:
            seen |= set(guard_actions([(c, True)]))
        for e, g in _with_guards([strip_sites(x) for x in o.effects]):
            seen |= set(guard_actions(g))
    for m in members:
        R.check("C09-D1a action coverage", m in seen, m, mod=asa.module, node=asa.node, function=fq,
                expected=f"a branch for SignatureAlreadyPresentActions.{m}", found=f"branches for {sorted(seen)}", key_extra=m)

    # the action reaches these comparisons as a member of the enum: every producer of the value converts to it
    R.rule("C09-D1g action value is the enum", 2, "the CLI option and the recursive configuration both convert the action text to the enum that is compared")
    cmdm = repo.mod(CMD)
    enum_ok, default_ok, cli_seen = False, True, 0
    # registrations as the module makes them: directly, through partials, table loops or helper functions (generic.cli_registrations)
    for _f, n_, pos_, kw_, _recv in generic.cli_registrations(repo, cmdm):
        if True:
            if any(isinstance(a_, ast.Constant) and a_.value == "--already-signed-action" for a_ in pos_):
                cli_seen += 1
                r_ = repo.resolve_expr(cmdm, kw_["type"]) if "type" in kw_ else None
                enum_ok = bool(r_) and r_[0] == "class" and r_[1].name == "SignatureAlreadyPresentActions"
                if "default" in kw_:
                    d_ = kw_["default"]
                    default_ok = isinstance(d_, ast.Attribute) and (lambda x: x and x[0] == "class" and x[1].name == "SignatureAlreadyPresentActions")(
                        repo.resolve_expr(cmdm, d_.value))
                where_ = n_
    if not cli_seen:
        raise AnalysisError("cmd_sign: --already-signed-action option not found")
    R.check("C09-D1g action value is the enum", enum_ok and default_ok, "--already-signed-action", mod=cmdm, node=where_, function="suit_generator.cmd_sign:add_arguments",
            expected="type=SignatureAlreadyPresentActions and an enum member as default: a plain string never equals a member, no policy branch would be taken",
            found="the option value (or its default) reaches the signer as text")
    cfg_conv = False
    init_ = repo.func(CMD, "RecursiveSigner.__init__")
    raw_text = False
    # wherever in the class the attribute is stored (the constructor, or a private step of it)
    for meth_ in {id(f_): f_ for f_ in init_.cls.methods.values()}.values():
        for n_ in ast.walk(meth_.node):
            if isinstance(n_, ast.Assign) and any(isinstance(t_, ast.Attribute) and t_.attr == "already_signed_action" for t_ in n_.targets):
                v_ = n_.value
                if isinstance(v_, ast.Call):
                    r_ = repo.resolve_expr(cmdm, v_.func)
                    if r_ and r_[0] == "class" and r_[1].name == "SignatureAlreadyPresentActions":
                        cfg_conv = True
                elif isinstance(v_, ast.Subscript):
                    raw_text = True  # the configuration text itself
    cfg_conv = cfg_conv and not raw_text
    R.check("C09-D1g action value is the enum", cfg_conv, "configuration value", mod=init_.module, node=init_.node, function=ctx.fq(init_),
            expected="SignatureAlreadyPresentActions(envelope_json['already-signed-action'])", found="configuration text stored without conversion")
    R.rule("C09-D1b detection", 2, "an authentication block is a byte string that decodes to tag 18")
    def all_loops(effs):
        out_ = []
        for e_ in effs:
            if isinstance(e_, App) and e_.op == "eff:loop":
                out_.append(e_)
                out_ += all_loops(e_.args[1].args)
            elif isinstance(e_, App) and e_.op == "eff:if":
                out_ += all_loops(e_.args[1].args) + all_loops(e_.args[2].args)
            elif isinstance(e_, App) and e_.op in ("eff:alts", "eff:partial"):
                for a_ in e_.args:
                    out_ += all_loops(a_.args if isinstance(a_, App) else [])
        return out_
    loops = all_loops(eff)
    if not loops:
        raise AnalysisError(f"{fq}: no loop over the authentication wrapper recognised (the search is written in a form the rules cannot follow)")
    # the rules below reason about "for each block: if it is a signature: act on it": the action effects must sit in the body of that
    # loop.  A search that only finds the block, with the actions after the loop, is another (equally valid) form they cannot follow
    in_loop_acts = [e_ for lp_ in loops for e_ in all_effects(lp_.args[1].args) if isinstance(e_, App) and (
        (e_.op == "eff:setattr" and e_.args[1] == Const(FLAG)) or
        (e_.op == "eff:call" and isinstance(e_.args[0], App) and e_.args[0].op == "meth:remove"))]
    if not in_loop_acts:
        raise AnalysisError(f"{fq}: the already-signed actions are not performed inside the loop over the authentication wrapper "
                            f"(search-then-act form): not a form the rules can follow")
    det_ok = len(loops) == 1 and loops[0].args[0] == wrapper
    R.check("C09-D1b detection", det_ok, "every element of the authentication wrapper is examined", mod=asa.module, node=asa.node,
            function=fq, expected="for auth in cbor2.loads(envelope.value[2])", found=repr(loops[0].args[0])[:160] if loops else "no loop")
    el = App("elem", (wrapper,))
    dec = App("cborload", (el,))
    tagtest = App("and", (App("isinstance", (dec, Ref("ext", "cbor2.CBORTag"))), App("==", (App("attr:tag", (dec,)), Const(18)))))
    has_test = any(tagtest in [strip_sites(c) for c in o.conds] for o in raises) or any(
        g == tagtest for e, gs in _with_guards(eff) for g, _ in gs) or any(
        s_ == tagtest for o in outs for t_ in list(o.conds) + [strip_sites(x) for x in all_effects(o.effects)] for s_ in subterms(strip_sites(t_)))
    R.check("C09-D1b detection", has_test, "signature = CBORTag with tag 18 inside a byte string", mod=asa.module, node=asa.node,
            function=fq, expected="isinstance(decoded, CBORTag) and decoded.tag == 18", found="test not recognised")

    R.rule("C09-D1c error refuses before any change", 2, "'error' raises before the envelope is touched")
    err = [o for o in raises if guard_actions([(strip_sites(c), True) for c in o.conds]).get("ERROR")]
    R.check("C09-D1c error refuses before any change", len(err) == 1 and _exc(err[0]) == "SignerError", "action == ERROR -> SignerError",
            mod=asa.module, node=asa.node, function=fq, expected="raise SignerError", found=f"{[_exc(o) for o in err]}")
    for o in err:
        touched = [e for e in all_effects([strip_sites(x) for x in o.effects]) if isinstance(e, App) and (
            e.op in ("eff:store", "eff:delitem", "eff:setattr") or (
                e.op == "eff:call" and isinstance(e.args[0], App) and e.args[0].op in frozen.MUTATORS))]
        R.check("C09-D1c error refuses before any change", not touched, "nothing is modified before the refusal", mod=asa.module,
                node=o.node, function=fq, expected="raise first", found=f"{touched}"[:200])

    R.rule("C09-D1d per-action effects", 4, "remove-old removes the matched block and stores the list back; skip only sets the flag")
    stores = [(e, guard_actions(g)) for e, g in _with_guards(eff) if isinstance(e, App) and e.op == "eff:store"]
    removes = [(e.args[0], guard_actions(g)) for e, g in _with_guards(eff) if isinstance(e, App) and e.op == "eff:call"
               and isinstance(e.args[0], App) and e.args[0].op == "meth:remove"]
    flags = [(e, guard_actions(g)) for e, g in _with_guards(eff) if isinstance(e, App) and e.op == "eff:setattr"
             and e.args[1] == Const(FLAG)]
    ro_remove = [r for r, g in removes if g.get("REMOVE_OLD") is True]
    ok = len(removes) == 1 and len(ro_remove) == 1 and _base(ro_remove[0].args[0]) == wrapper and ro_remove[0].args[1] == el
    R.check("C09-D1d per-action effects", ok, "remove-old: the matched block is removed from the wrapper list", mod=asa.module, node=asa.node,
            function=fq, expected="auth_block.remove(auth) only under REMOVE_OLD", found=f"{removes}"[:240])
    ro_store = [s for s, g in stores if g.get("REMOVE_OLD") is True]
    ok = len(stores) == 1 and len(ro_store) == 1 and ro_store[0].args[0] == ENV and ro_store[0].args[1] == Const(2) \
        and isinstance(ro_store[0].args[2], App) and ro_store[0].args[2].op == "cbor" \
        and isinstance(ro_store[0].args[2].args[0], App) and ro_store[0].args[2].args[0].op == "mutated" \
        and ro_store[0].args[2].args[0].args[1:] == (Const("remove"), el)
    R.check("C09-D1d per-action effects", ok, "remove-old: the reduced list is re-encoded under key 2 (the only store)", mod=asa.module,
            node=asa.node, function=fq, expected="envelope.value[2] = cbor2.dumps(auth_block) only under REMOVE_OLD",
            found=f"{[(repr(s)[:120], g) for s, g in stores]}"[:300])
    sk = [f for f, g in flags if g.get("SKIP") is True]
    R.check("C09-D1d per-action effects", len(flags) == 1 and len(sk) == 1 and sk[0].args[2] == Const(True),
            "skip: only sets the skip flag", mod=asa.module, node=asa.node, function=fq, expected="self._skip_signing = True only under SKIP",
            found=f"{[(repr(f)[:80], g) for f, g in flags]}"[:240])
    ro_flag = [f for f, g in flags if g.get("REMOVE_OLD") is True or g.get("ERROR") is True]
    R.check("C09-D1d per-action effects", not ro_flag, "remove-old falls through to signing (no skip, no raise)", mod=asa.module,
            node=asa.node, function=fq, expected="no skip flag under REMOVE_OLD", found=f"{ro_flag}"[:160])

    skip_dominates(ctx, FLAG)
    key_match(ctx, ev)
    no_output_on_refusal(ctx, ev)
    recursive_wiring(ctx, ev)
    config_key_discipline(ctx)
    R.rule("C09-D6 recursive sign path executable with installed cbor2", 1, "no in-place mutation of decoded tag content")
    frozen.check(ctx, "C09-D6 recursive sign path executable with installed cbor2", [CMD, SIGN], frozen.sign_plugins(repo))


def _base(t):
    while isinstance(t, App) and t.op in ("loopvar", "loopout", "maybe_assigned", "mutated"):
        t = t.args[-1] if t.op != "mutated" else t.args[0]
    return t


def _exc(o):
    v = o.value
    if isinstance(v, App) and v.op == "new":
        return v.args[0].obj.name
    if isinstance(v, App) and v.op.startswith("call:"):
        return v.op.split(":")[-1].split(".")[-1]
    return "?"


def skip_dominates(ctx, FLAG="_skip_signing"):
    """In sign_envelope the skip test precedes KMS signing and add_signature; the flag is reset per call."""
    R = ctx.report
    repo = ctx.repo
    R.rule("C09-D1e skip dominates signing", 4, "flag reset at entry; tested after the already-signed handling and before kms.sign / add_signature")
    fi = repo.func(SIGN, "Signer.sign_envelope")
    fq = ctx.fq(fi)
    ev = Evaluator(repo, inline_depth=0)
    outs = [o for o in ev.outcomes(fi) if o.kind == "return"]
    flag = App("attr:" + FLAG, (SELF,))
    skip = [o for o in outs if flag in o.conds]
    sign = [o for o in outs if App("not", (flag,)) in o.conds]
    if len(skip) == 0:
        R.fail("C09-D1e skip dominates signing", "the skip flag is tested before signing", mod=fi.module, node=fi.node, function=fq,
               expected="if self._skip_signing: return self.envelope (before kms.sign)", found="no path returns on the skip flag")
        return
    if len(skip) != 1 or len(sign) != 1:
        raise AnalysisError(f"{fq}: skip / sign outcomes not recognised ({len(skip)}/{len(sign)})")

    def names(o):
        out = []
        for e in all_effects(o.effects):
            if isinstance(e, App) and e.op == "eff:call" and isinstance(e.args[0], App):
                c = e.args[0]
                if c.op == "call" and isinstance(c.args[0], Ref):
                    out.append(c.args[0].obj.name)
                elif c.op.startswith("meth:"):
                    out.append(c.op[5:])
            if isinstance(e, App) and e.op == "eff:setattr":
                out.append("set:" + e.args[1].v)
        return out

    ns, ng = names(skip[0]), names(sign[0])
    R.check("C09-D1e skip dominates signing", "sign" not in ns and "add_signature" not in ns and "create_cose_structure" not in ns,
            "the skip path never reaches the KMS or add_signature", mod=fi.module, node=fi.node, function=fq,
            expected="return self.envelope before signing", found=f"{ns}")
    R.check("C09-D1e skip dominates signing", "already_signed_action" in ns and "already_signed_action" in ng
            and ng.index("already_signed_action") < ng.index("sign") < ng.index("add_signature"),
            "already-signed handling precedes signing, signing precedes add_signature", mod=fi.module, node=fi.node, function=fq,
            expected="already_signed_action -> kms.sign -> add_signature", found=f"{ng}")
    R.check("C09-D1e skip dominates signing", "set:" + FLAG in ns and ns.index("set:" + FLAG) < ns.index("already_signed_action"),
            "the skip flag is reset at the start of every call", mod=fi.module, node=fi.node, function=fq,
            expected="self._skip_signing = False before already_signed_action", found=f"{ns}")
    resets = [e for e in all_effects(skip[0].effects) if isinstance(e, App) and e.op == "eff:setattr" and e.args[1] == Const(FLAG)]
    R.check("C09-D1e skip dominates signing", len(resets) == 1 and resets[0].args[2] == Const(False), "reset value is False",
            mod=fi.module, node=fi.node, function=fq, expected="False", found=f"{resets}"[:120])
    # skip returns the envelope with an empty write set outside the already-signed handling
    touched = [e for e in all_effects(skip[0].effects) if isinstance(e, App) and e.op in ("eff:store", "eff:delitem")]
    R.rule("C09-D1f skip leaves the envelope unchanged", 1, "no store on the skip path of sign_envelope itself")
    R.check("C09-D1f skip leaves the envelope unchanged", not touched and skip[0].value == sign[0].value, "write set on skip", mod=fi.module,
            node=fi.node, function=fq, expected="empty; same envelope object returned", found=f"{touched}"[:200])


def _key_check_helper_rules(ctx, ev, impl, sg, values):
    """Proof form of C09-D3: a dedicated checker (_verify_signing_key_type) dominates the signing call and accepts the right pairs."""
    R = ctx.report
    fq = ctx.fq(sg)
    if "_verify_signing_key_type" not in impl.methods:
        raise AnalysisError(f"{fq}: neither evaluable as a decision table nor checked by _verify_signing_key_type")
    outs = ev.outcomes(sg)
    rets = [o for o in outs if o.kind == "return"]
    raises = [o for o in outs if o.kind == "raise"]

    def is_verify(t):
        return isinstance(t, App) and t.op == "call" and isinstance(t.args[0], Ref) and t.args[0].obj.name == "_verify_signing_key_type"

    rej = [o for o in raises if any(isinstance(c, App) and c.op == "not" and is_verify(c.args[0]) for c in o.conds)]
    R.check("C09-D3 key/algorithm match", len(rej) == 1 and _exc(rej[0]) == "ValueError", "a failed check raises ValueError",
            mod=sg.module, node=sg.node, function=fq, expected="if not self._verify_signing_key_type(...): raise ValueError",
            found=f"{[_exc(o) for o in rej]}")
    ok = bool(rets)
    for o in rets:
        assumed = [e.args[0] for e in all_effects(o.effects) if isinstance(e, App) and e.op == "eff:assume"]
        conds = list(o.conds) + assumed
        passed = any(isinstance(c, App) and c.op == "not" and isinstance(c.args[0], App) and c.args[0].op == "not"
                     and is_verify(c.args[0].args[0]) for c in conds) or any(is_verify(c) for c in conds)
        ok = ok and passed
    R.check("C09-D3 key/algorithm match", ok, "every signing path has passed the check", mod=sg.module, node=sg.node, function=fq,
            expected="check dominates sign_method(data, key)", found="a path reaches signing without the check")
    # the check is given the loaded key and the algorithm parameter
    vc = [s for o in outs for c in o.conds for s in subterms(c) if is_verify(s)]
    R.check("C09-D3 key/algorithm match", bool(vc) and all(v.args[-1] == P("algorithm") for v in vc), "the requested algorithm is what is checked",
            mod=sg.module, node=sg.node, function=fq, expected="_verify_signing_key_type(private_key, algorithm)", found=repr(vc[:1])[:200])
    vf = impl.methods["_verify_signing_key_type"]
    vouts = ev.outcomes(vf)
    vrets = [o for o in vouts if o.kind == "return"]
    dep = all(any(s == P("algorithm") for s in subterms(o.value)) for o in vrets)
    R.check("C09-D3 key/algorithm match", dep and len(vrets) >= 2, "every verdict depends on the requested algorithm", mod=vf.module,
            node=vf.node, function=ctx.fq(vf), expected="each return compares with `algorithm`", found=f"{[repr(o.value)[:80] for o in vrets]}")
    # accepted (key kind, algorithm) pairs
    pk = P("private_key")
    accepted = {}
    for o in vrets:
        kind = "ec" if any("EllipticCurvePrivateKey" in repr(c) and not repr(c).startswith("not(") for c in o.conds) else "ed"
        for alg in values:
            if kind == "ec":
                for size in (256, 384, 521):
                    try:
                        if teval(o.value, {P("algorithm"): alg, App("attr:key_size", (pk,)): size,
                                           App("str", (App("attr:key_size", (pk,)),)): str(size)}):
                            accepted.setdefault(f"ec{size}", set()).add(alg)
                    except Unknown as e:
                        raise AnalysisError(f"{ctx.fq(vf)}: verdict not evaluable: {e}")
            else:
                try:
                    if teval(o.value, {P("algorithm"): alg}):
                        accepted.setdefault("ed", set()).add(alg)
                except Unknown as e:
                    raise AnalysisError(f"{ctx.fq(vf)}: verdict not evaluable: {e}")
    want = {"ec256": {"es-256"}, "ec384": {"es-384"}, "ec521": {"es-521"}, "ed": {"eddsa", "hash-eddsa"}}
    R.check("C09-D3 key/algorithm match", accepted == want, "accepted (key, algorithm) pairs", mod=vf.module, node=vf.node,
            function=ctx.fq(vf), expected=f"{want}", found=f"{accepted}")
    other = [o for o in vouts if o.kind == "raise"]
    R.check("C09-D3 key/algorithm match", bool(other) and all(_exc(o) == "ValueError" for o in other), "other key types are refused",
            mod=vf.module, node=vf.node, function=ctx.fq(vf), expected="raise ValueError", found=f"{[_exc(o) for o in other]}")


def key_match(ctx, ev):
    R = ctx.report
    repo = ctx.repo
    R.rule("C09-D3 key/algorithm match", 1, "the key type check dominates the signing call, fails closed, and covers exactly the five algorithms")
    algs = repo.cls("suit_generator.suit_sign_script_base", "SuitSignAlgorithms")
    values = sorted(v.v for _, v in ctx.ev.enum_members(algs))
    R.rule("C09-D3b checked key = signing key", 2, "every read of the key in one sign() call uses the same file under the key directory")
    for impl in repo.subclasses(repo.cls("suit_generator.suit_kms_base", "SuitKMSBase")):
        generic.key_file_rule(ctx, "C09-D3b checked key = signing key", impl, "sign")
        sg = impl.methods["sign"]
        fq = ctx.fq(sg)
        # decided on the decision table of sign() itself (private helpers followed): every kind of key with every algorithm - signing
        # happens only for the compatible pairs, everything else is refused; wherever check and selection are written
        tbl = generic.kms_sign_table(ctx, impl)
        if tbl is not None:
            want_tbl = generic.kms_sign_table_expected()
            wrong = {k: tbl[k] for k in want_tbl if (want_tbl[k] == "raise") != (tbl[k] == "raise")}
            R.check("C09-D3 key/algorithm match", not wrong, "signing happens exactly for (EC-n, es-n), (Ed25519/Ed448, eddsa / hash-eddsa); other pairs and other keys raise",
                    mod=sg.module, node=sg.node, function=fq, expected="every incompatible (key, algorithm) pair refused before signing",
                    found=f"{ {k: (v if v == 'raise' else 'signs') for k, v in wrong.items()} }"[:300])
        if tbl is not None and "_verify_signing_key_type" not in impl.methods:
            continue
        import contextlib
        try:
            with (R.lenient("decided on the decision table of sign() (C09-D3)") if tbl is not None else contextlib.nullcontext()):
                _key_check_helper_rules(ctx, ev, impl, sg, values)
        except AnalysisError as e_:
            if tbl is None:
                raise
            R.info(f"proof form of the key check not applicable ({e_}); decided on the decision table of sign() (C09-D3)")

def no_output_on_refusal(ctx, ev):
    R = ctx.report
    repo = ctx.repo
    R.rule("C09-D2 no output on refusal", 5, "output is written only after signing returned; dependency checks precede any signing")
    main = repo.func(CMD, "main")
    fq = ctx.fq(main)
    tries = [n for n in walk_no_nested(main.node) if isinstance(n, ast.Try)]
    R.check("C09-D2 no output on refusal", not tries, "no handler in main can swallow a refusal", mod=main.module, node=main.node,
            function=fq, expected="no try/except around signing and saving", found=f"{len(tries)} try statements")
    outs = [o for o in Evaluator(repo, inline_depth=1).outcomes(main) if o.kind == "return"]
    outs = generic.sole_outcome(ctx, outs, f"{fq}: expected one normal outcome")
    ok = True
    for seq in flatten_effects(outs[0].effects):
        kinds = []
        for e in seq:
            if isinstance(e, App) and e.op == "eff:call" and isinstance(e.args[0], App):
                c = e.args[0]
                if c.op == "call:cbor2.dump" or (c.op == "open" and Const("wb") in c.args):
                    kinds.append("write")
                if c.op == "meth:sign_envelope" or (c.op == "call" and isinstance(c.args[0], Ref)
                                                    and c.args[0].obj.name in ("single_level_sign", "recursive_sign")):
                    kinds.append("sign")
            if isinstance(e, App) and e.op == "eff:open" and e.args[1] == Const("wb"):
                kinds.append("write")
        if "write" in kinds and ("sign" not in kinds or kinds.index("write") < max(i for i, k in enumerate(kinds) if k == "sign")):
            ok = False
    R.check("C09-D2 no output on refusal", ok, "the output file is opened only after the signing call returned", mod=main.module,
            node=main.node, function=fq, expected="sign … then save_envelope", found="a write precedes signing on some path")
    # recursive_sign(): the whole tree is constructed (all dependency checks) before the first signature
    rs = repo.func(CMD, "recursive_sign")
    routs = [o for o in Evaluator(repo, inline_depth=0).outcomes(rs) if o.kind == "return"]
    built_first = bool(routs)
    for o in routs:
        for seq in flatten_effects(o.effects):
            calls = [e.args[0] for e in seq if isinstance(e, App) and e.op == "eff:call" and isinstance(e.args[0], App)]
            news = [i for i, c in enumerate(calls) if c.op == "new" and isinstance(c.args[0], Ref) and c.args[0].obj.name == "RecursiveSigner"]
            signs = [(i, c) for i, c in enumerate(calls) if c.op == "call" and isinstance(c.args[0], Ref) and c.args[0].obj.name == "recursive_sign"]
            if not news or not signs or min(i for i, _ in signs) < max(news) or not all(c.args[1] == calls[news[-1]] for _, c in signs):
                built_first = False
    R.check("C09-D2 no output on refusal", built_first, "the signer tree is built before signing starts", mod=rs.module, node=rs.node,
            function=ctx.fq(rs), expected="RecursiveSigner(...) constructed, then .recursive_sign() on that object", found="order not recognised")
    ld = repo.func(CMD, "RecursiveSigner._load_dependency")
    louts = ev.outcomes(ld)
    lr = [o for o in louts if o.kind == "raise"]
    lret = [o for o in louts if o.kind == "return"]
    kinds = set()
    for o in lr:
        cs = " ".join(repr(c) for c in o.conds[-1:])
        if "not in(" in cs:
            kinds.add("absent")
        elif "isinstance" in cs and "bytes" in cs:
            kinds.add("not bytes")
        elif "exc(" in cs:
            kinds.add("undecodable")
        elif "CBORTag" in cs:
            kinds.add("not an envelope")
    R.check("C09-D2 no output on refusal", kinds == {"absent", "not bytes", "undecodable", "not an envelope"} and all(_exc(o) == "ValueError" for o in lr),
            "a named dependency that is absent / not bytes / undecodable / not a tag is refused", mod=ld.module, node=ld.node,
            function=ctx.fq(ld), expected="four ValueError exits", found=f"{sorted(kinds)}; {[_exc(o) for o in lr]}")
    R.check("C09-D2 no output on refusal", len(lret) == 1 and len(lret[0].conds) >= 3, "the dependency is returned only after all checks",
            mod=ld.module, node=ld.node, function=ctx.fq(ld), expected="return dominated by the four checks", found=f"{len(lret)} returns")


def _loads_own_dependency(ctx, ev0, ld_fi, call, d):
    """The loader, wherever it lives and whatever it is handed: what it decodes, with the arguments of this call put in place of
    its parameters, is the entry of this node's own envelope stored under the dependency's name."""
    from sa.terms import substitute
    rets = [o for o in ev0.outcomes(ld_fi) if o.kind == "return"]
    names = ld_fi.params()
    args = [a_ for a_ in call.args[1:] if not (isinstance(a_, App) and a_.op == "kw")]
    mp = {P(n): a_ for n, a_ in zip(names, args)}
    mp.update({P(a_.args[0].v): a_.args[1] for a_ in call.args[1:] if isinstance(a_, App) and a_.op == "kw"})
    if len(rets) != 1 or len(mp) != len(names):
        raise AnalysisError(f"{ctx.fq(ld_fi)}: loader call not recognised ({call!r})")
    got = substitute(rets[0].value, mp)
    if not (isinstance(got, App) and got.op == "cborload" and isinstance(got.args[0], App) and got.args[0].op == "idx"):
        raise AnalysisError(f"{ctx.fq(ld_fi)}: the loader does not return a decoded entry of a mapping ({got!r})")
    box, key = got.args[0].args
    own = App("attr:value", (P("envelope"),))
    boxes = (App("attr:value", (App("attr:envelope", (SELF,)),)), own, App("call:dict", (own,)),
             App("attr:value", (App("tag", (App("attr:tag", (P("envelope"),)), App("call:dict", (own,)))),)))
    return box in boxes and key == d


def recursive_wiring(ctx, ev):
    R = ctx.report
    repo = ctx.repo
    R.rule("C09-D4 recursive wiring", 8, "child = (own bytes, own config, own name, inherited script/KMS/alg/context); signed bottom-up; stored back under its name")
    init = repo.func(CMD, "RecursiveSigner.__init__")
    fq = ctx.fq(init)
    generic.loops_run_to_end(ctx, "C09-D4d every listed dependency is visited", init, {"RecursiveSigner", "_load_dependency", "append"}, "dependencies listed in the configuration", floor=0)
    generic.loops_run_to_end(ctx, "C09-D4d every listed dependency is visited", repo.func(CMD, "RecursiveSigner.recursive_sign"), {"recursive_sign"},
                             "dependencies of the node")
    A = lambda n: App("attr:" + n, (SELF,))
    ev0 = Evaluator(repo, inline_depth=0)
    iouts = [o for o in ev0.outcomes(init) if o.kind == "return"]
    DEPS = App("idx", (P("envelope_json"), Const("dependencies")))

    def loops_with_ctor(effs, found):
        for e in effs:
            if not isinstance(e, App):
                continue
            if e.op == "eff:if":
                loops_with_ctor(e.args[1].args, found)
                loops_with_ctor(e.args[2].args, found)
            elif e.op == "eff:loop":
                for x in all_effects(e.args[1].args):
                    if isinstance(x, App) and x.op == "eff:call" and isinstance(x.args[0], App) and x.args[0].op == "new" \
                            and isinstance(x.args[0].args[0], Ref) and x.args[0].args[0].obj is init.cls:
                        if not any(f_[0] == e.args[0] and f_[1] == x.args[0] for f_ in found):
                            found.append((e.args[0], x.args[0], e))
    sites = []
    for o in iouts:
        loops_with_ctor(o.effects, sites)
    if len(sites) != 1:
        raise AnalysisError(f"{fq}: dependency loop not recognised ({len(sites)} construction sites of the child signer inside a loop)")
    it, ctor, loop = sites[0]
    # the loop walks the configured dependencies: by name, or by (name, configuration) pairs
    if it in (DEPS, App("meth:keys", (DEPS,))):
        d, cfgs = App("elem", (it,)), [App("idx", (DEPS, App("elem", (it,))))]
    elif it == App("meth:items", (DEPS,)):
        d = App("unpack", (App("elem", (it,)), Const(0), Const(2)))
        cfgs = [App("unpack", (App("elem", (it,)), Const(1), Const(2))), App("idx", (DEPS, d))]
    else:
        d, cfgs = None, []
    R.check("C09-D4 recursive wiring", d is not None, "children = the names listed in the configuration",
            mod=init.module, node=loop.node or init.node, function=fq, expected="for dep in envelope_json['dependencies'] (or its items())", found=repr(it)[:160])
    # every configured dependency is loaded (and thereby checked): no condition inside the loop skips the construction of a child
    cguards = [g_ for e_, g_ in _with_guards(loop.args[1].args) if isinstance(e_, App) and e_.op == "eff:call" and e_.args[0] == ctor]
    skipping = [repr(c_)[:80] for g_ in cguards for c_, _pol in g_]
    R.check("C09-D4 recursive wiring", bool(cguards) and not skipping, "every name listed in the configuration gets a child (is loaded and checked)",
            mod=init.module, node=ctor.node or init.node, function=fq, expected="RecursiveSigner(self._load_dependency(dep), ...) for every dep, unconditionally",
            found=f"the child is only constructed under {skipping[:2]}: a listed dependency that is absent or invalid is not refused on the other path")
    args = [a_ for a_ in ctor.args[2:] if not (isinstance(a_, App) and a_.op == "kw")]
    kws = {a_.args[0].v: a_.args[1] for a_ in ctor.args[2:] if isinstance(a_, App) and a_.op == "kw"}
    names = ["envelope", "envelope_json", "envelope_name", "sign_script", "kms_script", "algorithm", "context"]
    params = init.params()[1:]
    if d is not None:
        ld_fi = repo.func(CMD, "RecursiveSigner._load_dependency")
        want = {"envelope": [App("call", (Ref("func", ld_fi), SELF, d))], "envelope_json": cfgs, "envelope_name": [d], "sign_script": [A("sign_script")],
                "kms_script": [A("kms_script")], "algorithm": [A("alg")], "context": [A("context")]}
        # an attribute read back after it was stored is the stored value when no call on self intervenes
        for nme, attr in (("sign_script", "sign_script"), ("kms_script", "kms_script"), ("algorithm", "alg"), ("context", "context")):
            want[nme] += [o.heap[(SELF, attr)] for o in iouts if (SELF, attr) in o.heap]
        for nme in names:
            # the argument that reaches the parameter of this name (by position in the constructor's own parameter list, or by keyword)
            got = kws.get(nme)
            if got is None and nme in params and params.index(nme) < len(args):
                got = args[params.index(nme)]
            ok_ = got in want[nme]
            if nme == "envelope" and not ok_ and isinstance(got, App) and got.op == "call" and got.args and got.args[0] == Ref("func", ld_fi):
                ok_ = _loads_own_dependency(ctx, ev0, ld_fi, got, d)
            R.check("C09-D4 recursive wiring", ok_, f"child parameter {nme}", mod=init.module, node=ctor.node or init.node, function=fq,
                    expected=repr(want[nme][0])[:160], found=repr(got)[:160], key_extra=nme)
    R.check("C09-D4 recursive wiring", params[:7] == names,
            "constructor parameter order", mod=init.module, node=init.node, function=fq, expected="(envelope, envelope_json, envelope_name, sign_script, kms_script, algorithm, context)",
            found=f"{params}")
    # resolved attributes are assigned before children are built (children inherit the resolved values)
    late = set()
    for o in iouts:
        for seq in flatten_effects(o.effects):
            entered = False
            for e in seq:
                if isinstance(e, App) and e.op == "eff:loop_enter" and e.args[0] == it:
                    entered = True
                if entered and isinstance(e, App) and e.op == "eff:setattr" and e.args[0] == SELF and isinstance(e.args[1], Const) \
                        and e.args[1].v in ("sign_script", "kms_script", "alg", "context"):
                    late.add(e.args[1].v)
    R.check("C09-D4 recursive wiring", not late, "inherited attributes are final before children are constructed", mod=init.module,
            node=loop.node or init.node, function=fq, expected="no assignment to sign_script/kms_script/alg/context after the dependency loop", found=f"{sorted(late)}")

    # precedence of the sources of each inherited setting, decided on the value the constructor leaves in the attribute: the node's
    # own configuration entry wins, then the value handed down by the parent, and only a node that has neither falls back to the
    # environment (scripts).  Evaluated on the decision table (entry present? x handed down? x each environment variable set?).
    R.rule("C09-D4c precedence of own, inherited and environment settings", 4, "own configuration entry > value inherited from the parent > environment fallback")
    from itertools import product as _product
    from sa.teval import teval as _teval, Unknown as _Unknown
    for attr, par in (("sign_script", "sign_script"), ("kms_script", "kms_script"), ("alg", "algorithm"), ("context", "context")):
        finals = {o.heap[(SELF, attr)] for o in iouts if (SELF, attr) in o.heap}
        if len(finals) != 1:
            raise AnalysisError(f"{fq}: final value of self.{attr} not recognised ({len(finals)} forms)")
        term = next(iter(finals))
        keys = {s_.args[0].v for s_ in subterms(term) if isinstance(s_, App) and s_.op in ("in", "not in") and isinstance(s_.args[0], Const)
                and s_.args[1] == P("envelope_json")}
        keys |= {s_.args[1].v for s_ in subterms(term) if isinstance(s_, App) and s_.op in ("idx", "meth:get") and len(s_.args) >= 2 and s_.args[0] == P("envelope_json")
                 and isinstance(s_.args[1], Const)}
        envs = sorted({s_ for s_ in subterms(term) if isinstance(s_, App) and s_.op in ("call:os.environ.get", "call:os.getenv")}, key=repr)
        envs += sorted({s_ for s_ in subterms(term) if isinstance(s_, App) and s_.op == "idx" and repr(s_.args[0]).endswith("os.environ>")}, key=repr)
        if len(keys) != 1:
            R.fail("C09-D4c precedence of own, inherited and environment settings", f"self.{attr}", mod=init.module, node=init.node, function=fq,
                   expected=f"self.{attr} = the node's own configuration entry when present, else the inherited value", found=f"configuration keys read: {sorted(keys)}; value {repr(term)[:160]}", key_extra=attr)
            continue
        key = next(iter(keys))
        enums = [s_ for s_ in subterms(term) if isinstance(s_, App) and s_.op == "enum_by_value"]
        bad = None
        for has_key, given, *envset in _product((True, False), (True, False), *[(True, False)] * len(envs)):
            cfg = {"key-name": "k", "key-id": "1", **({key: "OWN"} if has_key else {})}
            env_ = {"param:envelope_json": cfg, "param:" + par: "INHERITED" if given else None, P("envelope_json"): cfg, P(par): "INHERITED" if given else None}
            for e_, on in zip(envs, envset):
                env_[e_] = "ENV" if on else None
            for en_ in enums:
                env_[en_] = "OWN"
            want = "OWN" if has_key else ("INHERITED" if given else None)
            if want is None:
                continue
            try:
                got = _teval(term, env_)
            except _Unknown as e:
                raise AnalysisError(f"{fq}: final value of self.{attr} not evaluable: {e}")
            if got != want:
                bad = (has_key, given, dict(zip([repr(e_)[-40:] for e_ in envs], envset)), got)
                break
        R.check("C09-D4c precedence of own, inherited and environment settings", bad is None, f"self.{attr}", mod=init.module, node=init.node, function=fq,
                expected=f"'{key}' of the node's configuration when present, else the value handed down by the parent; the environment only when there is neither",
                found=f"own entry {'present' if bad[0] else 'absent'}, inherited value {'given' if bad[1] else 'None'}, environment {bad[2]}: self.{attr} = {bad[3]!r}" if bad else "",
                key_extra=attr)

    R.rule("C09-D4b own key, bottom-up, same name", 5, "the node signs with its own key; dependencies are signed and re-embedded before the node signs")
    rs = repo.func(CMD, "RecursiveSigner.recursive_sign")
    # private helpers of the class (the signing step) are followed, so that the call of the signer is seen wherever it is written
    ev = Evaluator(repo, inline_depth=2, inline_filter=lambda f: f.cls is rs.cls and f is not rs and f.name.startswith("_") and not f.name.startswith("__")
                   and f.name != "_load_dependency")
    so = [o for o in ev.outcomes(rs) if o.kind == "return"]
    calls = []
    for o in so:
        for e in all_effects(o.effects):
            if isinstance(e, App) and e.op == "eff:call" and isinstance(e.args[0], App) and e.args[0].op == "meth:sign_envelope" and e.args[0] not in calls:
                calls.append(e.args[0])
    want = (A("signer"), A("envelope"), A("key_name"), A("key_id"), A("alg"), A("context"), A("kms_script"), A("already_signed_action"))
    R.check("C09-D4b own key, bottom-up, same name", len(calls) == 1 and tuple(calls[0].args) == want,
            "signer.sign_envelope(own envelope, own key name, own key id, alg, context, kms script, action)", mod=rs.module, node=rs.node,
            function=ctx.fq(rs), expected="positional order of SuitEnvelopeSignerBase.sign_envelope", found=repr(calls)[:300])
    base = repo.cls("suit_generator.suit_sign_script_base", "SuitEnvelopeSignerBase").methods["sign_envelope"]
    R.check("C09-D4b own key, bottom-up, same name", base.params()[1:] == ["input_envelope", "key_name", "key_id", "algorithm", "context", "kms_script", "already_signed_action"],
            "interface parameter order", mod=base.module, node=base.node, function=ctx.fq(base),
            expected="(input_envelope, key_name, key_id, algorithm, context, kms_script, already_signed_action)", found=f"{base.params()[1:]}")
    stored = []
    for o in so:
        for e in all_effects(o.effects):
            if isinstance(e, App) and e.op == "eff:setattr" and e.args[1] == Const("envelope") and e not in stored:
                stored.append(e)
    R.check("C09-D4b own key, bottom-up, same name", len(stored) == 1 and calls and stored[0].args[2] == calls[0], "the signed envelope replaces the node's envelope",
            mod=rs.module, node=rs.node, function=ctx.fq(rs), expected="self.envelope = signer.sign_envelope(...)", found=repr(stored)[:160])
    ro = generic.sole_outcome(ctx, so, "recursive_sign: expected one outcome")
    o = ro[0]
    dep = App("elem", (A("dependencies"),))
    child = App("meth:recursive_sign", (dep,))
    ENVS = [App("attr:value", (A("envelope"),))]
    st = [e for e in all_effects(o.effects) if isinstance(e, App) and e.op == "eff:store"]
    ok = len(st) == 1 and st[0].args[0] in ENVS and st[0].args[1] == App("attr:envelope_name", (dep,)) and st[0].args[2] == App("cbor", (child,))
    R.check("C09-D4b own key, bottom-up, same name", ok, "each signed dependency is re-embedded (re-encoded) under the name it was loaded from",
            mod=rs.module, node=rs.node, function=ctx.fq(rs), expected="envelope.value[dep.envelope_name] = cbor2.dumps(dep.recursive_sign())",
            found=repr(st)[:300])

    def is_sign(e):
        return isinstance(e, App) and e.op == "eff:call" and isinstance(e.args[0], App) and e.args[0].op == "meth:sign_envelope"
    order_ok, omit_ok, store_unguarded = True, False, True
    for seq in flatten_effects(o.effects):
        idx_store = [i for i, e in enumerate(seq) if isinstance(e, App) and e.op == "eff:store"]
        idx_sign = [i for i, e in enumerate(seq) if is_sign(e)]
        if idx_store and idx_sign and max(idx_store) > min(idx_sign):
            order_ok = False
    for e, g in _with_guards(o.effects):
        if is_sign(e):
            omit_ok = g == ((A("omit_signing"), False),)
        if isinstance(e, App) and e.op == "eff:store" and g:
            store_unguarded = False
    omit_ok = omit_ok and store_unguarded
    final_env = o.heap.get((SELF, "envelope"))
    ret_ok = o.value == A("envelope") or (final_env is not None and o.value == final_env)
    R.check("C09-D4b own key, bottom-up, same name", order_ok and omit_ok and ret_ok,
            "dependencies first; omit-signing guards only the node's own signature; the node's envelope is returned", mod=rs.module,
            node=rs.node, function=ctx.fq(rs), expected="for dep …: store; if not omit_signing: sign; return envelope",
            found=f"order ok={order_ok}, omit guards only the signing={omit_ok}, returns the node's envelope={ret_ok}")


def config_key_discipline(ctx):
    """C09-D5: a configuration key whose presence is only conditionally enforced is never read unconditionally."""
    R = ctx.report
    repo = ctx.repo
    R.rule("C09-D5 omit-signing needs no key", 8, "every read envelope_json[k] is guarded by a membership test on k that holds on all paths reaching it")
    init = repo.func(CMD, "RecursiveSigner.__init__")
    fq = ctx.fq(init)
    cfg = "envelope_json"

    def membership(test, key, positive):
        """Does `test` being true imply (key in cfg) [positive] / being false imply it [negative form]?"""
        t = test
        if positive:
            if isinstance(t, ast.Compare) and len(t.ops) == 1 and isinstance(t.ops[0], ast.In) and isinstance(t.left, ast.Constant) \
                    and t.left.value == key and ast.unparse(t.comparators[0]) == cfg:
                return True
            if isinstance(t, ast.BoolOp) and isinstance(t.op, ast.And):
                return any(membership(v, key, True) for v in t.values)
            return False
        # negative: test false  =>  key in cfg   (test is `key not in cfg` or an OR containing it)
        if isinstance(t, ast.Compare) and len(t.ops) == 1 and isinstance(t.ops[0], ast.NotIn) and isinstance(t.left, ast.Constant) \
                and t.left.value == key and ast.unparse(t.comparators[0]) == cfg:
            return True
        if isinstance(t, ast.BoolOp) and isinstance(t.op, ast.Or):
            return any(membership(v, key, False) for v in t.values)
        return False

    def exits(body):
        return bool(body) and isinstance(body[-1], (ast.Raise, ast.Return, ast.Continue, ast.Break))

    reads = []

    def visit(stmts, guarded):
        guarded = set(guarded)
        for s in stmts:
            # reads in this statement (not descending into nested blocks handled below)
            if isinstance(s, ast.If):
                for r in _reads(s.test, cfg):
                    reads.append((r, r.slice.value in guarded or _guarded_in_expr(s.test, r, cfg)))
                pos = {k for k in _keys_tested(s.test) if membership(s.test, k, True)}
                visit(s.body, guarded | pos)
                neg = {k for k in _keys_tested(s.test) if membership(s.test, k, False)}
                visit(s.orelse, guarded | neg)
                if exits(s.body):
                    guarded |= neg
                continue
            if isinstance(s, (ast.For, ast.While, ast.With, ast.Try)):
                for r in _reads_shallow(s, cfg):
                    reads.append((r, r.slice.value in guarded))
                for blk in ("body", "orelse", "finalbody"):
                    visit(getattr(s, blk, []) or [], guarded)
                for h in getattr(s, "handlers", []) or []:
                    visit(h.body, guarded)
                continue
            for r in _reads(s, cfg):
                reads.append((r, r.slice.value in guarded or _guarded_in_expr(s, r, cfg)))
            # a private helper of the module that is handed the configuration: its body, with its parameters replaced by the
            # arguments of this call, is read as if written here (key names given as arguments become literal keys)
            for call in [n for n in ast.walk(s) if isinstance(n, ast.Call)]:
                hname = call.func.attr if isinstance(call.func, ast.Attribute) else (call.func.id if isinstance(call.func, ast.Name) else None)
                if not hname or not hname.startswith("_") or not any(isinstance(a_, ast.Name) and a_.id == cfg for a_ in list(call.args) + [k.value for k in call.keywords]):
                    continue
                cands = [f for q, f in init.module.functions.items() if q.rsplit(".", 1)[-1] == hname and f is not init]
                if len(cands) != 1 or cands[0] in expanding:
                    continue
                h = cands[0]
                hp = h.params()
                if h.kind in ("method", "classmethod") and isinstance(call.func, ast.Attribute):
                    hp = hp[1:]
                mapping = {p_: a_ for p_, a_ in zip(hp, call.args)}
                mapping.update({k.arg: k.value for k in call.keywords if k.arg})
                import copy as _copy

                class _S(ast.NodeTransformer):
                    def visit_Name(self, node):
                        return _copy.deepcopy(mapping[node.id]) if isinstance(node.ctx, ast.Load) and node.id in mapping else node
                body = [_S().visit(_copy.deepcopy(st_)) for st_ in h.node.body]
                expanding.append(h)
                visit(body, guarded)
                expanding.pop()

    expanding = []
    visit(init.node.body, set())
    keys_read = {r.slice.value for r, _ in reads}
    if len(keys_read) < 8:
        raise AnalysisError(f"{fq}: only {len(keys_read)} configuration keys read by subscript recognised ({sorted(keys_read)})")
    for r, ok in reads:
        k = r.slice.value
        R.check("C09-D5 omit-signing needs no key", ok, f"read of {k!r}", mod=init.module, node=r, function=fq,
                expected=f"dominated by a test that {k!r} is present (or use .get / a conditional)",
                found=f"{k!r} is read on a path where its presence was not established (e.g. omit-signing set, key absent -> KeyError)",
                key_extra=k + str(r.lineno))


def _reads(node, cfg):
    out = []
    for n in ast.walk(node):
        if isinstance(n, ast.Subscript) and isinstance(n.ctx, ast.Load) and isinstance(n.value, ast.Name) and n.value.id == cfg \
                and isinstance(n.slice, ast.Constant) and isinstance(n.slice.value, str):
            out.append(n)
    return out


def _reads_shallow(s, cfg):
    out = []
    for field in ("iter", "test", "items"):
        v = getattr(s, field, None)
        if v is None:
            continue
        for x in (v if isinstance(v, list) else [v]):
            out.extend(_reads(x, cfg))
    return out


def _keys_tested(test):
    out = set()
    for n in ast.walk(test):
        if isinstance(n, ast.Compare) and len(n.ops) == 1 and isinstance(n.ops[0], (ast.In, ast.NotIn)) \
                and isinstance(n.left, ast.Constant) and isinstance(n.left.value, str):
            out.add(n.left.value)
    return out


def _guarded_in_expr(stmt, read, cfg):
    """`x[k] if k in x else …`  or  `k in x and x[k]` inside one expression."""
    k = read.slice.value
    for n in ast.walk(stmt):
        if isinstance(n, ast.IfExp) and any(x is read for x in ast.walk(n.body)):
            t = n.test
            if isinstance(t, ast.Compare) and isinstance(t.ops[0], ast.In) and isinstance(t.left, ast.Constant) and t.left.value == k:
                return True
        if isinstance(n, ast.IfExp) and any(x is read for x in ast.walk(n.orelse)):
            t = n.test
            if isinstance(t, ast.Compare) and isinstance(t.ops[0], ast.NotIn) and isinstance(t.left, ast.Constant) and t.left.value == k:
                return True
        if isinstance(n, ast.BoolOp) and isinstance(n.op, ast.And):
            for i, v in enumerate(n.values):
                if any(x is read for x in ast.walk(v)):
                    for prev in n.values[:i]:
                        if isinstance(prev, ast.Compare) and isinstance(prev.ops[0], ast.In) and isinstance(prev.left, ast.Constant) \
                                and prev.left.value == k:
                            return True
    return False
