"""C02 — the wire format is the SUIT/COSE encoding of the description (tables, wrap layers, generic encoders)."""
from __future__ import annotations

import ast

from sa.absint import Evaluator, all_effects
from sa.callgraph import CallGraph
from sa.index import AnalysisError, walk_no_nested
from rules.setuse import order_observable, parents_of
from sa.terms import App, Const, Ref, Sym, contains, subterms, cases
from . import generic

EXPLANATION = ("lock-step walk of the schema graph extracted from the Metadata tables against a reference shape "
               "keyed by registry codes (wrap depth, container kind, grouping, union order, tags); generic encoders "
               "checked for order preservation, code/name roles, one-layer cbstr and value-independent structure; "
               "no repository code executed")

COMMON = "suit_generator.suit.types.common"
EXCLUDED_ENVELOPE_KEYS = {"1"}  # suit-delegation: excluded by the property


def compare_shapes(ctx, rid, ref, cur):
    """Walk reference and current shape graphs in lock step (ids are ignored, recursion by visited pairs)."""
    R = ctx.report
    RN, CN = ref["nodes"], cur["nodes"]
    seen = set()
    edges = 0

    def fail(path, exp, found, cid):
        hint = CN.get(cid, {}).get("hint", "?") if cid else "?"
        R.fail(rid, f"{path}", file="suit_generator/suit", line=0, function=f"schema node {hint}",
               construct=f"{path}|{exp}|{found}", expected=exp, found=found, witness=[path])

    def go(rid_, cid, path):
        nonlocal edges
        if (rid_, cid) in seen:
            return
        seen.add((rid_, cid))
        r, c = RN[rid_], CN[cid]
        edges += 1
        if r["t"] != c["t"]:
            fail(path, f"kind {r['t']}" + (f" of size {r['size']}" if "size" in r else ""), f"kind {c['t']}", cid)
            return
        t = r["t"]
        ok = True
        if t == "bstr.cbor":
            R.ok(rid, path + " wrap")
            go(r["of"], c["of"], path + "/bstr.cbor")
            return
        if t in ("kv", "pair"):
            for code, rv in r["keys"].items():
                p = f"{path}/{code}:{rv['name']}"
                if path.endswith("tag107") and code in EXCLUDED_ENVELOPE_KEYS:
                    continue
                if code not in c["keys"]:
                    # the code may have moved: report as missing edge
                    other = [k for k, v in c["keys"].items() if v["name"] == rv["name"]]
                    fail(p, f"member with code {code}", f"absent (name now under code {other})" if other else "absent", cid)
                    continue
                cv = c["keys"][code]
                if cv["name"] != rv["name"]:
                    fail(p, f"name {rv['name']!r}", f"name {cv['name']!r}", cid)
                    continue
                R.ok(rid, p)
                go(rv["v"], cv["v"], p)
            for code, cv in c["keys"].items():
                if code not in r["keys"]:
                    R.info(f"unverified extension at {path}: {code}:{cv['name']}")
            if r.get("embedded") != c.get("embedded"):
                fail(path + " embedded", f"embedded {r.get('embedded')}", f"{c.get('embedded')}", cid)
            return
        if t == "umap":
            if len(r["entries"]) != len(c["entries"]):
                fail(path, f"{len(r['entries'])} key/value alternatives", f"{len(c['entries'])}", cid)
                return
            for i, (re_, ce) in enumerate(zip(r["entries"], c["entries"])):
                go(re_["k"], ce["k"], f"{path}/key{i}")
                go(re_["v"], ce["v"], f"{path}/val{i}")
            R.ok(rid, path)
            return
        if t == "array":
            ri, ci = r["items"], c["items"]
            if [(x["name"], x["star"]) for x in ri] != [(x["name"], x["star"]) for x in ci]:
                fail(path, f"positions {[(x['name'], x['star']) for x in ri]}",
                     f"{[(x['name'], x['star']) for x in ci]}", cid)
                return
            for x, y in zip(ri, ci):
                go(x["v"], y["v"], f"{path}/[{x['name']}]")
            R.ok(rid, path)
            return
        if t == "list":
            if r.get("group") != c.get("group"):
                fail(path, f"grouping {r.get('group')}", f"grouping {c.get('group')}", cid)
            else:
                R.ok(rid, path + " list")
            if (r["of"] is None) != (c["of"] is None):
                fail(path, "list element type" + (" none" if r["of"] is None else ""), "differs", cid)
            elif r["of"] is not None:
                go(r["of"], c["of"], path + "/*")
            return
        if t == "union":
            ra, ca = r["alts"], c["alts"]
            if len(ca) < len(ra):
                fail(path, f"{len(ra)} alternatives", f"{len(ca)} alternatives", cid)
                return
            for i, (x, y) in enumerate(zip(ra, ca)):
                go(x, y, f"{path}/alt{i}")
            if len(ca) > len(ra):
                R.info(f"unverified extension at {path}: {len(ca) - len(ra)} extra union alternative(s) at the end")
            R.ok(rid, path + " union")
            return
        if t == "tag":
            if r["tag"] != c["tag"] or r["name"] != c["name"]:
                fail(path, f"tag {r['tag']} named {r['name']}", f"tag {c['tag']} named {c['name']}", cid)
            else:
                R.ok(rid, path + f" tag{r['tag']}")
            go(r["of"], c["of"], f"{path}/tag{r['tag']}")
            return
        if t == "enum":
            for code, name in r["members"].items():
                if c["members"].get(code) != name:
                    fail(f"{path}/{code}", f"{name} = {code}", f"{c['members'].get(code)!r}", cid)
                else:
                    R.ok(rid, f"{path}/{code}:{name}")
            return
        if t == "bits":
            if r["len"] != c["len"]:
                fail(path, f"{r['len']} bits", f"{c['len']} bits", cid)
            else:
                R.ok(rid, path + " bits")
            go(r["of"], c["of"], path + "/bit")
            return
        # leaves
        if r.get("size") != c.get("size"):
            fail(path, f"{t} size {r.get('size')}", f"{t} size {c.get('size')}", cid)
        elif r.get("desc") != c.get("desc"):
            fail(path, f"{t}: description values accepted under {r.get('desc')}", f"accepted under {c.get('desc')}: some values now go to another "
                 f"alternative of the enclosing choice (another encoding) or are refused", cid)
        else:
            R.ok(rid, path + f" {t}")

    go(ref["root"], cur["root"], "")
    return edges


def run(ctx):
    generic.value_slot_naming(ctx)
    R = ctx.report
    S = ctx.schema
    repo = ctx.repo
    ctx.use_files("suit_generator/suit/types/keys.py", "suit_generator/suit/types/common.py",
                  "suit_generator/suit/manifest.py", "suit_generator/suit/security.py",
                  "suit_generator/suit/envelope.py", "suit_generator/suit/payloads.py")

    R.rule("C02-0 schema well-formed", 1, "metadata literals fresh; patches at module level; star only last")
    probs = list(S.problems)
    for fq, mi in S.meta.items():
        if S.kind(mi.owner) == "array" and mi.map:
            stars = [k for k, _ in mi.map if isinstance(k, str) and k.endswith("*")]
            if any(isinstance(k, str) and k.endswith("*") for k, _ in mi.map[:-1]):
                probs.append((f"{fq}: only the last tuple position may be repeated (*)", mi.owner.module, mi.node))
    for msg, mod, node in probs:
        R.fail("C02-0 schema well-formed", msg, mod=mod, node=node, function=mod.name, expected="well-formed schema", found=msg)
    if not probs:
        R.ok("C02-0 schema well-formed", f"{len(S.meta)} literals")

    R.rule("C02-D1 shape", 170, "schema graph equals the reference shape (codes, wrap depth, kinds, grouping, union order, tags)")
    ref = ctx.reference("schema_shape.json")
    cur = S.shape_graph()
    R.analysed["schema_nodes"] = len(cur["nodes"])
    edges = compare_shapes(ctx, "C02-D1 shape", ref, cur)
    R.analysed["shape_edges_walked"] = edges
    # the simplified envelope shares tag and key codes with the full one
    simp = repo.cls("suit_generator.suit.envelope", "SuitEnvelopeTaggedSimplified")
    scur = S.shape_graph(simp)
    rn, sn = cur["nodes"], scur["nodes"]
    R.rule("C02-D1b simplified envelope", 2, "simplified envelope model uses the same tag and member codes")
    st, ft = sn[scur["root"]], rn[cur["root"]]
    R.check("C02-D1b simplified envelope", (st["t"], st.get("tag")) == (ft["t"], ft.get("tag")), "tag", mod=simp.module,
            node=simp.node, function=simp.fq, expected=f"tag {ft.get('tag')}", found=f"{st.get('tag')}")
    sk = {c: v["name"] for c, v in sn[st["of"]]["keys"].items()}
    fk = {c: v["name"] for c, v in rn[ft["of"]]["keys"].items()}
    R.check("C02-D1b simplified envelope", sk == fk, "member codes", mod=simp.module, node=simp.node, function=simp.fq,
            expected=f"{fk}", found=f"{sk}")

    encode_path_rules(ctx)

    R.rule("C02-D3 code/name roles", 9, "encode looks names up and writes codes; decode the reverse")
    generic.lookup_attribute_facts(ctx, "C02-D3 code/name roles")
    flatten_rule(ctx)
    leaf_acceptance(ctx)
    constructors_store_unchanged(ctx)
    children_embedded_by_value(ctx)
    cbstr_rule(ctx)
    generic_encoder_rules(ctx)


# ---------------------------------------------------------------------------------------------
def leaf_acceptance(ctx):
    """C02-D1 pins, per leaf class, the *atoms* of what the description side requires of a value (type, length, range).  The same
    atoms can be combined wrongly - `if value and ...` instead of `if value is not None and ...` lets every falsy value ('' / 0 /
    b'' / [] / {} / False) through, `or` for `and` refuses legal ones - and a leaf that accepts more or less sends description values
    to another alternative of the enclosing choice, i.e. to another encoding.  Decided by evaluating the constructor's refusals
    (raise guards, base constructors followed) on sample values of every kind against the plain meaning of the atoms:
    accepted iff None, or of a listed type and within the listed length / range."""
    from sa.teval import teval, Unknown, Raised
    R = ctx.report
    S = ctx.schema
    repo = ctx.repo
    R.rule("C02-D1d leaf acceptance on sample values", 4, "per leaf class: the constructor refuses exactly the sample values its type / length / range atoms exclude")
    samples = [None, "", "a", "ab", 0, 1, -1, 255, True, False, b"", b"a", b"ab", [], [1], (), {}, {"a": 1}, 1.5]
    builtins_ = {"str": str, "int": int, "bytes": bytes, "dict": dict, "list": list, "tuple": tuple, "bool": bool, "float": float, "bytearray": bytearray}
    ev = Evaluator(repo, inline_depth=3)
    done = 0
    for ci in S.reachable():
        atoms = S.desc_predicates(ci, mnames=("__init__",))
        init = None
        for c in repo.mro(ci):
            if c.name == "SuitObject":
                break
            if "__init__" in c.methods:
                init = c.methods["__init__"]
                break
        if not atoms or init is None or any(a.startswith("chars:") for a in atoms):
            continue
        # atoms that come from from_obj overrides are not the constructor's: leave such classes to C02-D1
        if any("from_obj" in c.methods for c in repo.mro(ci) if c.name not in ("SuitObject",) and c.module is ci.module and c is not ci and False):
            continue
        params = [a.arg for a in init.node.args.args if a.arg != "self"]
        if len(params) != 1:
            continue
        types = tuple(builtins_[n] for a in atoms if a.startswith("type:") for n in a[5:].split("|") if n in builtins_)
        if not types or any(n not in builtins_ for a in atoms if a.startswith("type:") for n in a[5:].split("|")):
            continue

        def expected(v):
            if v is None:
                return True
            if not isinstance(v, types):
                return False
            for a in atoms:
                if a.startswith("lenNotEq") and hasattr(v, "__len__") and len(v) != int(a[8:]):
                    return False
                if a.startswith("rangeLt") and isinstance(v, (int, float)) and not isinstance(v, bool) and v < int(a[7:]):
                    return False
            return True
        if any(a.startswith(("len", "range")) and not a.startswith(("lenNotEq", "rangeLt")) for a in atoms):
            continue
        try:
            outs = ev.outcomes(init)
        except AnalysisError:
            continue
        raises = [o for o in outs if o.kind == "raise"]
        P_ = Sym("param:" + params[0])
        bad, unknown = None, False
        for v in samples:
            refused = False
            try:
                for o in raises:
                    if all(bool(teval(c_, {P_: v, "param:" + params[0]: v})) for c_ in o.conds):
                        refused = True
                        break
            except (Unknown, Raised):
                unknown = True
                break
            except Exception:
                # the guard itself fails on this value (len() of an int ...): the constructor raises - a refusal
                refused = True
            if refused == expected(v) and bad is None:
                bad = (v, refused)
        if unknown:
            continue
        done += 1
        R.check("C02-D1d leaf acceptance on sample values", bad is None, f"{ci.name}({', '.join(atoms)})", mod=init.module, node=init.node, function=ctx.fq(init),
                expected="accepted iff None, or of a listed type and within the listed length / range",
                found=f"{bad[0]!r} is {'refused' if bad[1] else 'accepted'}" if bad else "", key_extra=ci.name)
    if not done:
        raise AnalysisError("C02-D1d: no leaf constructor could be evaluated")


def encode_entries(ctx):
    repo = ctx.repo
    entries = []
    for m in repo.modules.values():
        if not m.name.startswith("suit_generator.suit"):
            continue
        for f in m.functions.values():
            if f.name in ("from_obj", "to_cbor", "serialize_cbor", "ensure_cbor", "return_processed_binary_data",
                          "update_digest", "update_severable_digests", "get_manifest_digest", "__init__"):
                entries.append(f)
    entries.append(repo.func("suit_generator.input_output", "InputOutputMixin.prepare_suit_data"))
    return entries


def encode_path_rules(ctx):
    """C02-D2: nothing on the encode path can sort, reverse, de-duplicate or change the CBOR container form."""
    R = ctx.report
    repo = ctx.repo
    cg = CallGraph(repo)
    entries = encode_entries(ctx)
    reach = cg.reachable(entries, stop=lambda f: not f.module.name.startswith("suit_generator"))
    R.analysed["encode_path_functions"] = len(reach)
    R.analysed.update({"callgraph_" + k: v for k, v in cg.stats().items()})
    R.rule("C02-D2 order preserving encode path", 40, "no sorted/sort/reversed/reverse/set on the encode path")
    R.rule("C02-D2b cbor2.dumps options", 1, "every cbor2.dumps on the encode path uses default (definite, non-canonical) options")
    dumps_sites = 0
    for fq, (f, pred) in sorted(reach.items()):
        if f.name in ("to_obj", "from_cbor", "pretty_format_obj"):
            continue
        bad = []
        par = parents_of(f.node)
        for n in walk_no_nested(f.node):
            if isinstance(n, ast.Call):
                fn = n.func
                name = fn.id if isinstance(fn, ast.Name) else (fn.attr if isinstance(fn, ast.Attribute) else "")
                if name in ("sorted", "reversed") and isinstance(fn, ast.Name):
                    bad.append((n, name))
                if name in ("set", "frozenset") and isinstance(fn, ast.Name):
                    why = order_observable(f.node, n, par)
                    if why:
                        bad.append((n, f"{name} ({why})"))
                if name in ("sort", "reverse") and isinstance(fn, ast.Attribute):
                    bad.append((n, "." + name))
                r = repo.resolve_expr(f.module, fn)
                if r and r[0] == "ext" and r[1] in ("cbor2.dumps", "cbor2.dump", "cbor2.encoder.dumps"):
                    dumps_sites += 1
                    kws = [k.arg for k in n.keywords]
                    R.check("C02-D2b cbor2.dumps options", not kws and len(n.args) == 1, f"{fq}: {ast.unparse(n)[:60]}",
                            mod=f.module, node=n, function=fq, expected="cbor2.dumps(obj) without options",
                            found=f"options {kws or 'extra positional arguments'}")
            if isinstance(n, (ast.Set, ast.SetComp)):
                why = order_observable(f.node, n, par)
                if why:
                    bad.append((n, f"set literal ({why})"))
        if bad:
            for n, what in bad:
                R.fail("C02-D2 order preserving encode path", f"{fq}: {what}", mod=f.module, node=n, function=fq,
                       expected="description order is kept: no sorting / reversing / set on the encode path",
                       found=f"{what} in {ast.unparse(n)[:80]}", witness=cg.path_to(reach, fq))
        else:
            R.ok("C02-D2 order preserving encode path", fq)
    if dumps_sites < 1:
        raise AnalysisError("no cbor2.dumps site found on the encode path (resolver lost them)")


def constructors_store_unchanged(ctx):
    """Every constructor of a schema / generic node class stores the value it was given: a conversion there (int(value), bytes(value),
    value.lower(), ...) changes what is encoded for some description values (int(True) == 1 turns the boolean form into an integer)."""
    R = ctx.report
    repo = ctx.repo
    R.rule("C02-D5b constructors store the value unchanged", 8, "super().__init__(value) / setattr(self, <name>, value) with the parameter itself")
    n = 0
    for m in repo.modules.values():
        if not m.name.startswith("suit_generator.suit"):
            continue
        for f in m.functions.values():
            if f.name != "__init__" or f.cls is None:
                continue
            params = [a.arg for a in f.node.args.args][1:]
            rebound = {x.id for x in ast.walk(f.node) if isinstance(x, ast.Name) and isinstance(x.ctx, ast.Store) and x.id in params}
            for c in walk_no_nested(f.node):
                if not isinstance(c, ast.Call):
                    continue
                is_super = isinstance(c.func, ast.Attribute) and c.func.attr == "__init__"
                is_setattr = isinstance(c.func, ast.Name) and c.func.id == "setattr" and len(c.args) == 3
                if not (is_super or is_setattr):
                    continue
                vals = [c.args[2]] if is_setattr else list(c.args) + [k.value for k in c.keywords]
                n += 1
                ok = all((isinstance(v, ast.Name) and v.id in params and v.id not in rebound)
                         or (isinstance(v, ast.Starred) and isinstance(v.value, ast.Name))
                         or (isinstance(v, ast.Name) and v.id in ("args", "kwargs")) for v in vals) and bool(vals)
                R.check("C02-D5b constructors store the value unchanged", ok, f"{ctx.fq(f)}: {ast.unparse(c)[:60]}", mod=m, node=c, function=ctx.fq(f),
                        expected="the constructor parameter itself is stored (checks may reject it, nothing converts it)",
                        found=f"stored expression {[ast.unparse(v)[:40] for v in vals]}" + (f"; parameter {sorted(rebound)} reassigned" if rebound else ""))
    if n < 8:
        raise AnalysisError(f"only {n} constructor stores found in the schema modules")


def children_embedded_by_value(ctx):
    """Generic containers embed each child as decode(child.to_cbor()): the child's own encoding decides every byte of its value (in
    particular the byte-string wrap of a cbstr child survives as a byte string).  Any other value put into the container under
    construction - a slice of the child's bytes, a re-typed value - changes the wire format for some children."""
    R = ctx.report
    repo = ctx.repo
    R.rule("C02-D5c children embedded by value", 7, "every value stored / appended by a generic to_cbor is deserialize_cbor(<child>.to_cbor()) (or its tuple form) or an entry code")
    ev = Evaluator(repo, inline_depth=0)
    dec_fi = repo.func(COMMON, "SuitObject.deserialize_cbor")

    def is_dec(t):
        return isinstance(t, App) and t.op == "call" and isinstance(t.args[0], Ref) and t.args[0].obj is dec_fi and isinstance(t.args[-1], App) \
            and t.args[-1].op == "meth:to_cbor"

    def ok_value(t):
        if is_dec(t) or (isinstance(t, App) and t.op == "tupleof" and is_dec(t.args[0])):
            return True
        if isinstance(t, App) and t.op == "attr:id":
            return True
        return False
    for q in ("SuitKeyValue.to_cbor", "SuitKeyValueUnnamed.to_cbor", "SuitKeyValueTuple.to_cbor", "SuitTupleNamed.to_cbor", "SuitList.to_cbor",
              "SuitTag.to_cbor", "SuitBitfield.to_cbor"):
        fi = repo.func(COMMON, q)
        vals = []
        for o in ev.outcomes(fi):
            if o.kind != "return":
                continue
            for kind_, k_, v_ in generic.container_puts(o):
                vals += [v_] if k_ is None else [k_, v_]
            for s_ in subterms(o.value):
                if isinstance(s_, App) and s_.op == "tag":
                    vals.append(s_.args[1])
                if isinstance(s_, App) and s_.op == "+" and q.startswith("SuitBitfield"):
                    vals.append(s_.args[1])
        if not vals:
            raise AnalysisError(f"{q}: no value put into the container recognised")
        bad = []
        for v in vals:
            for g_, t in cases(v):
                if not ok_value(t) and t not in bad:
                    bad.append(t)
        R.check("C02-D5c children embedded by value", not bad, q, mod=fi.module, node=fi.node, function=ctx.fq(fi),
                expected="self.deserialize_cbor(child.to_cbor()) for every child (entry codes as keys)", found=f"{[repr(b)[:120] for b in bad][:2]}", key_extra=q)


def flatten_rule(ctx):
    """Integrated payloads/dependencies are flattened into the envelope map exactly for the two pseudo keys."""
    R = ctx.report
    R.rule("C02-D3b integrated members flattened", 1, "data.update(...) exactly under the two pseudo keys")
    ev = Evaluator(ctx.repo, inline_depth=0)
    fi = ctx.repo.func(COMMON, "SuitKeyValue.to_cbor")
    outs = ev.outcomes(fi)
    found = None
    for o in outs:
        for e in all_effects_with_guards(o.effects):
            eff, guards = e
            if isinstance(eff, App) and eff.op == "eff:call" and isinstance(eff.args[0], App) \
                    and eff.args[0].op == "meth:update":
                # update(<decoded member>) flattens; update({k.id: item}) is an ordinary store.  One call whose argument is selected
                # by a condition counts under that condition
                from sa.terms import top_cases, dict_pairs as _dp
                for gv, alt in top_cases(eff.args[0].args[1]) if len(eff.args[0].args) > 1 else []:
                    if not (isinstance(alt, App) and _dp(alt) is not None):
                        found = tuple(guards) + tuple(gv.items())
    if found is None:
        raise AnalysisError("SuitKeyValue.to_cbor: flattening update(...) not recognised")
    # decision table: for a key that is each of the key classes named in the guards (or, when the guard asks the metadata, each of
    # the two pseudo keys), and for any other key, is update() reached?  A guard that reads `_metadata.embedded` is decided per class
    # from that class's own metadata.
    from sa.teval import teval as _teval, Unknown as _Unknown
    S = ctx.schema
    atoms = [s_ for g, _ in found for s_ in subterms(g) if isinstance(s_, App) and s_.op in ("is", "is not") and isinstance(s_.args[1], Ref)
             and s_.args[1].kind == "class"]
    emb_atoms = [s_ for g, _ in found for s_ in subterms(g) if isinstance(s_, App) and s_.op in ("in", "not in") and contains(
        s_.args[1], lambda u: isinstance(u, App) and u.op == "attr:embedded")]
    pseudo = ["suit_integrated_payloads", "suit_integrated_dependencies"]
    names = sorted({a_.args[1].obj.name for a_ in atoms} | (set(pseudo) if emb_atoms else set()))
    classes = []
    for fq_, mi in S.meta.items():
        mnames = {getattr(getattr(k, "cls", None), "name", None) for k, _ in (mi.map or [])}
        if set(pseudo) <= mnames:
            classes.append((mi.owner, [getattr(getattr(k, "cls", None), "name", None) for k in (mi.embedded or [])]))
    if not classes:
        raise AnalysisError("no schema class carries both integrated pseudo members")
    for owner, emb in classes:
        keys = set()
        try:
            for which in names + ["<any other key>"]:
                env = {a_: ((a_.args[1].obj.name == which) == (a_.op == "is")) for a_ in atoms}
                env.update({a_: ((which in emb) == (a_.op == "in")) for a_ in emb_atoms})
                if all(bool(_teval(g, env)) == pol for g, pol in found):
                    keys.add(which)
        except _Unknown as e_:
            raise AnalysisError(f"SuitKeyValue.to_cbor: guard of the flattening update(...) not evaluable ({e_})")
        R.check("C02-D3b integrated members flattened", keys == set(pseudo), f"SuitKeyValue.to_cbor for {owner.name}", mod=fi.module, node=fi.node,
                function=ctx.fq(fi), expected="flatten exactly suit_integrated_payloads and suit_integrated_dependencies",
                found=f"{owner.name}: flattened under {sorted(keys)}", key_extra=owner.name)


def all_effects_with_guards(effects, guards=()):
    for e in effects:
        if isinstance(e, App) and e.op == "eff:if":
            yield from all_effects_with_guards(e.args[1].args, guards + ((e.args[0], True),))
            yield from all_effects_with_guards(e.args[2].args, guards + ((e.args[0], False),))
        elif isinstance(e, App) and e.op == "eff:loop":
            yield from all_effects_with_guards(e.args[1].args, guards)
        elif isinstance(e, App) and e.op == "eff:partial":
            yield from all_effects_with_guards(e.args[0].args, guards)
        else:
            yield e, guards


def cbstr_rule(ctx):
    """cbstr(X) adds exactly one byte-string layer and changes nothing else."""
    R = ctx.report
    R.rule("C02-D4 cbstr one layer", 2, "Cbstr.to_cbor == cbor2.dumps(super().to_cbor()); no other method overridden")
    m = ctx.repo.mod(COMMON)
    ci = m.classes.get("cbstr.<locals>.Cbstr")
    if ci is None:
        nested = [c for k, c in m.classes.items() if k.startswith("cbstr.<locals>.")]
        if len(nested) != 1:
            raise AnalysisError("cbstr(): wrapper class not recognised")
        ci = nested[0]
    overridden = sorted(n for n in ci.methods if n != "__init__")
    R.check("C02-D4 cbstr one layer", overridden == ["to_cbor"], "methods overridden by the wrapper", mod=m, node=ci.node,
            function=ci.fq, expected="only to_cbor (and __init__)", found=f"{overridden}")
    ev = Evaluator(ctx.repo, inline_depth=0)
    fi = ci.methods.get("to_cbor")
    if fi is None:
        R.fail("C02-D4 cbstr one layer", "to_cbor missing", mod=m, node=ci.node, function=ci.fq,
               expected="to_cbor adding one layer", found="no to_cbor")
        return
    outs = [o for o in ev.outcomes(fi) if o.kind == "return"]
    ok = len(outs) == 1 and isinstance(outs[0].value, App) and outs[0].value.op == "cbor" \
        and isinstance(outs[0].value.args[0], App) and outs[0].value.args[0].op == "supercall:to_cbor" \
        and len([o for o in ev.outcomes(fi)]) == 1
    if not ok and len(outs) == 1 and len(ev.outcomes(fi)) == 1:
        # another way of producing the wrap (a hand-written byte-string head ...): decided by evaluating the result for encoded
        # contents at the boundaries of the CBOR length widths against the verifier's own encoder
        from sa import cbor_mini
        from sa.teval import teval as _teval, Unknown as _Unknown, Raised as _Raised
        inner = [s_ for s_ in subterms(outs[0].value) if isinstance(s_, App) and s_.op == "supercall:to_cbor"]
        if inner:
            bad_ = None
            try:
                for n_ in (0, 1, 23, 24, 255, 256, 65535, 65536, 70000):
                    payload = bytes([0xA5]) * n_
                    got = _teval(outs[0].value, {inner[0]: payload, **generic.loops_env(outs[0])})
                    if bytes(got) != cbor_mini.dumps(payload) and bad_ is None:
                        bad_ = f"content of {n_} bytes: head {bytes(got)[:9].hex()} instead of {cbor_mini.dumps(payload)[:9].hex()}"
                R.check("C02-D4 cbstr one layer", bad_ is None, "Cbstr.to_cbor on contents of 0 .. 70000 bytes", mod=m, node=fi.node, function=ctx.fq(fi),
                        expected="the shortest-form byte string holding super().to_cbor(), as cbor2.dumps gives it", found=bad_ or "")
                ok = None
                ctx.cbstr_by_grid = True  # the wrapper is decided here: the form rules for encoders (D5 / D6) do not apply to it
            except (_Unknown, _Raised, TypeError, ValueError):
                ok = False
    if ok is not None:
        R.check("C02-D4 cbstr one layer", ok, "Cbstr.to_cbor", mod=m, node=fi.node, function=ctx.fq(fi),
                expected="cbor2.dumps(super().to_cbor()) on every path",
                found=f"{[repr(o.value)[:120] for o in ev.outcomes(fi)]}")
    # the decorated class is the base of the wrapper
    bases = [ast.unparse(b) for b in ci.bases]
    outer = ci.outer
    params = outer.params() if outer else []
    R.check("C02-D4 cbstr one layer", bases == params[:1], "wrapper derives from the decorated class", mod=m, node=ci.node,
            function=ci.fq, expected=f"class Cbstr({params[:1]})", found=f"bases {bases}")


# guards allowed in encoders: type tests, identity/membership of metadata keys, configuration, None-ness
def _guard_value_dependent(g) -> bool:
    """True when a branch guard depends on the magnitude/length/content of the encoded value."""
    for s in subterms(g):
        if isinstance(s, App) and s.op in ("<", "<=", ">", ">="):
            return True
        if isinstance(s, App) and s.op in ("==", "!=") and any(isinstance(a, App) and a.op == "len" for a in s.args):
            return True
        if isinstance(s, App) and s.op in ("%", "&", ">>", "<<", "//") and not all(isinstance(a, Const) for a in s.args):
            return True
    return False


def generic_encoder_rules(ctx):
    R = ctx.report
    repo = ctx.repo
    S = ctx.schema
    ev = Evaluator(repo, inline_depth=0)
    R.rule("C02-D5 encoder results", 12, "every to_cbor returns serialize_cbor(<built container>) / a child's to_cbor / cbor2.dumps")
    R.rule("C02-D6 value-independent structure", 12,
           "no branch of an encoder depends on the size or magnitude of the encoded value (only raising branches may)")
    encoders = []
    for m in repo.modules.values():
        if not m.name.startswith("suit_generator.suit"):
            continue
        for f in m.functions.values():
            if f.name == "to_cbor" and f.cls is not None:
                encoders.append(f)
    for f in sorted(encoders, key=lambda f: f.fq):
        if getattr(ctx, "cbstr_by_grid", False) and "cbstr.<locals>." in f.qualname:
            continue
        outs = ev.outcomes(f)
        rets = [o for o in outs if o.kind == "return"]
        fq = ctx.fq(f)
        # D5: result forms
        bad = []
        for o in rets:
            v = o.value
            if not _result_ok(v):
                bad.append(repr(v)[:120])
        R.check("C02-D5 encoder results", not bad and bool(rets), fq, mod=f.module, node=f.node, function=fq,
                expected="serialize_cbor(...) | cbor2.dumps(...) | <child>.to_cbor() | b''",
                found=f"{bad or 'no returning path'}")
        # D6: guards
        vd = []
        # guards on raising paths are validation, allowed - and so is the complement of such a guard on the path that goes on
        # (`if found: return encode(...) else: raise` is the same validation as `if not found: raise`)
        from sa.teval import negate_cmp as _neg
        raising = set()
        for o in outs:
            if o.kind == "raise" and o.conds:
                raising.add(o.conds[-1])

        def _complement_of_validation(c):
            if App("not", (c,)) in raising or (isinstance(c, App) and c.op == "not" and c.args[0] in raising):
                return True
            try:
                return isinstance(c, App) and len(c.args) == 2 and _neg(c) in raising
            except Exception:
                return False
        for o in outs:
            if o.kind == "raise":
                continue
            for c in o.conds:
                if _guard_value_dependent(c) and not _complement_of_validation(c):
                    vd.append(repr(c)[:120])
            for eff, guards in all_effects_with_guards(o.effects):
                for g, _ in guards:
                    if _guard_value_dependent(g):
                        vd.append(repr(g)[:120])
            if o.value is not None:
                for s in subterms(o.value):
                    if isinstance(s, App) and s.op == "phi" and _guard_value_dependent(s.args[0]):
                        vd.append(repr(s.args[0])[:120])
        vd = sorted(set(vd))
        R.check("C02-D6 value-independent structure", not vd, fq, mod=f.module, node=f.node, function=fq,
                expected="guards are type tests, key identity tests, configuration or None tests",
                found=f"value-dependent guard(s): {vd}")

    # from_obj of the generic containers: the loop iterates the description / metadata map unfiltered
    R.rule("C02-D7 containers iterate input in order", 8, "loops of generic from_obj/to_cbor iterate the input or instance value unfiltered")
    ev7 = Evaluator(repo, inline_depth=0)
    for qual in ("SuitKeyValue.from_obj", "SuitKeyValue.to_cbor", "SuitKeyValueTuple.to_cbor", "SuitList.from_obj",
                 "SuitList.to_cbor", "SuitTupleNamed.to_cbor", "SuitKeyValueUnnamed.from_obj",
                 "SuitKeyValueUnnamed.to_cbor", "SuitBitfield.from_obj", "SuitBitfield.to_cbor"):
        fi = repo.func(COMMON, qual)
        sources = _iteration_sources(ev7, fi)
        if not sources:
            raise AnalysisError(f"{qual}: no loop found")
        selfv = App("attr:value", (Sym("param:self"),))
        allowed = (Sym("param:obj"), App("meth:items", (Sym("param:obj"),)), selfv, App("meth:items", (selfv,)))
        for it, filt, node in sources:
            R.check("C02-D7 containers iterate input in order", it in allowed and not filt, f"{qual}: for … in {_show_iter(it)}", mod=fi.module, node=node or fi.node,
                    function=ctx.fq(fi), expected="iterate obj / obj.items() / self.value / self.value.items() directly, unfiltered",
                    found=_show_iter(it) + (" (filtered)" if filt else ""))
    # SuitTupleNamed.from_obj iterates the metadata map (positions are defined by the schema, not the input)
    fi = repo.func(COMMON, "SuitTupleNamed.from_obj")
    sources = _iteration_sources(ev7, fi)
    want = App("meth:items", (App("attr:map", (App("attr:_metadata", (Sym("param:cls"),)),)),))
    it = sources[0][0] if sources else None
    R.check("C02-D7 containers iterate input in order", it == want and not sources[0][1], f"SuitTupleNamed.from_obj: for … in {_show_iter(it)}",
            mod=fi.module, node=fi.node, function=ctx.fq(fi), expected="positions follow cls._metadata.map.items()", found=_show_iter(it))


def _show_iter(it):
    return repr(it)[:100].replace("$param:", "")


def _iteration_sources(ev, fi):
    """[(iterated term, filtered?, node)] of the outermost iterations of a function - `for` statements and comprehensions alike."""
    found = []

    def add(it, filt, node):
        if not any(it == x[0] and filt == x[1] for x in found):
            found.append((it, filt, node))

    def top(effs):
        for e in effs:
            if not isinstance(e, App):
                continue
            if e.op == "eff:if":
                top(e.args[1].args)
                top(e.args[2].args)
            elif e.op in ("eff:partial",):
                top(e.args[0].args)
            elif e.op == "eff:alts":
                for alt in e.args:
                    top(alt.args)
            elif e.op == "eff:loop":
                filt = any(isinstance(x, App) and x.op == "eff:assume" for x in e.args[1].args) and isinstance(e.node, (ast.ListComp, ast.GeneratorExp, ast.SetComp, ast.DictComp))
                add(e.args[0], filt, e.node)
            else:
                comps(e)

    def comps(t):
        for s_ in subterms(t):
            if isinstance(s_, App) and s_.op.startswith("comp:") and len(s_.args) == 3:
                add(s_.args[1], bool(s_.args[2].args), s_.node)
    for o in ev.outcomes(fi):
        if o.kind != "return":
            continue
        top(o.effects)
        if o.value is not None:
            comps(o.value)
    # a comprehension nested in the body of another iteration is not an outermost one
    inner = set()
    for it, filt, node in found:
        if node is not None:
            for n in ast.walk(node):
                if n is not node and isinstance(n, (ast.For, ast.ListComp, ast.GeneratorExp, ast.SetComp, ast.DictComp)):
                    inner.add(id(n))
    return [f for f in found if f[2] is None or id(f[2]) not in inner]


def _inside(inner, outer):
    return any(n is inner for n in ast.walk(outer)) and inner is not outer


def _result_ok(v) -> bool:
    if isinstance(v, Const):
        return v.v == b""
    if isinstance(v, App):
        if v.op == "cbor":
            return True
        if v.op == "call" and isinstance(v.args[0], Ref) and v.args[0].kind == "func" \
                and v.args[0].obj.name in ("serialize_cbor", "to_cbor"):
            return True
        if v.op == "meth:to_cbor":
            return True
        if v.op == "phi":
            return _result_ok(v.args[1]) and _result_ok(v.args[2])
    return False
