"""C04 — signing attaches a verifiable COSE_Sign1 and changes nothing else (structure)."""
from __future__ import annotations

import ast

from sa.absint import Evaluator, all_effects
from sa.index import AnalysisError, walk_no_nested
from sa.teval import Unknown, teval
from sa.terms import App, Const, Ref, Sym, cases, cat_parts, dict_pairs, list_items, subterms, substitute
from . import frozen, generic

EXPLANATION = ("abstract evaluation of Signer.sign_envelope (helpers inlined) to the Sig_structure handed to the KMS and the "
               "authentication block appended; protected-header table checked for every algorithm member against the "
               "registry; fixed-width r||s by data-independence of the width; write set of the signer on the envelope; "
               "library-fact rule for in-place mutation of decoded tag content; no repository code executed")

SIGN = "ncs.sign_script"
KMS = "ncs.basic_kms"
P = lambda n: Sym("param:" + n)
ALG_CODES = {"es-256": -7, "es-384": -35, "es-521": -36, "eddsa": -8, "hash-eddsa": -65537}
WIDTHS = {256: 32, 384: 48, 521: 66}
HASHES = {256: "SHA256", 384: "SHA384", 521: "SHA512"}


def strip_sites(t):
    """Drop allocation-site ids so that two decodes of the same bytes compare equal."""
    if isinstance(t, App):
        args = [strip_sites(a) for a in t.args if not (isinstance(a, Const) and isinstance(a.v, tuple) and a.v[:1] == ("site",))]
        return App(t.op, args, t.node)
    return t


def signer_outcomes(ctx):
    fi = ctx.repo.func(SIGN, "Signer.sign_envelope")
    ev = Evaluator(ctx.repo, inline_depth=3)
    outs = ev.outcomes(fi)
    return fi, outs


def sign_call_of(o):
    calls = []
    for e in all_effects(o.effects):
        if isinstance(e, App) and e.op == "eff:call" and isinstance(e.args[0], App) and e.args[0].op == "meth:sign":
            calls.append(e.args[0])
    return calls


def run(ctx):
    R = ctx.report
    repo = ctx.repo
    ctx.use_files("ncs/sign_script.py", "ncs/basic_kms.py", "suit_generator/cmd_sign.py",
                  "suit_generator/suit_sign_script_base.py")
    fi, outs = signer_outcomes(ctx)
    fq = ctx.fq(fi)
    rets = [o for o in outs if o.kind == "return"]
    signing = [o for o in rets if sign_call_of(o)]
    if len(signing) != 1:
        raise AnalysisError(f"{fq}: expected exactly one signing outcome, found {len(signing)}")
    o = signing[0]
    sc = sign_call_of(o)
    if len(sc) != 1:
        raise AnalysisError(f"{fq}: {len(sc)} KMS sign calls on the signing path")
    sc = sc[0]
    env = P("input_envelope")
    envval = App("attr:value", (env,))
    # the signer may work on the decoded map itself or on a dict copy of it (content-preserving)
    copy = App("call:dict", (envval,))
    used = {s for e in all_effects(o.effects) for s in subterms(e) if s in (envval, copy)
            and isinstance(e, App) and e.op in ("eff:store",)} or {envval}
    if copy in used or any(s == copy for s in subterms(sc)):
        envval = copy
    wrapper = strip_sites(App("cborload", (App("idx", (envval, Const(2))),)))
    digest = strip_sites(App("cborload", (App("idx", (wrapper, Const(0))),)))

    # ---- D1a Sig_structure
    R.rule("C04-D1a Sig_structure", 4, "KMS input = cbor(['Signature1', bstr(protected), h'', bstr(digest of this envelope)])")
    data = strip_sites(sc.args[1]) if len(sc.args) > 1 else None
    inner = data.args[0] if isinstance(data, App) and data.op == "cbor" else None
    items = list_items(inner) if inner is not None else None
    if items is None:
        R.fail("C04-D1a Sig_structure", "Sig_structure is a CBOR-encoded array", mod=fi.module, node=sc.node, function=fq,
               expected="cbor2.dumps([...])", found=repr(data)[:200])
        return
    R.check("C04-D1a Sig_structure", len(items) == 4 and items[0] == Const("Signature1"), "context string", mod=fi.module,
            node=sc.node, function=fq, expected="'Signature1' first of four elements", found=f"{items[:1]!r}, {len(items)} elements")
    prot_in_sig = items[1] if len(items) > 1 else None
    R.check("C04-D1a Sig_structure", isinstance(prot_in_sig, App) and prot_in_sig.op == "cbor", "body_protected is the serialized header",
            mod=fi.module, node=sc.node, function=fq, expected="cbor2.dumps(protected)", found=repr(prot_in_sig)[:160])
    R.check("C04-D1a Sig_structure", len(items) > 2 and items[2] == Const(b""), "external_aad = h''", mod=fi.module, node=sc.node,
            function=fq, expected="b''", found=repr(items[2]) if len(items) > 2 else "missing")
    R.check("C04-D1a Sig_structure", len(items) > 3 and items[3] == App("cbor", (digest,)),
            "payload = bstr(cbor(digest)) of the envelope being signed", mod=fi.module, node=sc.node, function=fq,
            expected="cbor2.dumps(cbor2.loads(cbor2.loads(envelope.value[2])[0]))", found=repr(items[3])[:240] if len(items) > 3 else "missing")
    P_hdr = prot_in_sig.args[0] if isinstance(prot_in_sig, App) and prot_in_sig.op == "cbor" else None

    # ---- D1b authentication block
    R.rule("C04-D1b authentication block", 5, "tag 18 [bstr(protected), {}, nil, signature] appended to the wrapper list and stored back under key 2")
    appends = [e.args[0] for e in all_effects(o.effects) if isinstance(e, App) and e.op == "eff:call"
               and isinstance(e.args[0], App) and e.args[0].op == "meth:append"
               and strip_sites(e.args[0].args[0]) == wrapper]
    if len(appends) == 0:
        generic.absent(ctx, "authentication block appended", fi, "wrapper.append(<COSE_Sign1 block>)", "the signature never reaches the envelope")
    if len(appends) != 1:
        raise AnalysisError(f"{fq}: append to the authentication wrapper not recognised ({len(appends)})")
    blk = strip_sites(appends[0].args[1])
    tagged = blk.args[0] if isinstance(blk, App) and blk.op == "cbor" else None
    R.check("C04-D1b authentication block", isinstance(tagged, App) and tagged.op == "tag" and tagged.args[0] == Const(18),
            "block = bstr(cbor(CBORTag(18, …)))", mod=fi.module, node=appends[0].node, function=fq, expected="cbor2.dumps(CBORTag(18, [...]))",
            found=repr(blk)[:160])
    body = list_items(tagged.args[1]) if isinstance(tagged, App) and tagged.op == "tag" else None
    if body is None or len(body) != 4:
        R.fail("C04-D1b authentication block", "COSE_Sign1 has four elements", mod=fi.module, node=appends[0].node, function=fq,
               expected="[protected, unprotected, payload, signature]", found=repr(tagged)[:200])
    else:
        R.check("C04-D1b authentication block", body[0] == prot_in_sig and P_hdr is not None,
                "the protected header attached is the one that was signed", mod=fi.module, node=appends[0].node, function=fq,
                expected=repr(prot_in_sig)[:160], found=repr(body[0])[:160])
        R.check("C04-D1b authentication block", body[1] == Const({}) and body[2] == Const(None), "unprotected {} and nil payload",
                mod=fi.module, node=appends[0].node, function=fq, expected="{}, None", found=f"{body[1]!r}, {body[2]!r}")
        R.check("C04-D1b authentication block", body[3] == strip_sites(sc), "signature = the KMS result, unmodified", mod=fi.module,
                node=appends[0].node, function=fq, expected="kms.sign(...)", found=repr(body[3])[:200])
    stores = [e for e in all_effects(o.effects) if isinstance(e, App) and e.op == "eff:store" and e.args[0] == envval]
    back = [e for e in stores if e.args[1] == Const(2)]
    ok = bool(back) and any(isinstance(strip_sites(e.args[2]), App) and strip_sites(e.args[2]).op == "cbor"
                            and strip_sites(e.args[2]).args[0] == App("mutated", (wrapper, Const("append"), blk)) for e in back)
    R.check("C04-D1b authentication block", ok, "wrapper list with the new block re-encoded under key 2", mod=fi.module,
            node=back[-1].node if back else fi.node, function=fq, expected="envelope.value[2] = cbor2.dumps(auth_block + [new block])",
            found=repr(back[-1].args[2])[:200] if back else "no store under key 2")

    # ---- D2 protected header
    R.rule("C04-D2 protected header", 7, "{1: COSE algorithm, 4: bstr(cbor(key id))} and the algorithm table is total and correct")
    hp = dict_pairs(P_hdr) if P_hdr is not None else None
    hd = {k.v: v for k, v in hp} if hp and all(isinstance(k, Const) for k, _ in hp) else {}
    R.check("C04-D2 protected header", set(hd) == {1, 4}, "header keys", mod=fi.module, node=sc.node, function=fq, expected="{1, 4}",
            found=f"{sorted(hd)}" if hd else repr(P_hdr)[:120])
    R.check("C04-D2 protected header", hd.get(4) == App("cbor", (P("key_id"),)), "key id as byte-string-wrapped integer", mod=fi.module,
            node=sc.node, function=fq, expected="cbor2.dumps(key_id)", found=repr(hd.get(4))[:120])
    algs = repo.cls("suit_generator.suit_sign_script_base", "SuitSignAlgorithms")
    ev = ctx.ev
    alg_term = hd.get(1)
    alg_param = P("algorithm")
    for name, val in ev.enum_members(algs):
        member = ev.enum_member(algs, name)
        inst = f"{name} ({val!r})"
        if alg_term is None:
            break
        t = substitute(alg_term, {alg_param: member})
        got = _fold_enum(ctx, t)
        want = ALG_CODES.get(val.v if isinstance(val, Const) else None)
        R.check("C04-D2 protected header", want is not None and got == want, inst, mod=fi.module, node=sc.node, function=fq,
                expected=f"COSE algorithm {want}", found=f"{got!r}", key_extra=name)
    # what the KMS is told
    R.rule("C04-D2b KMS request", 1, "key name, algorithm value and context are passed through")
    R.check("C04-D2b KMS request", tuple(sc.args[2:5]) == (P("key_name"), App("attr:value", (P("algorithm"),)), P("context")),
            "kms.sign(data, key_name, algorithm.value, context)", mod=fi.module, node=sc.node, function=fq,
            expected="(key_name, algorithm.value, context)", found=repr(sc.args[2:5])[:200])

    # ---- D4 write set
    R.rule("C04-D4 nothing else written", 2, "the signer writes only key 2 of the envelope map")
    other = [e for e in all_effects(o.effects) if isinstance(e, App) and (
        (e.op in ("eff:store", "eff:delitem") and e.args[0] == envval and e.args[1] != Const(2)) or
        (e.op == "eff:call" and isinstance(e.args[0], App) and e.args[0].op in frozen.MUTATORS and e.args[0].args[0] == envval) or
        (e.op == "eff:setattr" and e.args[0] == env))]
    R.check("C04-D4 nothing else written", not other, "stores into the envelope map on the signing path", mod=fi.module,
            node=other[0].node if other else fi.node, function=fq, expected="only envelope.value[2]", found=f"{other}"[:300])
    same = [env, App("tag", (App("attr:tag", (env,)), envval))]
    R.check("C04-D4 nothing else written", all(x.value in same for x in rets),
            "the envelope returned is the one handed in (same tag, same map or its dict copy)",
            mod=fi.module, node=fi.node, function=fq, expected="return the input envelope / CBORTag(input.tag, dict(input.value))",
            found=f"{[repr(x.value)[:80] for x in rets]}")
    cmd_rules(ctx)
    dump_options(ctx)
    generic.sibling_hash_tables(ctx, "C04-D6 digest tables agree with the creator")
    ecdsa_rules(ctx)
    R.rule("C04-D5 sign path executable with installed cbor2", 1, "no in-place mutation of decoded tag content on the sign path")
    frozen.check(ctx, "C04-D5 sign path executable with installed cbor2", ["suit_generator.cmd_sign", SIGN],
                 frozen.sign_plugins(repo))


def _fold_enum(ctx, t):
    """Fold attr:value(enum_by_name(E, cat('COSE_ALG_', attr:name(enum member)))) to a constant."""
    ev = ctx.ev

    def go(x):
        if isinstance(x, App):
            args = [go(a) for a in x.args]
            if x.op == "attr:name" and isinstance(args[0], App) and args[0].op == "enum":
                return args[0].args[1]
            if x.op == "attr:value" and isinstance(args[0], App) and args[0].op == "enum":
                return ev.enum_value(args[0])
            if x.op == "cat" and all(isinstance(a, Const) for a in args):
                return Const("".join(a.v for a in args))
            if x.op == "str" and isinstance(args[0], Const):
                return Const(str(args[0].v))
            if x.op == "enum_by_name" and isinstance(args[1], Const):
                ci = args[0].obj
                if ctx.repo.class_attr(ci, args[1].v) is not None:
                    return ev.enum_member(ci, args[1].v)
                return App("enum_missing", args)
            return App(x.op, args, x.node)
        return x

    r = go(t)
    return r.v if isinstance(r, Const) else repr(r)[:80]


def cmd_rules(ctx):
    """cmd_sign.single_level_sign / main do not touch the envelope between load and save."""
    R = ctx.report
    repo = ctx.repo
    R.rule("C04-D4b CLI load/sign/save", 3, "load with cbor2.load, sign, save the returned envelope with cbor2.dump; nothing in between")
    ev = Evaluator(repo, inline_depth=2)
    main = repo.func("suit_generator.cmd_sign", "main")
    outs = [o for o in ev.outcomes(main) if o.kind == "return"]
    outs = generic.sole_outcome(ctx, outs, "cmd_sign.main: expected one normal outcome")
    o = outs[0]
    dumps = [e.args[0] for e in all_effects(o.effects) if isinstance(e, App) and e.op == "eff:call" and isinstance(e.args[0], App)
             and e.args[0].op == "call:cbor2.dump"]
    if len(dumps) == 0:
        generic.absent(ctx, "signed envelope saved", main, "cbor2.dump(<signed envelope>, <output file>)", "the signed envelope is not written")
    if len(dumps) != 1:
        raise AnalysisError(f"cmd_sign.main: cbor2.dump not recognised ({len(dumps)})")
    d = dumps[0]
    kw = P("kwargs")
    loaded = App("cborload", (App("open", (App("idx", (kw, Const("input_envelope"))), Const("rb"))),))
    dumped = strip_sites(d.args[0])
    alts = [t for g, t in cases(dumped)]
    sl = [t for t in alts if isinstance(t, App) and t.op == "meth:sign_envelope"]
    thawed = App("tag", (App("attr:tag", (loaded,)), App("call:dict", (App("attr:value", (loaded,)),))))
    def one_copy(t):
        # a copy of a copy of the decoded map is still a copy of it
        if isinstance(t, App):
            t = App(t.op, [one_copy(a) for a in t.args], t.node)
            if t.op == "call:dict" and len(t.args) == 1 and isinstance(t.args[0], App) and t.args[0].op == "call:dict" and len(t.args[0].args) == 1:
                return t.args[0]
        return t
    ok = bool(sl) and all(one_copy(strip_sites(t.args[1])) in (loaded, thawed) for t in sl)
    R.check("C04-D4b CLI load/sign/save", ok, "the envelope saved is the signer's result for the envelope loaded", mod=main.module,
            node=d.node, function=ctx.fq(main), expected="cbor2.dump(signer.sign_envelope(cbor2.load(input), …), output)",
            found=repr(dumped)[:300])
    R.check("C04-D4b CLI load/sign/save", d.args[1] == App("open", (App("idx", (kw, Const("output_envelope"))), Const("wb"))),
            "written to --output-envelope in binary mode", mod=main.module, node=d.node, function=ctx.fq(main),
            expected="open(kwargs['output_envelope'], 'wb')", found=repr(d.args[1])[:120])
    if sl:
        want = [App("idx", (kw, Const(k))) for k in ("key_name", "key_id", "alg", "context", "kms_script", "already_signed_action")]
        R.check("C04-D4b CLI load/sign/save", list(sl[0].args[2:8]) == want, "CLI options reach the signer parameters in order",
                mod=main.module, node=d.node, function=ctx.fq(main), expected="key_name, key_id, alg, context, kms_script, already_signed_action",
                found=repr(sl[0].args[2:8])[:300])


def dump_options(ctx):
    generic.serializer_options(ctx, "C04-D4c serializer options", ("suit_generator.cmd_sign", "ncs.sign_script"), 4,
                               "the signed output is the input plus one block, byte for byte")
    generic.cli_converters(ctx, "C04-D4d CLI converters", "suit_generator.cmd_sign", 6)
    generic.subcommand_dispatch(ctx, "C04-D4e sub-command dispatch", "suit_generator.cmd_sign", 2)



def _dispatch_helper_rules(ctx, ev, impl, routines_):
    """Proof form of the dispatch part of C04-D3b over a dedicated selector method (_get_sign_method)."""
    R = ctx.report
    names_ = {r: f.name for r, f in routines_.items()}
    gm = impl.methods.get("_get_sign_method")
    go = ev.outcomes(gm)
    table = {}
    for x in go:
        if x.kind == "return" and isinstance(x.value, App) and x.value.op == "bound":
            table[x.value.args[0].obj.name] = [repr(c) for c in x.conds]
    want = set(names_.values())
    # complete decision table: the guards touch the key only through isinstance tests and the algorithm only through comparisons
    isi = {s_ for x in go for c in x.conds for s_ in subterms(c) if isinstance(s_, App) and s_.op == "isinstance"}

    def chosen(kind, alg):
        env = {P("algorithm"): alg}
        for s_ in isi:
            env[s_] = kind in repr(s_.args[1])
        for x in go:
            try:
                if all(bool(teval(c, env)) for c in x.conds):
                    if x.kind == "return" and isinstance(x.value, App) and x.value.op == "bound":
                        return x.value.args[0].obj.name
                    return x.kind
            except Unknown:
                return "unknown"
        return "none"
    got_t = {(k, a): chosen(k, a) for k in ("EllipticCurvePrivateKey", "Ed25519PrivateKey", "Ed448PrivateKey") for a in ("es-256", "eddsa", "hash-eddsa")}
    want_t = {}
    for a in ("es-256", "eddsa", "hash-eddsa"):
        want_t[("EllipticCurvePrivateKey", a)] = names_.get("es")
        for k in ("Ed25519PrivateKey", "Ed448PrivateKey"):
            want_t[(k, a)] = names_.get("prehashed") if a == "hash-eddsa" else names_.get("ed")
    if "unknown" in got_t.values():
        raise AnalysisError(f"{ctx.fq(gm)}: dispatch guards not evaluable")
    diff = {k: (got_t[k], want_t[k]) for k in want_t if got_t[k] != want_t[k]}
    R.check("C04-D3b EdDSA and dispatch", set(table) == want and not diff,
            "dispatch: EC key -> ECDSA; Ed key + hash-eddsa -> prehashed; Ed key otherwise -> pure", mod=gm.module, node=gm.node,
            function=ctx.fq(gm), expected="three-way dispatch on key type and algorithm", found=f"{diff or table}"[:300])

def ecdsa_rules(ctx):
    R = ctx.report
    repo = ctx.repo
    R.rule("C04-D3 fixed-width r||s", 6, "both widths equal, depend only on the key size, big endian, r then s; curve->hash table")
    ev = Evaluator(repo, inline_depth=0)
    for impl in repo.subclasses(repo.cls("suit_generator.suit_kms_base", "SuitKMSBase")):
        routines_ = generic.kms_routines(impl)
        fi = routines_.get("es")
        if fi is None:
            raise AnalysisError(f"{impl.fq}: ECDSA signature encoder not found")
        fq = ctx.fq(fi)
        outs = [o for o in ev.outcomes(fi) if o.kind == "return"]
        outs = generic.sole_outcome(ctx, outs, f"{fq}: expected one outcome")
        v = outs[0].value
        parts = cat_parts(v)
        if len(fi.params()) < 3:
            raise AnalysisError(f"{fq}: signing routine does not take (data, key)")
        inp, pk = P(fi.params()[1]), P(fi.params()[2])  # the routine's data and key parameters, by position
        signcalls = [s for s in subterms(v) if isinstance(s, App) and s.op == "meth:sign" and s.args[0] == pk]
        tb = [p for p in parts if isinstance(p, App) and p.op == "meth:to_bytes"]
        if len(parts) != 2 or len(tb) != 2 or not signcalls:
            R.fail("C04-D3 fixed-width r||s", "signature = r.to_bytes(W) + s.to_bytes(W)", mod=fi.module, node=fi.node, function=fq,
                   expected="two fixed-width big-endian integers", found=repr(v)[:240])
            continue
        sig = signcalls[0]
        dec = App("call:cryptography.hazmat.primitives.asymmetric.utils.decode_dss_signature", (sig,))
        r_, s_ = App("unpack", (dec, Const(0), Const(2))), App("unpack", (dec, Const(1), Const(2)))
        R.check("C04-D3 fixed-width r||s", tb[0].args[0] == r_ and tb[1].args[0] == s_, "r first, then s, of the decoded DSS signature",
                mod=fi.module, node=fi.node, function=fq, expected="r || s", found=f"{tb[0].args[0]!r} || {tb[1].args[0]!r}"[:240])
        w0, w1 = tb[0].args[1], tb[1].args[1]
        R.check("C04-D3 fixed-width r||s", w0 == w1, "both halves use the same width expression", mod=fi.module, node=fi.node,
                function=fq, expected="one width", found=f"{w0!r} vs {w1!r}"[:240])
        dep = [s for s in subterms(w0) if s in (r_, s_, sig, dec, inp) or (isinstance(s, App) and s.op in (
            "meth:bit_length", "len"))]
        R.check("C04-D3 fixed-width r||s", not dep, "width is independent of the signature value", mod=fi.module, node=fi.node,
                function=fq, expected="width depends only on private_key.key_size", found=f"depends on {dep[:2]!r}"[:200])
        ks = App("attr:key_size", (pk,))
        wok = True
        got = {}
        for size, want in WIDTHS.items():
            try:
                got[size] = teval(w0, {ks: size})
            except Unknown as e:
                got[size] = f"? ({e})"
            wok = wok and got[size] == want
        R.check("C04-D3 fixed-width r||s", wok, "width = ceil(key_size / 8): 32 / 48 / 66", mod=fi.module, node=fi.node, function=fq,
                expected=f"{WIDTHS}", found=f"{got}")
        R.check("C04-D3 fixed-width r||s", all(len(t.args) > 2 and t.args[2] == Const("big") for t in tb), "big endian", mod=fi.module,
                node=fi.node, function=fq, expected="byteorder='big'", found=f"{[t.args[2:] for t in tb]}")
        # curve -> hash
        alg = sig.args[2] if len(sig.args) > 2 else None
        hok, hgot = True, {}
        for size, want in HASHES.items():
            try:
                inner = alg.args[-1] if isinstance(alg, App) and alg.op.endswith("ECDSA") else None
                cs = [t for g, t in cases(inner)] if inner is not None else []
                val = None
                if isinstance(inner, App) and inner.op == "idx":
                    dp = dict_pairs(inner.args[0])
                    for k, vv in dp or []:
                        if k == Const(size) and inner.args[1] == ks:
                            val = vv
                hgot[size] = val.op.split(".")[-1] if isinstance(val, App) else repr(val)
            except Exception as e:  # pragma: no cover
                hgot[size] = f"? {e}"
            hok = hok and hgot[size] == want
        R.check("C04-D3 fixed-width r||s", hok and sig.args[1] == inp, "ECDSA over the unmodified input with SHA-256/384/512 by curve size",
                mod=fi.module, node=fi.node, function=fq, expected=f"{HASHES}", found=f"{hgot}; data {sig.args[1]!r}")

        # EdDSA paths and dispatch
        R.rule("C04-D3b EdDSA and dispatch", 4, "Ed25519/Ed448 sign the unmodified input; prehash = SHA-512; result returned unmodified")
        ed = routines_.get("ed")
        eo = [o for o in ev.outcomes(ed) if o.kind == "return"] if ed else []
        ed_in, ed_pk = (P(ed.params()[1]), P(ed.params()[2])) if ed and len(ed.params()) >= 3 else (P("input_data"), P("private_key"))
        R.check("C04-D3b EdDSA and dispatch", len(eo) == 1 and eo[0].value == App("meth:sign", (ed_pk, ed_in)),
                "pure EdDSA", mod=ed.module if ed else fi.module, node=ed.node if ed else fi.node, function=ctx.fq(ed) if ed else fq,
                expected="private_key.sign(input_data)", found=repr(eo[0].value)[:160] if eo else "missing")
        ph = routines_.get("prehashed")
        po = [o for o in ev.outcomes(ph) if o.kind == "return"] if ph else []
        okp = False
        if po:
            v = po[0].value
            pre = [s for s in subterms(v) if isinstance(s, App) and s.op.endswith("SHA512.new")]
            mode = [s for s in subterms(v) if isinstance(s, App) and s.op.endswith("eddsa.new")]
            ph_in = P(ph.params()[1]) if len(ph.params()) >= 2 else P("input_data")
            okp = bool(pre) and pre[0].args[-1] == ph_in and bool(mode) and Const("rfc8032") in mode[0].args \
                and isinstance(v, App) and v.op == "meth:sign" and v.args[1] == pre[0]
        R.check("C04-D3b EdDSA and dispatch", okp, "HashEdDSA: rfc8032 signature over SHA-512(input)", mod=ph.module if ph else fi.module,
                node=ph.node if ph else fi.node, function=ctx.fq(ph) if ph else fq,
                expected="eddsa.new(key, 'rfc8032').sign(SHA512.new(input_data))", found=repr(po[0].value)[:200] if po else "missing")
        sg = impl.methods.get("sign")
        tbl = generic.kms_sign_table(ctx, impl)
        import contextlib
        with (R.lenient("decided on the decision table of sign(): the value returned is the routine's result for the unmodified data (C04-D3b)")
              if tbl is not None else contextlib.nullcontext()):
            so = [o for o in ev.outcomes(sg) if o.kind == "return"]
            ok = bool(so) and all(isinstance(o.value, App) and o.value.op == "call" and len(o.value.args) >= 2
                                  and o.value.args[1] == P("data") for o in so)
            R.check("C04-D3b EdDSA and dispatch", ok, "sign() returns sign_method(data, key) unmodified", mod=sg.module, node=sg.node,
                    function=ctx.fq(sg), expected="signature = sign_method(data, private_key); return signature",
                    found=f"{[repr(o.value)[:120] for o in so]}")
        # dispatch, decided on the decision table of sign() itself (private helpers followed): which routine signs what for every
        # kind of key and every algorithm it is compatible with - wherever the selection is written
        if tbl is not None:
            want_tbl = generic.kms_sign_table_expected()
            dtab = {k: tbl[k] for k in want_tbl if want_tbl[k] != "raise" and tbl[k] != want_tbl[k]}
            R.check("C04-D3b EdDSA and dispatch", not dtab, "dispatch: EC key -> ECDSA; Ed key + hash-eddsa -> prehashed; Ed key + eddsa -> pure; each over the unmodified data",
                    mod=sg.module, node=sg.node, function=ctx.fq(sg), expected="three-way dispatch on key type and algorithm", found=f"{dtab}"[:300])
        if tbl is None or impl.methods.get("_get_sign_method") is not None:
            import contextlib
            if impl.methods.get("_get_sign_method") is None:
                raise AnalysisError(f"{ctx.fq(sg)}: neither evaluable as a decision table nor dispatched by _get_sign_method")
            try:
                with (R.lenient("decided on the decision table of sign() (C04-D3b)") if tbl is not None else contextlib.nullcontext()):
                    _dispatch_helper_rules(ctx, ev, impl, routines_)
            except AnalysisError as e_:
                if tbl is None:
                    raise
                R.info(f"proof form of the dispatch not applicable ({e_}); decided on the decision table of sign() (C04-D3b)")
