"""C14 — every encryption uses a fresh IV (structure of freshness; published IV = used IV)."""
from __future__ import annotations

import ast

from sa.absint import Evaluator, all_effects
from sa.callgraph import CallGraph
from sa.index import AnalysisError, walk_no_nested
from sa.terms import App, Const, Ref, Sym, list_items, subterms
from .c06 import ENC, P, encryption_info_term, kms_encrypt_facts, kms_impls

EXPLANATION = ("provenance analysis of the nonce argument of every AES-GCM encryption: it must be the result of an "
               "approved CSPRNG call of constant length 12 made inside the same function activation, with no memoisation "
               "or stored state on the path; the value used is the value returned, laid out, re-sliced and published "
               "under header key 5 (byte-layout terms); no repository code executed")

APPROVED = ("urandom",)  # term op produced for os.urandom; secrets.token_bytes is mapped below
MEMO = {"cache", "lru_cache", "cached_property", "memoize", "memoized"}


def run(ctx):
    R = ctx.report
    repo = ctx.repo
    ctx.use_files("ncs/basic_kms.py", "ncs/encrypt_script.py", "suit_generator/cmd_encrypt.py")

    # every AES-GCM encrypt call site in the repository
    R.rule("C14-D0 encryption sites", 1, "every AEAD encryption site in the repository is analysed")
    sites = []
    for f in repo.all_functions():
        for n in walk_no_nested(f.node):
            if isinstance(n, ast.Call) and isinstance(n.func, ast.Attribute) and n.func.attr == "encrypt":
                recv = n.func.value
                # receiver constructed from an AEAD class in this function
                src = ast.unparse(f.node)
                if any(k in src for k in ("AESGCM", "ChaCha20Poly1305", "AESCCM", "AESOCB3", "AESSIV", "AESGCMSIV")) \
                        and not (isinstance(recv, ast.Attribute) and recv.attr == "kms"):
                    sites.append((f, n))
    impl_funcs = {ctx.fq(repo.lookup_method(i, "encrypt")) for i in kms_impls(ctx)}
    from sa.absint import _known_functions
    known = _known_functions()
    cg0 = CallGraph(repo)

    def inside_impl(f, depth=0):
        """f is a KMS implementation's encrypt(), or a helper the rules have never seen that is called only from such functions (its
        statements are evaluated as part of them)"""
        if ctx.fq(f) in impl_funcs:
            return True
        if known is None or f.fq in known or depth >= 3:
            return False
        callers = [g for g in repo.all_functions() if g is not f and any(t is f for t in cg0.callees(g))]
        return bool(callers) and all(inside_impl(g, depth + 1) for g in callers)
    for f, n in sites:
        R.check("C14-D0 encryption sites", inside_impl(f), f"{ctx.fq(f)}: {ast.unparse(n)[:60]}", mod=f.module, node=n,
                function=ctx.fq(f), expected="AEAD encryption only inside a KMS implementation's encrypt()",
                found="AEAD encryption outside the analysed KMS interface")
    if not sites:
        raise AnalysisError("no AEAD encryption site found")

    R.rule("C14-D1 nonce provenance", 3, "nonce = fresh CSPRNG draw of 12 bytes made inside the call")
    R.rule("C14-D1b no memoisation / stored nonce", 2, "no cache decorator on the path, nonce never stored on self/module")
    for impl in kms_impls(ctx):
        f = kms_encrypt_facts(ctx, impl)
        fi = f["fi"]
        fq = ctx.fq(fi)
        if len(f["aes"]) != 1:
            raise AnalysisError(f"{fq}: AES-GCM call not recognised")
        a = f["aes"][0]
        nonce = a.args[1] if len(a.args) > 1 else None
        lo, hi = fi.node.body[0].lineno, fi.node.end_lineno
        ok = isinstance(nonce, App) and nonce.op in APPROVED
        inside = ok and isinstance(nonce.args[1], Const) and lo <= nonce.args[1].v[1] <= hi
        if ok and not inside and isinstance(nonce.args[1], Const):
            # the draw is written in a helper that is evaluated as part of this call: still inside the activation as long as the call
            # expression sits in a function body (not in a default argument, a decorator, a class body or at module level)
            ln_, col_ = nonce.args[1].v[1], nonce.args[1].v[2]
            for g_ in repo.all_functions():
                for st_ in g_.node.body:
                    for c_ in ast.walk(st_):
                        if isinstance(c_, ast.Call) and getattr(c_, "lineno", None) == ln_ and getattr(c_, "col_offset", None) == col_ \
                                and ast.unparse(c_.func).split(".")[-1] == "urandom" and g_.module is fi.module:
                            inside = True
        R.check("C14-D1 nonce provenance", ok, f"{impl.name}.encrypt: nonce source", mod=fi.module, node=a.node, function=fq,
                expected="os.urandom(12) (single reaching definition, a direct CSPRNG call)", found=repr(nonce)[:200])
        R.check("C14-D1 nonce provenance", ok and nonce.args[0] == Const(12), f"{impl.name}.encrypt: nonce length", mod=fi.module,
                node=a.node, function=fq, expected="constant 12 bytes (96 bit)", found=repr(nonce.args[0]) if ok else "?")
        R.check("C14-D1 nonce provenance", bool(inside), f"{impl.name}.encrypt: draw happens inside the activation", mod=fi.module,
                node=a.node, function=fq, expected=f"call site inside the function body (lines {lo}-{hi})",
                found=f"site {nonce.args[1]!r}" if ok else "?")
        # exactly one draw per encryption: the same draw must not feed two encryptions, and no other urandom result is ignored
        stores = [e for e in all_effects(f["out"].effects) if isinstance(e, App) and e.op in ("eff:setattr", "eff:store")
                  and any(isinstance(s, App) and s.op in APPROVED for s in subterms(e))]
        R.check("C14-D1b no memoisation / stored nonce", not stores, f"{impl.name}.encrypt: nonce not stored", mod=fi.module,
                node=fi.node, function=fq, expected="nonce lives only in the activation", found=f"{stores}"[:200])

    # memoisation decorators anywhere on the encrypt path
    cg = CallGraph(repo)
    entries = [repo.func("suit_generator.cmd_encrypt", "main")]
    reach = cg.reachable(entries)
    path_funcs = [f for f, _ in reach.values()]
    for i in kms_impls(ctx):
        path_funcs.append(repo.lookup_method(i, "encrypt"))
    for n in ("Encryptor.encrypt_and_generate", "Encryptor.generate_kms_artifacts",
              "Encryptor.generate_encryption_info_and_encrypted_payload", "Encryptor.generate_suit_encryption_info",
              "Encryptor.parse_encrypted_assets"):
        path_funcs.append(repo.func(ENC, n))
    bad = [(f, d) for f in path_funcs for d in f.decorators if d in MEMO]
    R.check("C14-D1b no memoisation / stored nonce", not bad, f"{len(path_funcs)} functions on the encrypt path carry no cache decorator",
            mod=bad[0][0].module if bad else None, node=bad[0][0].node if bad else None,
            function=ctx.fq(bad[0][0]) if bad else "encrypt path", file="ncs/encrypt_script.py", line=0,
            expected="no functools.cache / lru_cache on the path", found=f"{[(ctx.fq(f), d) for f, d in bad]}")
    R.analysed["encrypt_path_functions"] = len(path_funcs)

    # ---- D2 published = used
    R.rule("C14-D2 published = used", 5, "the nonce used is element 0 of the result, bytes [0,12) of the asset, and the value under header key 5")
    for impl in kms_impls(ctx):
        f = kms_encrypt_facts(ctx, impl)
        fi, ret, a = f["fi"], f["ret"], f["aes"][0]
        R.check("C14-D2 published = used", ret is not None and len(ret) == 3 and ret[0] == a.args[1],
                f"{impl.name}.encrypt returns the nonce it encrypted with", mod=fi.module, node=fi.node, function=ctx.fq(fi),
                expected="result[0] is the nonce passed to AESGCM.encrypt", found=repr(ret[0])[:160] if ret else "?")
        # any other cipher object built in the call (Cipher(..., modes.GCM(iv)), a second AEAD call, ...) must use that same nonce
        others = []
        for t in [f["out"].value] + list(all_effects(f["out"].effects)):
            for s_ in subterms(t):
                if isinstance(s_, App) and s_.op.startswith("call:") and (".modes." in s_.op or s_.op.split(".")[-1] in ("GCM", "CTR", "CBC", "CFB", "OFB", "XTS")):
                    args = [x for x in s_.args if not (isinstance(x, Const) and isinstance(x.v, tuple) and x.v[:1] == ("site",))]
                    if args and args[0] not in others:
                        others.append(args[0])
                if isinstance(s_, App) and s_.op == "meth:encrypt" and s_ is not a and isinstance(s_.args[0], App) and any(
                        k in s_.args[0].op for k in ("AESGCM", "ChaCha20Poly1305", "AESCCM", "AESOCB3", "AESSIV", "AESGCMSIV")) and len(s_.args) > 1 \
                        and s_.args[1] not in others:
                    others.append(s_.args[1])
        stray = [x for x in others if ret is None or x != ret[0]]
        R.check("C14-D2 published = used", not stray, f"{impl.name}.encrypt: every cipher of the call uses the returned nonce", mod=fi.module,
                node=fi.node, function=ctx.fq(fi), expected="one nonce per call: the one that is returned",
                found=f"another IV is used: {[repr(x)[:100] for x in stray]}")
    from .c06 import _plus_to_cat
    from sa.terms import cases, cat_parts
    gka = repo.func(ENC, "Encryptor.generate_kms_artifacts")
    ev0 = Evaluator(repo, inline_depth=0)
    gouts = [o for o in ev0.outcomes(gka) if o.kind == "return"]
    first = None
    for o in gouts:
        rv = list_items(o.value)
        if rv:
            for g, t in cases(rv[0]):
                parts = cat_parts(_plus_to_cat(t))
                if not any(p == Const(None) for p in parts):
                    first = parts[0]
    ok = isinstance(first, App) and first.op == "unpack" and first.args[1] == Const(0) and isinstance(first.args[0], App) \
        and first.args[0].op == "meth:encrypt"
    R.check("C14-D2 published = used", ok, "the asset starts with the KMS nonce", mod=gka.module, node=gka.node, function=ctx.fq(gka),
            expected="encrypted_asset = nonce + …", found=repr(first)[:160])
    fi_info, (content, tag, info) = encryption_info_term(ctx)
    iv5 = [s for s in subterms(info) if isinstance(s, App) and s.op == "kv" and s.args[0] == Const(5)]
    asset = P("encrypted_asset")
    ok = len(iv5) == 1 and iv5[0].args[1] == App("slice", (asset, Const(None), Const(12), Const(None)))
    R.check("C14-D2 published = used", ok, "header key 5 = asset[:12]", mod=fi_info.module, node=fi_info.node, function=ctx.fq(fi_info),
            expected="{5: encrypted_asset[:12]}", found=f"{iv5}"[:200])
    # no other producer of key 5 in the encryptor
    gsi = repo.func(ENC, "Encryptor.generate_suit_encryption_info")
    o = [x for x in ev0.outcomes(gsi) if x.kind == "return"]
    k5 = [s for x in o for s in subterms(x.value) if isinstance(s, App) and s.op == "kv" and s.args[0] == Const(5)]
    R.check("C14-D2 published = used", len(k5) == 1 and k5[0].args[1] == P("iv"), "the only value under key 5 is the iv parameter",
            mod=gsi.module, node=gsi.node, function=ctx.fq(gsi), expected="{5: iv}", found=f"{k5}"[:200])
