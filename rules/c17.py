"""C17 — parsing untrusted bytes fails cleanly (error discipline of the parser)."""
from __future__ import annotations

import ast

from sa.escape import ANY, BYTES_U, HANY, TRUSTED, FunctionAnalysis, Val, exc_is, tval
from sa.index import AnalysisError, walk_no_nested
from sa.schema import TypeRef

EXPLANATION = ("may-escape analysis over every from_cbor / to_obj / __init__ / helper of the schema classes: values "
               "returned by the CBOR decoder are untrusted and every operation on them must be dominated by a type / "
               "length check, be routed through the converting helpers, or sit in a handler; the set of exception "
               "classes that can leave the parser is compared with {ValueError family, SUITError, CBORDecodeError}; "
               "sibling signatures of from_cbor; nullable metadata fields; validate-before-decode and who-may-call for "
               "cbor2.loads; input-driven recursion cycles on the schema graph; no repository code executed")

ALLOWED = ("ValueError", "SUITError", "CBORDecodeError", "cbor2.CBORDecodeError")
PARSER_PREFIX = "suit_generator.suit"
HELPERS = {"deserialize_cbor", "validate_cbor", "decode_cbor_length", "serialize_cbor", "ensure_cbor", "_get_method_and_name"}
METHODS = {"from_cbor", "to_obj", "__init__"}


def allowed(exc: str) -> bool:
    return any(exc_is(exc, a) for a in ALLOWED)


def parser_functions(ctx):
    """Methods of schema classes (derived from SuitObject, the cbstr wrapper, or used as a union alternative)."""
    repo, S = ctx.repo, ctx.schema
    base = repo.cls("suit_generator.suit.types.common", "SuitObject")
    alts = set()
    for mi in S.meta.values():
        for c in mi.children or []:
            if isinstance(c, TypeRef) and c.cls is not None:
                alts.add(c.cls.fq)
    out = []
    for m in repo.modules.values():
        if not m.name.startswith(PARSER_PREFIX):
            continue
        for f in m.functions.values():
            if f.cls is None:
                continue
            schema_cls = f.cls.outer is not None or f.cls.fq in alts
            if not schema_cls:
                try:
                    schema_cls = base in repo.mro(f.cls)
                except AnalysisError:
                    schema_cls = False
            if not schema_cls:
                continue
            if f.name in METHODS or f.name in HELPERS or (f.name == "value" and f.kind == "property"):
                out.append(f)
    return out


def params_for(ctx, f):
    a = f.node.args
    names = [x.arg for x in a.posonlyargs + a.args]
    env = {}
    if f.name == "from_cbor":
        if len(names) >= 2:
            env[names[1]] = BYTES_U
    elif f.name == "__init__":
        for n in names[1:]:
            env[n] = ANY
    elif f.name in ("validate_cbor", "deserialize_cbor"):
        for n in names:
            if n not in ("cls", "self"):
                env[n] = BYTES_U
    elif f.name == "decode_cbor_length":
        for n in names:
            if n == "data":
                env[n] = BYTES_U
            elif n == "subtype":
                env[n] = Val(frozenset({"int"}), True)
    elif f.name in ("serialize_cbor", "ensure_cbor"):
        for n in names:
            if n not in ("cls", "self"):
                env[n] = ANY
    elif f.name == "_get_method_and_name":
        if len(names) >= 2:
            env[names[1]] = ANY
    return env


def run(ctx):
    R = ctx.report
    repo = ctx.repo
    S = ctx.schema
    ctx.use_files("suit_generator/suit/types/common.py", "suit_generator/suit/manifest.py", "suit_generator/suit/security.py",
                  "suit_generator/suit/envelope.py", "suit_generator/suit/payloads.py", "suit_generator/exceptions.py",
                  "suit_generator/input_output.py")
    funcs = parser_functions(ctx)
    R.analysed["parser_functions"] = len(funcs)

    # ---- D1 escape analysis
    R.rule("C17-D1 only input errors escape", 40, "per parser function: every may-raise site that is not handled locally raises an allowed class")
    R.rule("C17-D1b from_cbor receives bytes", 12, "every call of a from_cbor passes bytes (or sits in a catch-all)")
    total_sites = 0
    for f in sorted(funcs, key=lambda f: f.fq):
        fa = FunctionAnalysis(repo, f, params_for(ctx, f), HELPERS)
        fq = ctx.fq(f)
        bad = []
        seen = set()
        for s in fa.sites:
            total_sites += 1
            if s.exc == "<reraise>" or allowed(s.exc):
                continue
            if s.key in seen:
                continue
            seen.add(s.key)
            bad.append(s)
        # reviewed exclusion: SuitTupleNamed.to_obj GeneratorError raises are unreachable after from_cbor
        if f.qualname == "SuitTupleNamed.to_obj":
            if tuple_named_side_conditions(ctx):
                bad = [s for s in bad if s.exc != "GeneratorError"]
        # to_cbor / from_obj are not on the parse path: only METHODS / HELPERS are analysed
        if not bad:
            R.ok("C17-D1 only input errors escape", fq)
        for s in bad:
            R.fail("C17-D1 only input errors escape", f"{fq}: may raise {s.exc}", mod=f.module, node=s.node, function=fq,
                   expected="only ValueError (incl. CBOR decode errors) or SUITError may leave the parser: check the type/length "
                            "first or convert the error", found=f"{s.exc}: {s.why}", witness=[f"SuitEnvelopeTagged.from_cbor → … → {f.qualname}"],
                   key_extra=s.exc)
        for node, what, ok in fa.obligations:
            R.check("C17-D1b from_cbor receives bytes", ok, f"{fq}: {ast.unparse(node)[:70]}", mod=f.module, node=node, function=fq,
                    expected="argument is bytes: ensure_cbor(..) / serialize_cbor(..) / a bytes parameter / binary read", found="argument type not established")
    R.analysed["may_raise_sites_examined"] = total_sites

    signatures(ctx, funcs)
    nullable_metadata(ctx)
    validate_before_decode(ctx)
    recursion(ctx)
    entry_points(ctx)


def tuple_named_side_conditions(ctx) -> bool:
    """Only the last key of a tuple map is starred (schema invariant) and from_cbor appends exactly one value per non-star key."""
    S = ctx.schema
    for fq, mi in S.meta.items():
        if S.kind(mi.owner) == "array" and mi.map:
            if any(isinstance(k, str) and k.endswith("*") for k, _ in mi.map[:-1]):
                return False
    fi = ctx.repo.func("suit_generator.suit.types.common", "SuitTupleNamed.from_cbor")
    # in the non-star branch: exactly one append and one index increment
    for n in ast.walk(fi.node):
        if isinstance(n, ast.If) and "endswith" in ast.unparse(n.test):
            els = n.orelse
            appends = [x for s in els for x in ast.walk(s) if isinstance(x, ast.Call) and isinstance(x.func, ast.Attribute) and x.func.attr == "append"]
            return len(appends) == 1
    return False


def signatures(ctx, funcs):
    R = ctx.report
    R.rule("C17-D2 sibling signatures", 15, "every from_cbor reachable by dispatch is a classmethod taking exactly one argument besides cls")
    for f in sorted(funcs, key=lambda f: f.fq):
        if f.name != "from_cbor":
            continue
        a = f.node.args
        names = [x.arg for x in a.posonlyargs + a.args]
        ok = f.kind == "classmethod" and len(names) == 2 and not a.vararg and not a.kwonlyargs
        R.check("C17-D2 sibling signatures", ok, ctx.fq(f), mod=f.module, node=f.node, function=ctx.fq(f),
                expected="@classmethod def from_cbor(cls, cbstr)", found=f"{f.kind} with parameters {names}: the generic call child.from_cbor(bytes) raises TypeError")


def nullable_metadata(ctx):
    """A Metadata field that defaults to None is iterated / indexed only where every class using that code sets it, or under a guard."""
    R = ctx.report
    repo = ctx.repo
    S = ctx.schema
    R.rule("C17-D3 nullable metadata", 8, "iteration / indexing of cls._metadata.<field> is safe for every class that inherits the method")
    common = repo.mod("suit_generator.suit.types.common")
    for f in common.functions.values():
        if f.cls is None or f.name not in ("from_cbor", "to_obj", "__init__"):
            continue
        for n in walk_no_nested(f.node):
            field, how = None, None
            if isinstance(n, (ast.For, ast.comprehension)) and _meta_field(n.iter):
                field, how = _meta_field(n.iter), "iterated"
                node = n.iter
            elif isinstance(n, ast.Subscript) and _meta_field(n.value) and isinstance(n.ctx, ast.Load):
                field, how = _meta_field(n.value), "indexed"
                node = n.value
            elif isinstance(n, ast.Call) and isinstance(n.func, ast.Attribute) and _meta_field(n.func.value) \
                    and n.func.attr in ("items", "keys", "values"):
                field, how = _meta_field(n.func.value), "iterated"
                node = n.func.value
            if field is None:
                continue
            guarded = _guarded_by_truthiness(f.node, node, field)
            users = [c for c in repo.all_classes() if c.outer is None and repo.lookup_method(c, f.name) is f and S.metadata_of(c) is not None]
            missing = [c.name for c in users if getattr(S.metadata_of(c), field) is None]
            inst = f"{ctx.fq(f)}: _metadata.{field} {how} ({len(users)} classes)"
            R.check("C17-D3 nullable metadata", guarded or not missing, inst, mod=f.module, node=node, function=ctx.fq(f),
                    expected=f"every class using this method sets {field}=…, or the access is guarded",
                    found=f"{field} is None for {missing[:6]}{'…' if len(missing) > 6 else ''}: {how} None -> TypeError "
                          f"(e.g. an unknown key in such a map)", key_extra=field + how)


def _meta_field(e):
    if isinstance(e, ast.Attribute) and isinstance(e.value, ast.Attribute) and e.value.attr == "_metadata" \
            and e.attr in ("children", "map", "embedded", "tag"):
        return e.attr
    return None


def _guarded_by_truthiness(fnode, node, field) -> bool:
    # a dominating early exit:  if not cls._metadata.<field>: raise / return / continue   earlier in an enclosing block
    for blk in ast.walk(fnode):
        for attr in ("body", "orelse"):
            stmts = getattr(blk, attr, None)
            if not isinstance(stmts, list):
                continue
            for i, st in enumerate(stmts):
                if isinstance(st, ast.If) and isinstance(st.test, ast.UnaryOp) and isinstance(st.test.op, ast.Not) \
                        and _meta_field(st.test.operand) == field and st.body \
                        and isinstance(st.body[-1], (ast.Raise, ast.Return, ast.Continue)):
                    if any(x is node for later in stmts[i + 1:] for x in ast.walk(later)):
                        return True
    for n in ast.walk(fnode):
        if isinstance(n, ast.If) and any(x is node for b in n.body for x in ast.walk(b)):
            t = ast.unparse(n.test)
            if f"_metadata.{field}" in t and "not" not in t.split(f"_metadata.{field}")[0][-5:]:
                return True
        if isinstance(n, ast.IfExp) and any(x is node for x in ast.walk(n.body)):
            if f"_metadata.{field}" in ast.unparse(n.test):
                return True
        if isinstance(n, ast.BoolOp) and isinstance(n.op, ast.Or) and any(x is node for x in ast.walk(n)):
            # (cls._metadata.embedded or [])
            if any(isinstance(v, (ast.List, ast.Tuple)) and not v.elts for v in n.values):
                return True
    return False


def validate_before_decode(ctx):
    R = ctx.report
    repo = ctx.repo
    R.rule("C17-D4 validate before decode", 3, "cbor2.loads only inside deserialize_cbor, after validate_cbor, under a catch-all converting to ValueError")
    sites = []
    for m in repo.modules.values():
        if not m.name.startswith(PARSER_PREFIX):
            continue
        for f in m.functions.values():
            for n in walk_no_nested(f.node):
                if isinstance(n, ast.Call) and isinstance(n.func, ast.Attribute) and n.func.attr in ("loads", "load") \
                        and isinstance(n.func.value, ast.Name) and n.func.value.id == "cbor2":
                    sites.append((f, n))
    for f, n in sites:
        R.check("C17-D4 validate before decode", f.name == "deserialize_cbor", f"{ctx.fq(f)}: {ast.unparse(n)[:50]}", mod=f.module, node=n,
                function=ctx.fq(f), expected="the decoder is called only from SuitObject.deserialize_cbor", found="direct cbor2.loads in the parser")
    de = repo.func("suit_generator.suit.types.common", "SuitObject.deserialize_cbor")
    body = [s for s in de.node.body if not (isinstance(s, ast.Expr) and isinstance(s.value, ast.Constant))]
    first_call = body[0] if body else None
    ok_first = isinstance(first_call, ast.Expr) and "validate_cbor(cbstr)" in ast.unparse(first_call)
    R.check("C17-D4 validate before decode", ok_first, "validate_cbor(cbstr) is the first statement", mod=de.module, node=de.node,
            function=ctx.fq(de), expected="SuitObject.validate_cbor(cbstr) before cbor2.loads", found="validation does not dominate the decoder call")
    tries = [s for s in body if isinstance(s, ast.Try)]
    ok_try = False
    for t in tries:
        if "cbor2.loads" in "".join(ast.unparse(x) for x in t.body):
            for h in t.handlers:
                names = [ast.unparse(h.type)] if h.type is not None and not isinstance(h.type, ast.Tuple) else []
                if (h.type is None or "Exception" in names) and h.body and isinstance(h.body[-1], ast.Raise) \
                        and "ValueError" in ast.unparse(h.body[-1]):
                    ok_try = True
    R.check("C17-D4 validate before decode", ok_try, "decoder exceptions are converted to ValueError", mod=de.module, node=de.node,
            function=ctx.fq(de), expected="except Exception: raise ValueError", found="no converting catch-all around cbor2.loads")
    # validate_cbor rejects a declared length larger than the input
    va = repo.func("suit_generator.suit.types.common", "SuitObject.validate_cbor")
    src = ast.unparse(va.node)
    R.rule("C17-D4b length pre-validation", 2, "empty input and over-long declared lengths are rejected before decoding")
    R.check("C17-D4b length pre-validation", "if len(cbstr) < 1" in src and "raise ValueError" in src, "empty input", mod=va.module, node=va.node,
            function=ctx.fq(va), expected="len(cbstr) < 1 -> ValueError", found="check missing")
    R.check("C17-D4b length pre-validation", "requested_memory_len > len(cbstr)" in src, "declared length vs. input length", mod=va.module,
            node=va.node, function=ctx.fq(va), expected="requested_memory_len > len(cbstr) -> ValueError", found="comparison missing")


def recursion(ctx):
    """Cycles of from_cbor through the schema with no depth guard and no conversion of RecursionError."""
    R = ctx.report
    repo = ctx.repo
    S = ctx.schema
    R.rule("C17-D5 input-driven recursion", 1, "every cycle of the schema graph is bounded by a depth guard or converts RecursionError")
    graph = {}
    wrapped = {}
    for ci in S.reachable():
        mi = S.metadata_of(ci)
        succ = []
        if mi is not None:
            for c in mi.children or []:
                if isinstance(c, TypeRef) and c.cls is not None:
                    succ.append(c.cls)
                    wrapped[(ci.fq, c.cls.fq)] = max(wrapped.get((ci.fq, c.cls.fq), 0), c.wrap)
            for k, v in mi.map or []:
                if isinstance(k, TypeRef) and k.cls is not None:
                    succ.append(k.cls)
                if v.cls is not None:
                    succ.append(v.cls)
                    wrapped[(ci.fq, v.cls.fq)] = max(wrapped.get((ci.fq, v.cls.fq), 0), v.wrap)
        graph[ci.fq] = (ci, succ)
    # strongly connected components (Tarjan)
    index, low, stack, on, comps = {}, {}, [], set(), []
    counter = [0]

    def strong(v):
        index[v] = low[v] = counter[0]
        counter[0] += 1
        stack.append(v)
        on.add(v)
        for w in graph[v][1]:
            if w.fq not in graph:
                continue
            if w.fq not in index:
                strong(w.fq)
                low[v] = min(low[v], low[w.fq])
            elif w.fq in on:
                low[v] = min(low[v], index[w.fq])
        if low[v] == index[v]:
            comp = []
            while True:
                w = stack.pop()
                on.discard(w)
                comp.append(w)
                if w == v:
                    break
            comps.append(comp)

    import sys
    sys.setrecursionlimit(5000)
    for v in graph:
        if v not in index:
            strong(v)
    cyclic = [c for c in comps if len(c) > 1 or any(w.fq == c[0] for w in graph[c[0]][1])]
    # a guard: any from_cbor / deserialize_cbor mentioning RecursionError or a depth parameter
    guard = False
    for m in repo.modules.values():
        if m.name.startswith(PARSER_PREFIX):
            if "RecursionError" in m.source or "max_depth" in m.source or "_depth" in m.source:
                guard = True
    if not cyclic:
        R.ok("C17-D5 input-driven recursion", "schema graph is acyclic")
    for comp in sorted(cyclic, key=lambda c: sorted(c)):
        names = sorted(graph[v][0].name for v in comp)
        anchor = graph[sorted(comp)[0]][0]
        # a cycle without any byte-string-wrapped edge is decoded by ONE cbor2.loads call: its nesting is bounded by the
        # decoder's container depth limit (library fact: cbor2 max_depth, converted to ValueError by deserialize_cbor)
        opaque = any(wrapped.get((a, b), 0) > 0 for a in comp for b in comp)
        if not opaque:
            R.ok("C17-D5 input-driven recursion", f"cycle through {names}: no wrapped edge, bounded by the decoder's nesting limit")
            R.info(f"cycle {names} has no bstr-wrapped edge: nesting bounded by the decoder's container depth limit")
            continue
        R.check("C17-D5 input-driven recursion", guard, f"cycle through {names}", mod=anchor.module, node=anchor.node, function=anchor.fq,
                construct="cycle|" + "|".join(names), expected="nesting depth bounded, or RecursionError converted to ValueError",
                found="from_cbor recurses once per nesting level of the input with no depth guard: a few hundred nested "
                      "sequences raise RecursionError")


def entry_points(ctx):
    R = ctx.report
    repo = ctx.repo
    R.rule("C17-D6 entry points hand bytes to the parser", 2, "file readers open in binary mode and pass the whole content")
    for q in ("InputOutputMixin.from_suit_file", "InputOutputMixin.from_suit_file_simplified"):
        f = repo.func("suit_generator.input_output", q)
        src = ast.unparse(f.node)
        R.check("C17-D6 entry points hand bytes to the parser", "open(file_name, 'rb')" in src and ".from_cbor(data)" in src and "data = fh.read()" in src,
                ctx.fq(f), mod=f.module, node=f.node, function=ctx.fq(f), expected="open(file_name, 'rb'); from_cbor(fh.read())", found="not recognised")
