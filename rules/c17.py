"""C17 — parsing untrusted bytes fails cleanly (error discipline of the parser)."""
from __future__ import annotations

import ast

from rules.setuse import parents_of
from . import generic
from sa.absint import Evaluator, all_effects, flatten_effects
from sa.escape import ANY, BYTES_U, HANY, TRUSTED, FunctionAnalysis, Val, exc_is, tval
from sa.index import AnalysisError, walk_no_nested
from sa.schema import TypeRef
from sa.terms import App, Const, Ref, Sym, subterms
from sa.teval import Raised, Unknown, teval

EXPLANATION = ("may-escape analysis over every from_cbor / to_obj / __init__ / helper of the schema classes: values "
               "returned by the CBOR decoder are untrusted and every operation on them must be dominated by a type / "
               "length check, be routed through the converting helpers, or sit in a handler; the set of exception "
               "classes that can leave the parser is compared with {ValueError family, SUITError, CBORDecodeError}; "
               "sibling signatures of from_cbor; nullable metadata fields; validate-before-decode and who-may-call for "
               "cbor2.loads; input-driven recursion cycles on the schema graph; no repository code executed")

ALLOWED = ("ValueError", "SUITError", "CBORDecodeError", "cbor2.CBORDecodeError")
PARSER_PREFIX = "suit_generator.suit"
HELPERS = {"deserialize_cbor", "validate_cbor", "decode_cbor_length", "serialize_cbor", "ensure_cbor", "_get_method_and_name",
           "reject_shared_values"}
METHODS = {"from_cbor", "to_obj", "__init__"}


def allowed(exc: str) -> bool:
    return any(exc_is(exc, a) for a in ALLOWED)


def parser_functions(ctx):
    """Methods of schema classes (derived from SuitObject, the cbstr wrapper, or used as a union alternative)."""
    repo, S = ctx.repo, ctx.schema
    base = repo.cls("suit_generator.suit.types.common", "SuitObject")
    alts = set()
    for mi in S.meta.values():
        for c in mi.children or []:
            if isinstance(c, TypeRef) and c.cls is not None:
                alts.add(c.cls.fq)
    out = []
    for m in repo.modules.values():
        if not m.name.startswith(PARSER_PREFIX):
            continue
        for f in m.functions.values():
            if f.cls is None:
                continue
            schema_cls = f.cls.outer is not None or f.cls.fq in alts
            if not schema_cls:
                try:
                    schema_cls = base in repo.mro(f.cls)
                except AnalysisError:
                    schema_cls = False
            if not schema_cls:
                continue
            if f.name in METHODS or f.name in HELPERS or (f.name == "value" and f.kind == "property"):
                out.append(f)
    return out


def params_for(ctx, f):
    a = f.node.args
    names = [x.arg for x in a.posonlyargs + a.args]
    env = {}
    if f.name == "from_cbor":
        if len(names) >= 2:
            env[names[1]] = BYTES_U
    elif f.name == "__init__":
        for n in names[1:]:
            env[n] = ANY
    elif f.name in ("validate_cbor", "deserialize_cbor"):
        for n in names:
            if n not in ("cls", "self"):
                env[n] = BYTES_U
    elif f.name == "decode_cbor_length":
        for n in names:
            if n == "data":
                env[n] = BYTES_U
            elif n == "subtype":
                env[n] = Val(frozenset({"int"}), True)
    elif f.name in ("serialize_cbor", "ensure_cbor", "reject_shared_values"):
        for n in names:
            if n not in ("cls", "self"):
                env[n] = ANY
    elif f.name == "_get_method_and_name":
        if len(names) >= 2:
            env[names[1]] = ANY
    return env


def run(ctx):
    R = ctx.report
    repo = ctx.repo
    S = ctx.schema
    ctx.use_files("suit_generator/suit/types/common.py", "suit_generator/suit/manifest.py", "suit_generator/suit/security.py",
                  "suit_generator/suit/envelope.py", "suit_generator/suit/payloads.py", "suit_generator/exceptions.py",
                  "suit_generator/input_output.py")
    funcs = parser_functions(ctx)
    R.analysed["parser_functions"] = len(funcs)

    # ---- D9: no memoising decorator on a parser function: the cache hashes its arguments, and a decoder-controlled argument may be an
    # unhashable list / dict (TypeError), besides keeping decoded data alive between inputs
    R.rule("C17-D9 no memoisation in the parser", 40, "no cache decorator on any function of the parse path")
    MEMO_ = {"cache", "lru_cache", "cached_property", "memoize", "memoized"}
    for f in sorted(funcs, key=lambda f: f.fq):
        bad_d = [d for d in f.decorators if d.split(".")[-1] in MEMO_]
        R.check("C17-D9 no memoisation in the parser", not bad_d, ctx.fq(f), mod=f.module, node=f.node, function=ctx.fq(f),
                expected="arguments derived from the input are never hashed by a cache", found=f"decorated with {bad_d}: an unhashable argument raises TypeError")
    # ---- D1 escape analysis
    R.rule("C17-D1 only input errors escape", 40, "per parser function: every may-raise site that is not handled locally raises an allowed class")
    R.rule("C17-D1b from_cbor receives bytes", 12, "every call of a from_cbor passes bytes (or sits in a catch-all)")
    total_sites = 0
    for f in sorted(funcs, key=lambda f: f.fq):
        fa = FunctionAnalysis(repo, f, params_for(ctx, f), HELPERS)
        fq = ctx.fq(f)
        bad = []
        seen = set()
        for s in fa.sites:
            total_sites += 1
            if s.exc == "<reraise>" or allowed(s.exc):
                continue
            if s.key in seen:
                continue
            seen.add(s.key)
            bad.append(s)
        # reviewed exclusion: SuitTupleNamed.to_obj GeneratorError raises are unreachable after from_cbor
        if f.qualname == "SuitTupleNamed.to_obj":
            if tuple_named_side_conditions(ctx):
                bad = [s for s in bad if s.exc != "GeneratorError"]
        # to_cbor / from_obj are not on the parse path: only METHODS / HELPERS are analysed
        if not bad:
            R.ok("C17-D1 only input errors escape", fq)
        for s in bad:
            R.fail("C17-D1 only input errors escape", f"{fq}: may raise {s.exc}", mod=f.module, node=s.node, function=fq,
                   expected="only ValueError (incl. CBOR decode errors) or SUITError may leave the parser: check the type/length "
                            "first or convert the error", found=f"{s.exc}: {s.why}", witness=[f"SuitEnvelopeTagged.from_cbor → … → {f.qualname}"],
                   key_extra=s.exc)
        for node, what, ok in fa.obligations:
            R.check("C17-D1b from_cbor receives bytes", ok, f"{fq}: {ast.unparse(node)[:70]}", mod=f.module, node=node, function=fq,
                    expected="argument is bytes: ensure_cbor(..) / serialize_cbor(..) / a bytes parameter / binary read", found="argument type not established")
    R.analysed["may_raise_sites_examined"] = total_sites

    signatures(ctx, funcs)
    nullable_metadata(ctx)
    validate_before_decode(ctx)
    loop_progress(ctx)
    recursion(ctx)
    entry_points(ctx)


def tuple_named_side_conditions(ctx) -> bool:
    """Only the last key of a tuple map is starred (schema invariant) and from_cbor appends exactly one value per non-star key."""
    S = ctx.schema
    for fq, mi in S.meta.items():
        if S.kind(mi.owner) == "array" and mi.map:
            if any(isinstance(k, str) and k.endswith("*") for k, _ in mi.map[:-1]):
                return False
    fi = ctx.repo.func("suit_generator.suit.types.common", "SuitTupleNamed.from_cbor")
    # in the non-star branch: exactly one append and one index increment
    for n in ast.walk(fi.node):
        if isinstance(n, ast.If) and "endswith" in ast.unparse(n.test):
            els = n.orelse
            appends = [x for s in els for x in ast.walk(s) if isinstance(x, ast.Call) and isinstance(x.func, ast.Attribute) and x.func.attr == "append"]
            return len(appends) == 1
    return False


def signatures(ctx, funcs):
    R = ctx.report
    R.rule("C17-D2 sibling signatures", 15, "every from_cbor reachable by dispatch is a classmethod taking exactly one argument besides cls")
    for f in sorted(funcs, key=lambda f: f.fq):
        if f.name != "from_cbor":
            continue
        a = f.node.args
        names = [x.arg for x in a.posonlyargs + a.args]
        ok = f.kind == "classmethod" and len(names) == 2 and not a.vararg and not a.kwonlyargs
        R.check("C17-D2 sibling signatures", ok, ctx.fq(f), mod=f.module, node=f.node, function=ctx.fq(f),
                expected="@classmethod def from_cbor(cls, cbstr)", found=f"{f.kind} with parameters {names}: the generic call child.from_cbor(bytes) raises TypeError")


def nullable_metadata(ctx):
    """A Metadata field that defaults to None is iterated / indexed only where every class using that code sets it, or under a guard."""
    R = ctx.report
    repo = ctx.repo
    S = ctx.schema
    R.rule("C17-D3 nullable metadata", 8, "iteration / indexing of cls._metadata.<field> is safe for every class that inherits the method")
    common = repo.mod("suit_generator.suit.types.common")
    for f in common.functions.values():
        if f.cls is None or f.name not in ("from_cbor", "to_obj", "__init__"):
            continue
        for n in walk_no_nested(f.node):
            field, how = None, None
            if isinstance(n, (ast.For, ast.comprehension)) and _meta_field(n.iter):
                field, how = _meta_field(n.iter), "iterated"
                node = n.iter
            elif isinstance(n, ast.Subscript) and _meta_field(n.value) and isinstance(n.ctx, ast.Load):
                field, how = _meta_field(n.value), "indexed"
                node = n.value
            elif isinstance(n, ast.Call) and isinstance(n.func, ast.Attribute) and _meta_field(n.func.value) \
                    and n.func.attr in ("items", "keys", "values"):
                field, how = _meta_field(n.func.value), "iterated"
                node = n.func.value
            if field is None:
                continue
            guarded = _guarded_by_truthiness(f.node, node, field)
            users = [c for c in repo.all_classes() if c.outer is None and repo.lookup_method(c, f.name) is f and S.metadata_of(c) is not None]
            missing = [c.name for c in users if getattr(S.metadata_of(c), field) is None]
            inst = f"{ctx.fq(f)}: _metadata.{field} {how} ({len(users)} classes)"
            R.check("C17-D3 nullable metadata", guarded or not missing, inst, mod=f.module, node=node, function=ctx.fq(f),
                    expected=f"every class using this method sets {field}=…, or the access is guarded",
                    found=f"{field} is None for {missing[:6]}{'…' if len(missing) > 6 else ''}: {how} None -> TypeError "
                          f"(e.g. an unknown key in such a map)", key_extra=field + how)


def _meta_field(e):
    if isinstance(e, ast.Attribute) and isinstance(e.value, ast.Attribute) and e.value.attr == "_metadata" \
            and e.attr in ("children", "map", "embedded", "tag"):
        return e.attr
    return None


def _guarded_by_truthiness(fnode, node, field) -> bool:
    # a dominating early exit:  if not cls._metadata.<field>: raise / return / continue   earlier in an enclosing block
    for blk in ast.walk(fnode):
        for attr in ("body", "orelse"):
            stmts = getattr(blk, attr, None)
            if not isinstance(stmts, list):
                continue
            for i, st in enumerate(stmts):
                def _none_test(t):
                    # `not <field>`, `<field> is None`, `<field> is None or len(<field>) == 0` (any `or` that has the None test first)
                    if isinstance(t, ast.UnaryOp) and isinstance(t.op, ast.Not) and _meta_field(t.operand) == field:
                        return True
                    def _is_none(x):
                        return isinstance(x, ast.Compare) and len(x.ops) == 1 and isinstance(x.ops[0], (ast.Is, ast.Eq)) and _meta_field(x.left) == field \
                            and isinstance(x.comparators[0], ast.Constant) and x.comparators[0].value is None

                    def _is_empty(x):
                        return isinstance(x, ast.Compare) and len(x.ops) == 1 and isinstance(x.ops[0], ast.Eq) and isinstance(x.left, ast.Call) \
                            and isinstance(x.left.func, ast.Name) and x.left.func.id == "len" and x.left.args and _meta_field(x.left.args[0]) == field \
                            and isinstance(x.comparators[0], ast.Constant) and x.comparators[0].value == 0
                    # the None test alone is not the same guard: an empty list would pass it and nothing below would refuse the item
                    return isinstance(t, ast.BoolOp) and isinstance(t.op, ast.Or) and len(t.values) == 2 and _is_none(t.values[0]) and _is_empty(t.values[1])
                if isinstance(st, ast.If) and _none_test(st.test) and st.body \
                        and isinstance(st.body[-1], (ast.Raise, ast.Return, ast.Continue)):
                    if any(x is node for later in stmts[i + 1:] for x in ast.walk(later)):
                        return True
    for n in ast.walk(fnode):
        if isinstance(n, ast.If) and any(x is node for b in n.body for x in ast.walk(b)):
            t = ast.unparse(n.test)
            if f"_metadata.{field}" in t and "not" not in t.split(f"_metadata.{field}")[0][-5:]:
                return True
        if isinstance(n, ast.IfExp) and any(x is node for x in ast.walk(n.body)):
            if f"_metadata.{field}" in ast.unparse(n.test):
                return True
        if isinstance(n, ast.BoolOp) and isinstance(n.op, ast.Or) and any(x is node for x in ast.walk(n)):
            # (cls._metadata.embedded or [])
            if any(isinstance(v, (ast.List, ast.Tuple)) and not v.elts for v in n.values):
                return True
    return False


def _raises_allowed(ev_exit) -> bool:
    v = ev_exit.value
    name = None
    if isinstance(v, App) and v.op.startswith("call:"):
        name = v.op[5:]
    elif isinstance(v, App) and v.op == "new" and isinstance(v.args[0], Ref):
        name = getattr(v.args[0].obj, "name", None)
    return name is not None and allowed(name)


def _is_cborload(t):
    return isinstance(t, App) and t.op == "cborload"


def validate_before_decode(ctx):
    """cbor2.loads only in deserialize_cbor; there: validate_cbor(x) precedes loads(x) on every path, every decoder exception is
    converted, the decoded item goes through the sharing guard before it is returned.  Decided on the evaluator's outcomes (effect
    order and guards), not on the text: temporaries, renames and inserted statements do not matter."""
    R = ctx.report
    repo = ctx.repo
    R.rule("C17-D4 validate before decode", 3, "cbor2.loads only inside deserialize_cbor, after validate_cbor, under a catch-all converting to ValueError")
    sites = []
    for m in repo.modules.values():
        if not m.name.startswith(PARSER_PREFIX):
            continue
        for f in m.functions.values():
            for n in walk_no_nested(f.node):
                if isinstance(n, ast.Call) and isinstance(n.func, ast.Attribute) and n.func.attr in ("loads", "load"):
                    r = repo.resolve_expr(f.module, n.func)
                    if r and r[0] == "ext" and r[1].startswith("cbor2."):
                        sites.append((f, n))
    if not sites:
        raise AnalysisError("no cbor2.loads site found in the parser (resolver lost it)")
    for f, n in sites:
        R.check("C17-D4 validate before decode", f.name == "deserialize_cbor", f"{ctx.fq(f)}: {ast.unparse(n)[:50]}", mod=f.module, node=n,
                function=ctx.fq(f), expected="the decoder is called only from SuitObject.deserialize_cbor", found="direct cbor2.loads in the parser")
    de = repo.func("suit_generator.suit.types.common", "SuitObject.deserialize_cbor")
    va = repo.func("suit_generator.suit.types.common", "SuitObject.validate_cbor")
    ev = Evaluator(repo, inline_depth=0)
    outs = ev.outcomes(de)
    loads_seen = 0
    ok_first, ok_conv, catch_all, ok_ret = True, True, False, True
    guards = []
    for o in outs:
        for seq in flatten_effects(o.effects):
            calls = [e.args[0] for e in seq if isinstance(e, App) and e.op == "eff:call"]
            for i, c in enumerate(calls):
                if _is_cborload(c):
                    loads_seen += 1
                    arg = c.args[0]
                    if isinstance(arg, App) and arg.op in ("call:io.BytesIO", "call:BytesIO"):
                        arg = arg.args[-1]  # decoding from a stream over the same bytes
                    before = [x for x in calls[:i] if isinstance(x, App) and x.op == "call" and isinstance(x.args[0], Ref)
                              and x.args[0].obj is va and arg in x.args[1:]]
                    if not before:
                        ok_first = False
        if o.kind == "raise":
            excs = [c for c in o.conds if isinstance(c, App) and c.op == "exc"]
            if excs:
                if not _raises_allowed(o):
                    ok_conv = False
                if any(isinstance(c.args[0], Const) and c.args[0].v in ("Exception", "BaseException", None, "") for c in excs):
                    catch_all = True
        elif o.kind == "return":
            if not _is_cborload(o.value):
                ok_ret = False
            else:
                seqs = list(flatten_effects(o.effects))
                for seq in seqs:
                    calls = [e.args[0] for e in seq if isinstance(e, App) and e.op == "eff:call"]
                    li = max((i for i, c in enumerate(calls) if c == o.value), default=None)
                    after = [x for x in (calls[li + 1:] if li is not None else []) if isinstance(x, App) and x.op == "call"
                             and isinstance(x.args[0], Ref) and o.value in x.args[1:]]
                    guards.append([x.args[0].obj for x in after])
    if loads_seen == 0:
        raise AnalysisError("deserialize_cbor: decoder call not visible to the evaluator")
    R.check("C17-D4 validate before decode", ok_first, "validate_cbor(x) precedes cbor2.loads(x) on every path", mod=de.module, node=de.node,
            function=ctx.fq(de), expected="SuitObject.validate_cbor(cbstr) before cbor2.loads(cbstr)", found="validation does not dominate the decoder call")
    R.check("C17-D4 validate before decode", ok_conv and catch_all, "decoder exceptions are converted to ValueError", mod=de.module, node=de.node,
            function=ctx.fq(de), expected="a catch-all around cbor2.loads whose every handler raises a ValueError / SUITError",
            found="no converting catch-all around cbor2.loads" if not catch_all else "a handler raises another class")
    R.check("C17-D4 validate before decode", ok_ret, "the decoded item itself is returned", mod=de.module, node=de.node, function=ctx.fq(de),
            expected="return cbor2.loads(cbstr)", found="another value is returned")

    # ---- D7: CBOR value sharing (tags 28/29) is refused before the decoded item is traversed / re-serialized
    R.rule("C17-D7 value sharing refused", 1, "the decoded item passes a guard that raises a ValueError when a container occurs twice")
    ok_guard, found = bool(guards), "no return path"
    for g in guards:
        if not any(_is_sharing_guard(ctx, fi) for fi in g):
            ok_guard, found = False, ("decoded item returned without a sharing guard" if not g else
                                      f"{[getattr(x, 'qualname', x) for x in g]} not recognised as a sharing guard")
    # ---- D10: the one decoder product whose comparison raises (decimal fraction holding a signaling NaN) is refused as well
    R.rule("C17-D10 signaling NaN refused", 1, "the decoded item passes a guard that raises a ValueError for a Decimal signaling NaN anywhere inside it")
    ok_snan, found_snan = bool(guards), "no return path"
    for g in guards:
        if not any(_refuses_snan(ctx, fi) for fi in g):
            ok_snan, found_snan = False, "no function applied to the decoded item walks it and refuses Decimal signaling NaN"
    R.check("C17-D10 signaling NaN refused", ok_snan, "deserialize_cbor", mod=de.module, node=de.node, function=ctx.fq(de),
            expected="tag 4 [\"N\", 1] decodes to Decimal('sNaN'); `x == sNaN` raises decimal.InvalidOperation (ArithmeticError) in every key / enum "
                     "lookup that compares a decoded value: d86ba1024a81488245c482614e0140 (15 bytes) escapes SuitEnvelopeTagged.from_cbor on the unrepaired tree",
            found=found_snan)
    R.check("C17-D7 value sharing refused", ok_guard, "deserialize_cbor", mod=de.module, node=de.node, function=ctx.fq(de),
            expected="shared containers (CBOR tags 28/29) are rejected: every re-serialization would expand them again "
                     "(254 bytes -> 870 MB on the unrepaired tree)", found=found)

    # the walk over the decoded item visits every item: a break / return inside it lets everything still pending through unexamined
    seen_walks = set()
    for g in guards:
        for gf in g:
            if hasattr(gf, "node") and gf.fq not in seen_walks and (_is_sharing_guard(ctx, gf) or _refuses_snan(ctx, gf)):
                seen_walks.add(gf.fq)
                generic.loops_run_to_end(ctx, "C17-D7b the guard walks the whole decoded item", gf, {"pop", "append", "extend", "popleft"}, "items of the decoded value", floor=0)

    # ---- D4b: validate_cbor rejects the empty input and a declared length beyond the input
    R.rule("C17-D4b length pre-validation", 2, "empty input and over-long declared lengths are rejected before decoding")
    # the length decoder: SuitObject.decode_cbor_length, or the function it merely hands its arguments on to (moved elsewhere)
    dcl = repo.func("suit_generator.suit.types.common", "SuitObject.decode_cbor_length")
    decoders = {dcl.name: dcl}
    body_ = [st_ for st_ in dcl.node.body if not (isinstance(st_, ast.Expr) and isinstance(st_.value, ast.Constant))]
    if len(body_) == 1 and isinstance(body_[0], ast.Return) and isinstance(body_[0].value, ast.Call):
        r_ = repo.resolve_expr(dcl.module, body_[0].value.func)
        if r_ and r_[0] == "func":
            decoders[r_[1].name] = r_[1]
    ev_va = Evaluator(repo, inline_depth=0)
    ev_va.never_inline = {f_.fq for f_ in decoders.values()}
    vouts = ev_va.outcomes(va)
    params = [a.arg for a in va.node.args.args if a.arg not in ("cls", "self")]
    params = generic.sole_outcome(ctx, params, "validate_cbor: expected one data parameter")
    P = Sym("param:" + params[0])
    LEN = App("len", (P,))
    raises = [o for o in vouts if o.kind == "raise" and _raises_allowed(o)]

    def holds(o, env):
        try:
            return all(bool(teval(c, env)) for c in o.conds)
        except (Unknown, Raised):
            return None
    # scenario A: empty input
    a_ok = any(holds(o, {P: b"", LEN: 0}) is True for o in raises)
    R.check("C17-D4b length pre-validation", a_ok, "empty input", mod=va.module, node=va.node, function=ctx.fq(va),
            expected="len(cbstr) == 0 -> ValueError", found="no ValueError outcome is selected by the empty input")
    # scenario B: a header declaring more bytes than present / scenario C: exactly as many as present (must pass)
    dec = [s for o in vouts for c in o.conds for s in subterms(c) if isinstance(s, App) and s.op == "call" and isinstance(s.args[0], Ref)
           and getattr(s.args[0].obj, "name", "") in decoders]
    if not dec:
        raise AnalysisError("validate_cbor: the declared length is not obtained from decode_cbor_length (unrecognised form)")
    excs = {s for o in vouts for c in o.conds for s in subterms(c) if isinstance(s, App) and s.op == "exc"}
    sample = b"\x5a\x00\x00\x10\x00"  # bstr, 4-byte length field
    envb = {P: sample, LEN: len(sample), **{d: 4096 for d in dec}, **{e: False for e in excs}}
    envc = {P: sample, LEN: len(sample), **{d: 3 for d in dec}, **{e: False for e in excs}}
    b_res = [holds(o, envb) for o in raises]
    c_res = [holds(o, envc) for o in vouts if o.kind == "raise"]
    if all(r is None for r in b_res):
        raise AnalysisError("validate_cbor: guards not evaluable under the length scenarios")
    R.check("C17-D4b length pre-validation", any(r is True for r in b_res) and not any(r is True for r in c_res), "declared length vs. input length",
            mod=va.module, node=va.node, function=ctx.fq(va), expected="declared length > len(cbstr) -> ValueError; a declared length within the input passes",
            found="the over-long header is accepted" if not any(r is True for r in b_res) else "a well-formed header is rejected")


def _helper_nodes(ctx, fi):
    """The function's own node plus the nodes of the helpers it calls that the rules have never seen (their statements count as written
    in the function, see Evaluator.is_new_helper)."""
    from sa.absint import _known_functions
    known = _known_functions()
    out = [fi.node]
    if known is None:
        return out
    called = {n.func.attr if isinstance(n.func, ast.Attribute) else n.func.id for n in ast.walk(fi.node)
              if isinstance(n, ast.Call) and isinstance(n.func, (ast.Attribute, ast.Name))}
    for g in ctx.repo.all_functions():
        if g is not fi and g.name in called and g.fq not in known and g.module is fi.module:
            out.append(g.node)
    return out


def _is_sharing_guard(ctx, fi) -> bool:
    """A function that walks list / mapping / tag containers and byte / text strings, remembers id() of each in an order-blind set
    and raises an allowed error when an identity is met again."""
    if not hasattr(fi, "node"):
        return False
    node = fi.node
    par = parents_of(node)
    ids = [n for n in ast.walk(node) if isinstance(n, ast.Call) and isinstance(n.func, ast.Name) and n.func.id == "id"]
    tested = False
    for c in ids:
        p = par.get(c)
        if isinstance(p, ast.Compare) and p.left is c and len(p.ops) == 1 and isinstance(p.ops[0], ast.In):
            q = par.get(p)
            if isinstance(q, ast.If) and q.test is p and q.body and isinstance(q.body[-1], ast.Raise):
                exc = q.body[-1].exc
                name = ast.unparse(exc.func if isinstance(exc, ast.Call) else exc) if exc is not None else ""
                if allowed(name.split(".")[-1]):
                    tested = True
    kinds = set()

    def positive_tests(t, has_else):
        """isinstance calls that select a branch of their own: positively, or negated when the statement has both branches"""
        if isinstance(t, ast.BoolOp):
            for v in t.values:
                yield from positive_tests(v, has_else)
        elif isinstance(t, ast.UnaryOp) and isinstance(t.op, ast.Not) and has_else:
            yield from positive_tests(t.operand, has_else)
        elif isinstance(t, ast.Call):
            yield t
        elif isinstance(t, ast.Name):
            # a test computed once into a local (is_string = isinstance(item, (bytes, str))) and used as a branch condition
            defs = [a_ for a_ in ast.walk(node) if isinstance(a_, ast.Assign) and len(a_.targets) == 1 and isinstance(a_.targets[0], ast.Name)
                    and a_.targets[0].id == t.id]
            if len(defs) == 1:
                yield from positive_tests(defs[0].value, has_else)
    branch_tests = [c for hn in _helper_nodes(ctx, fi) for n in ast.walk(hn) if isinstance(n, ast.If) for c in positive_tests(n.test, bool(n.orelse))]
    for n in branch_tests:
        if isinstance(n, ast.Call) and isinstance(n.func, ast.Name) and n.func.id == "isinstance" and len(n.args) == 2:
            for x in ast.walk(n.args[1]):
                if isinstance(x, ast.Name):
                    kinds.add(x.id)
                elif isinstance(x, ast.Attribute):
                    kinds.add(x.attr)
    # maps: cbor2 >= 6 decodes a map inside a tag (everything below the tag-107 envelope) as frozendict, which is a Mapping but not a
    # dict (library fact re-derived by the thorough tier): a test for dict alone walks nothing below the envelope tag
    maps_ok = "Mapping" in kinds or {"dict", "frozendict"} <= kinds
    covers = "list" in kinds and maps_ok and "CBORTag" in kinds and "bytes" in kinds and "str" in kinds
    loops = any(isinstance(n, (ast.While, ast.For)) for n in ast.walk(node)) or any(
        isinstance(n, ast.Call) and isinstance(n.func, (ast.Name, ast.Attribute)) and ast.unparse(n.func).split(".")[-1] == fi.name for n in ast.walk(node))
    if not bool(tested and covers and loops):
        return False
    # ... and the items that can be shared are really remembered: evaluated on sample items (a rule on the tests alone cannot see a
    # `continue` that drops a kind after it was classified).  None = not evaluable: the structural verdict stands
    tracked = _tracked_kinds(ctx, fi)
    if tracked is not None and tracked:
        ctx.report.info(f"sharing guard {fi.qualname}: items of these kinds are walked but never remembered: {tracked}")
        return False
    return True


def _tracked_kinds(ctx, fi):
    """Kinds of shareable items (text / byte strings longer than one element, non-empty list / tuple / map, tag) for which the walk does
    NOT reach `seen.add(id(item))`: [] when all are remembered, None when the walk cannot be evaluated on samples."""
    from sa.teval import teval, Unknown
    try:
        outs = Evaluator(ctx.repo, inline_depth=0).outcomes(fi)
    except AnalysisError:
        return None
    from sa.teval import CBORTag as _Tag
    samples = {"text string": "ab", "byte string": b"ab", "list": [1], "tuple": (1,), "map": {1: 2}, "tag": _Tag(5, 1)}

    def is_add(e):
        return isinstance(e, App) and e.op == "eff:call" and isinstance(e.args[0], App) and e.args[0].op == "meth:add" and len(e.args[0].args) == 2 \
            and isinstance(e.args[0].args[1], App) and e.args[0].args[1].op == "call:id"

    def reaches(effs, env):
        """True: the add is reached; False: the path is blocked / ends before; raises Unknown"""
        for e in effs:
            if not isinstance(e, App):
                continue
            if is_add(e):
                return True
            if e.op == "eff:assume":
                if not teval(e.args[0], env):
                    return False
            elif e.op == "eff:if":
                branch = e.args[1].args if teval(e.args[0], env) else e.args[2].args
                r = reaches(branch, env)
                if r:
                    return True
            elif e.op == "eff:alts":
                if any(reaches(alt.args, env) for alt in e.args):
                    return True
            elif e.op in ("eff:loop",):
                if reaches(e.args[1].args, env):
                    return True
            elif e.op == "eff:partial":
                if reaches(e.args[0].args, env):
                    return True
        return False
    adds = [e for o in outs for e in all_effects(o.effects) if is_add(e)]
    if not adds:
        return None
    item = adds[0].args[0].args[1].args[0]
    seen = adds[0].args[0].args[0]
    missing = []
    try:
        for kind, smp in samples.items():
            env = {item: smp, seen: set()}
            if not any(reaches(o.effects, env) for o in outs if o.kind == "return"):
                missing.append(kind)
    except Unknown:
        return None
    except Exception:
        return None
    return missing


def _refuses_snan(ctx, fi) -> bool:
    """A function that walks list / mapping / tag containers (loop or recursion) and raises an allowed error for an item that is a
    Decimal and is_snan() / is_nan()."""
    if not hasattr(fi, "node"):
        return False
    node = fi.node
    refused = False
    for n in ast.walk(node):
        if not (isinstance(n, ast.If) and n.body and isinstance(n.body[-1], ast.Raise)):
            continue
        exc = n.body[-1].exc
        name = ast.unparse(exc.func if isinstance(exc, ast.Call) else exc) if exc is not None else ""
        if not allowed(name.split(".")[-1]):
            continue
        conj = n.test.values if isinstance(n.test, ast.BoolOp) and isinstance(n.test.op, ast.And) else [n.test]
        is_dec = [c for c in conj if isinstance(c, ast.Call) and isinstance(c.func, ast.Name) and c.func.id == "isinstance" and len(c.args) == 2
                  and any((isinstance(x, ast.Name) and x.id == "Decimal") or (isinstance(x, ast.Attribute) and x.attr == "Decimal") for x in ast.walk(c.args[1]))]
        nan = [c for c in conj if isinstance(c, ast.Call) and isinstance(c.func, ast.Attribute) and c.func.attr in ("is_snan", "is_nan") and not c.args]
        if is_dec and nan and len(conj) == len(is_dec) + len(nan) and all(ast.unparse(c.func.value) == ast.unparse(is_dec[0].args[0]) for c in nan):
            # ... and the test is reached for every item walked: it sits directly in the body of the walking loop (or of the function),
            # with no earlier statement of that body that can skip the rest (continue / break / return)
            for blk in ast.walk(node):
                if isinstance(blk, (ast.While, ast.For, ast.FunctionDef)) and any(x is n for x in blk.body):
                    before = blk.body[:[i for i, x in enumerate(blk.body) if x is n][0]]
                    if not any(isinstance(y, (ast.Continue, ast.Break, ast.Return)) for x in before for y in ast.walk(x)):
                        refused = True
    kinds = set()
    for n in [x_ for hn in _helper_nodes(ctx, fi) for x_ in ast.walk(hn)]:
        if isinstance(n, ast.Call) and isinstance(n.func, ast.Name) and n.func.id == "isinstance" and len(n.args) == 2:
            for x in ast.walk(n.args[1]):
                if isinstance(x, ast.Name):
                    kinds.add(x.id)
                elif isinstance(x, ast.Attribute):
                    kinds.add(x.attr)
    walks = "list" in kinds and ("Mapping" in kinds or {"dict", "frozendict"} <= kinds) and "CBORTag" in kinds and "tuple" in kinds
    loops = any(isinstance(n, (ast.While, ast.For)) for n in ast.walk(node)) or any(
        isinstance(n, ast.Call) and isinstance(n.func, (ast.Name, ast.Attribute)) and ast.unparse(n.func).split(".")[-1] == fi.name for n in ast.walk(node))
    return bool(refused and walks and loops)


def _is_progress(stmt) -> bool:
    """index += k / worklist.pop() / next(it) / data = data[n:] - the loop consumes something."""
    if isinstance(stmt, ast.AugAssign) and isinstance(stmt.op, (ast.Add, ast.Sub)) and isinstance(stmt.target, ast.Name):
        v = stmt.value
        return isinstance(v, ast.Constant) and isinstance(v.value, int) and v.value != 0 or not isinstance(v, ast.Constant)
    for n in ast.walk(stmt):
        if isinstance(n, ast.Call):
            if isinstance(n.func, ast.Attribute) and n.func.attr in ("pop", "popleft", "popitem", "read", "readline"):
                return True
            if isinstance(n.func, ast.Name) and n.func.id == "next":
                return True
    if isinstance(stmt, ast.Assign) and len(stmt.targets) == 1 and isinstance(stmt.targets[0], ast.Name) and isinstance(stmt.value, ast.Subscript) \
            and isinstance(stmt.value.value, ast.Name) and stmt.value.value.id == stmt.targets[0].id and isinstance(stmt.value.slice, ast.Slice):
        return True
    return False


def _loop_paths(stmts, progressed):
    """Abstract paths through a loop body: list of (how, progressed) with how in fall / continue / exit.  An exception inside a try
    body may happen before any progress statement of that body (conservative)."""
    states = [progressed]
    out = []
    for st in stmts:
        nxt = []
        for pg in states:
            if isinstance(st, ast.Continue):
                out.append(("continue", pg, st))
            elif isinstance(st, (ast.Break, ast.Return, ast.Raise)):
                out.append(("exit", pg, st))
            elif isinstance(st, ast.If):
                for how, p2, n in _loop_paths(st.body, pg) + _loop_paths(st.orelse, pg):
                    if how == "fall":
                        nxt.append(p2)
                    else:
                        out.append((how, p2, n))
            elif isinstance(st, ast.Try):
                body = _loop_paths(st.body, pg)
                for how, p2, n in body:
                    if how == "fall":
                        for h2, p3, n3 in _loop_paths(st.orelse, p2):
                            if h2 == "fall":
                                nxt.append(p3)
                            else:
                                out.append((h2, p3, n3))
                    else:
                        out.append((how, p2, n))
                for h in st.handlers:
                    for how, p2, n in _loop_paths(h.body, pg):  # exception before the body progressed
                        if how == "fall":
                            nxt.append(p2)
                        else:
                            out.append((how, p2, n))
            elif isinstance(st, (ast.With,)):
                for how, p2, n in _loop_paths(st.body, pg):
                    if how == "fall":
                        nxt.append(p2)
                    else:
                        out.append((how, p2, n))
            elif isinstance(st, (ast.For, ast.While)):
                nxt.append(pg)  # an inner loop may run zero times: no progress assumed; its break / continue are its own
            elif isinstance(st, ast.Match):
                for c in st.cases:
                    for how, p2, n in _loop_paths(c.body, pg):
                        if how == "fall":
                            nxt.append(p2)
                        else:
                            out.append((how, p2, n))
            else:
                nxt.append(pg or _is_progress(st))
        states = sorted(set(nxt))
        if not states:
            break
    out.extend(("fall", pg, None) for pg in states)
    return out


def loop_progress(ctx):
    """Every while loop of the parser consumes input (advances an index / pops a work item) on each path that goes round again."""
    R = ctx.report
    repo = ctx.repo
    R.rule("C17-D8 parser loops make progress", 1, "per while loop: no path reaches the next iteration without advancing")
    n = 0
    for m in repo.modules.values():
        if not m.name.startswith(PARSER_PREFIX):
            continue
        for f in m.functions.values():
            for w in walk_no_nested(f.node):
                if not isinstance(w, ast.While):
                    continue
                n += 1
                stuck = [(how, node) for how, pg, node in _loop_paths(w.body, False) if how in ("fall", "continue") and not pg]
                where = stuck[0][1] if stuck and stuck[0][1] is not None else w
                R.check("C17-D8 parser loops make progress", not stuck, f"{ctx.fq(f)}: while {ast.unparse(w.test)[:40]}", mod=m, node=where,
                        function=ctx.fq(f), expected="each path back to the loop head advances the index / consumes a work item",
                        found=f"a path ({'continue' if stuck and stuck[0][0] == 'continue' else 'end of body'} at line "
                              f"{getattr(where, 'lineno', '?')}) repeats the iteration with nothing consumed: the same element is retried forever"
                        if stuck else "", key_extra=f"while@{ast.unparse(w.test)[:30]}")


def recursion(ctx):
    """Cycles of from_cbor through the schema with no depth guard and no conversion of RecursionError."""
    R = ctx.report
    repo = ctx.repo
    S = ctx.schema
    R.rule("C17-D5 input-driven recursion", 1, "every cycle of the schema graph is bounded by a depth guard or converts RecursionError")
    graph = {}
    wrapped = {}
    for ci in S.reachable():
        mi = S.metadata_of(ci)
        succ = []
        if mi is not None:
            for c in mi.children or []:
                if isinstance(c, TypeRef) and c.cls is not None:
                    succ.append(c.cls)
                    wrapped[(ci.fq, c.cls.fq)] = max(wrapped.get((ci.fq, c.cls.fq), 0), c.wrap)
            for k, v in mi.map or []:
                if isinstance(k, TypeRef) and k.cls is not None:
                    succ.append(k.cls)
                if v.cls is not None:
                    succ.append(v.cls)
                    wrapped[(ci.fq, v.cls.fq)] = max(wrapped.get((ci.fq, v.cls.fq), 0), v.wrap)
        graph[ci.fq] = (ci, succ)
    # strongly connected components (Tarjan)
    index, low, stack, on, comps = {}, {}, [], set(), []
    counter = [0]

    def strong(v):
        index[v] = low[v] = counter[0]
        counter[0] += 1
        stack.append(v)
        on.add(v)
        for w in graph[v][1]:
            if w.fq not in graph:
                continue
            if w.fq not in index:
                strong(w.fq)
                low[v] = min(low[v], low[w.fq])
            elif w.fq in on:
                low[v] = min(low[v], index[w.fq])
        if low[v] == index[v]:
            comp = []
            while True:
                w = stack.pop()
                on.discard(w)
                comp.append(w)
                if w == v:
                    break
            comps.append(comp)

    import sys
    sys.setrecursionlimit(5000)
    for v in graph:
        if v not in index:
            strong(v)
    cyclic = [c for c in comps if len(c) > 1 or any(w.fq == c[0] for w in graph[c[0]][1])]
    # a guard: any from_cbor / deserialize_cbor mentioning RecursionError or a depth parameter
    guard = False
    for m in repo.modules.values():
        if m.name.startswith(PARSER_PREFIX):
            if "RecursionError" in m.source or "max_depth" in m.source or "_depth" in m.source:
                guard = True
    if not cyclic:
        R.ok("C17-D5 input-driven recursion", "schema graph is acyclic")
    for comp in sorted(cyclic, key=lambda c: sorted(c)):
        names = sorted(graph[v][0].name for v in comp)
        anchor = graph[sorted(comp)[0]][0]
        # a cycle without any byte-string-wrapped edge is decoded by ONE cbor2.loads call: its nesting is bounded by the
        # decoder's container depth limit (library fact: cbor2 max_depth, converted to ValueError by deserialize_cbor)
        opaque = any(wrapped.get((a, b), 0) > 0 for a in comp for b in comp)
        if not opaque:
            R.ok("C17-D5 input-driven recursion", f"cycle through {names}: no wrapped edge, bounded by the decoder's nesting limit")
            R.info(f"cycle {names} has no bstr-wrapped edge: nesting bounded by the decoder's container depth limit")
            continue
        R.check("C17-D5 input-driven recursion", guard, f"cycle through {names}", mod=anchor.module, node=anchor.node, function=anchor.fq,
                construct="cycle|" + "|".join(names), expected="nesting depth bounded, or RecursionError converted to ValueError",
                found="from_cbor recurses once per nesting level of the input with no depth guard: a few hundred nested "
                      "sequences raise RecursionError")


def entry_points(ctx):
    R = ctx.report
    repo = ctx.repo
    R.rule("C17-D6 entry points hand bytes to the parser", 2, "file readers open in binary mode and pass the whole content")
    for q in ("InputOutputMixin.from_suit_file", "InputOutputMixin.from_suit_file_simplified"):
        f = repo.func("suit_generator.input_output", q)
        fouts = [o for o in Evaluator(repo, inline_depth=0).outcomes(f) if o.kind == "return"]
        whole = App("filebytes", (Sym("param:file_name"),))
        ok = bool(fouts)
        for o in fouts:
            parses = [e.args[0] for e in o.effects if isinstance(e, App) and e.op == "eff:call" and isinstance(e.args[0], App) and e.args[0].op == "call"
                      and isinstance(e.args[0].args[0], Ref) and getattr(e.args[0].args[0].obj, "name", "") == "from_cbor"]
            opens = [e for e in o.effects if isinstance(e, App) and e.op == "eff:open"]
            ok = ok and len(parses) == 1 and parses[0].args[-1] == whole and all(e.args[1] == Const("rb") for e in opens)
        R.check("C17-D6 entry points hand bytes to the parser", ok,
                ctx.fq(f), mod=f.module, node=f.node, function=ctx.fq(f), expected="open(file_name, 'rb'); from_cbor(<whole content>)", found="not recognised")
