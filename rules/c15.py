"""C15 — generated key pairs match and convert emits the exact public key (structure)."""
from __future__ import annotations

import ast

from sa.absint import Evaluator, all_effects
from sa.index import AnalysisError, walk_no_nested
from sa.teval import Unknown, teval
from sa.terms import App, Const, Ref, Sym, cases, cat_parts, dict_pairs, subterms
from . import argname, generic

EXPLANATION = ("abstract evaluation of the public-key extractor: the two coordinate widths must be one expression that is "
               "independent of the coordinate values and gives 32/48/66 for the three curves; non-interference of the layout "
               "options with the key bytes; row splitting and formatting cover every byte once in order; key generation call "
               "checked against the installed library's calling convention (curve instance) and the CLI choice tables; "
               "no repository code executed")

CONV = "suit_generator.cmd_convert"
KEYS = "suit_generator.cmd_keys"
P = lambda n: Sym("param:" + n)
SELF = P("self")
WIDTHS = {256: 32, 384: 48, 521: 66}



def _row_helper_rules(ctx, ev):
    """Proof rules over the three row helpers (split / format bytes / format row) - the fallback when the pipeline cannot be evaluated."""
    R, repo = ctx.report, ctx.repo
    sp = repo.func(CONV, "KeyConverter._split_bytes_per_row")
    so = [o for o in ev.outcomes(sp) if o.kind == "return"]
    d = P("data")
    cols = App("attr:_columns_count", (SELF,))
    rng = App("call:range", (Const(0), App("len", (d,)), cols))
    i = App("elem", (rng,))
    want = App("comp:list", (App("slice", (d, i, App("+", (i, cols)), Const(None))), rng, App("conds", ())))
    R.check("C15-D2b formatting covers every byte once", len(so) == 1 and so[0].value == want, "row split", mod=sp.module, node=sp.node,
            function=ctx.fq(sp), expected="[data[i:i+columns] for i in range(0, len(data), columns)]", found=repr(so[0].value)[:240] if so else "?")
    fr = repo.func(CONV, "KeyConverter._format_row_of_bytes")
    fro = [o for o in ev.outcomes(fr) if o.kind == "return"]

    def flat_cat(t):
        if isinstance(t, App) and t.op in ("cat", "+"):
            out = []
            for x in t.args:
                out += flat_cat(x)
            return out
        return [t]

    def loop_acc(v):
        """loopout(_, _, <acc>) -> the pieces appended per iteration (accumulator itself removed), or None"""
        if not (isinstance(v, App) and v.op == "loopout"):
            return None
        parts = flat_cat(v.args[2])
        if not (parts and isinstance(parts[0], App) and parts[0].op == "loopvar" and parts[0].args[2] == Const("")):
            return None
        return parts[1:]
    def loops_of(o_):
        """{line: (iterable, name of the iterated variable)} and the loop-carried values of an outcome, for teval"""
        loops, louts = {}, {}
        for e_ in o_.effects:
            if isinstance(e_, App) and e_.op == "eff:loop" and getattr(e_.node, "lineno", None) is not None:
                loops[e_.node.lineno] = (e_.args[0], e_.node.iter.id if isinstance(e_.node, ast.For) and isinstance(e_.node.iter, ast.Name) else None)
        for s_ in subterms(o_.value):
            if isinstance(s_, App) and s_.op == "loopout" and len(s_.args) == 3:
                louts.setdefault(s_.args[1].v, {})[s_.args[0].v] = s_.args[2]
        return {"__loops__": loops, "__loopouts__": louts}

    # decided by evaluating the returned term on sample rows (whatever the way the text is accumulated); the shape rule is the fallback
    ok, found_ = False, "format not recognised"
    if len(fro) == 1:
        try:
            ok = True
            for sample in (b"", b"\x00", b"\x01\xab\xff", bytes(range(250, 256)) + bytes(range(0, 20))):
                got = teval(fro[0].value, {"param:data": sample, **loops_of(fro[0])})
                want_ = "".join("0x%02x, " % b for b in sample)
                if got != want_:
                    ok, found_ = False, f"{sample.hex()} -> {got!r}"
                    break
        except Unknown:
            pieces = loop_acc(fro[0].value)
            loops_ = [e for e in fro[0].effects if isinstance(e, App) and e.op == "eff:loop"]
            ok = False
            if pieces is not None and len(loops_) == 1 and loops_[0].args[0] == d and len(pieces) == 3:
                ok = pieces[0] == Const("0x") and pieces[2] == Const(", ") and isinstance(pieces[1], App) and pieces[1].op == "fmt" \
                    and pieces[1].args[0] == App("elem", (d,)) and isinstance(pieces[1].args[1], Const) and "02x" in str(pieces[1].args[1].v)
            found_ = repr(fro[0].value)[:200]
    R.check("C15-D2b formatting covers every byte once", ok, "each byte of the row, in order, as 0x%02x",
            mod=fr.module, node=fr.node, function=ctx.fq(fr), expected="'0x%02x, ' for every byte of the row, in order", found=found_)
    pa = repo.func(CONV, "KeyConverter._prepare_array")
    pao = [o for o in ev.outcomes(pa) if o.kind == "return"]
    ok, found_ = False, "shape not recognised"
    if len(pao) == 1:
        def fcall(name, *args):
            return App("call", (Ref("func", repo.func(CONV, "KeyConverter." + name)), SELF) + tuple(args))
        SPLIT = fcall("_split_bytes_per_row", fcall("_get_public_key_data"))
        try:
            ok = True
            for key in (b"", b"A", b"ABC", b"ABCDEFG"):
                stand_ins = {"_get_public_key_data": lambda s_: key, "_split_bytes_per_row": lambda s_, d_: [d_[i_:i_ + 3] for i_ in range(0, len(d_), 3)],
                             "_format_row": lambda s_, r_: "  <" + r_.hex() + ">,"}
                got = teval(pao[0].value, {"__calls__": stand_ins, **loops_of(pao[0])})
                rows_ = stand_ins["_split_bytes_per_row"](None, key)
                want_ = "".join(stand_ins["_format_row"](None, r_) + "\n" for r_ in rows_)[:-2] + "\n"
                if got != want_:
                    ok, found_ = False, f"rows {rows_} -> {got!r}"
                    break
        except Unknown:
            ok = False
            parts = flat_cat(pao[0].value)
            # <all rows>[:-2] + newline
            if len(parts) == 2 and parts[1] == Const("\n") and isinstance(parts[0], App) and parts[0].op == "slice" \
                    and parts[0].args[1:] == (Const(None), Const(-2), Const(None)):
                pieces = loop_acc(parts[0].args[0])
                loops_ = [e for e in pao[0].effects if isinstance(e, App) and e.op == "eff:loop"]
                ok = pieces == [fcall("_format_row", App("elem", (SPLIT,))), Const("\n")] and len(loops_) == 1 and loops_[0].args[0] == SPLIT
            found_ = repr(pao[0].value)[:240]
    R.check("C15-D2b formatting covers every byte once", ok, "every row of the public key data is emitted; only the trailing ', ' -> ',\\n' of the last row is removed",
            mod=pa.module, node=pa.node, function=ctx.fq(pa), expected="for row in split(data): text += format(row) + newline; text = text[:-2] + newline",
            found=found_)
    frow = repo.func(CONV, "KeyConverter._format_row")
    fo = [o for o in ev.outcomes(frow) if o.kind == "return"]
    R.check("C15-D2b formatting covers every byte once", bool(fo) and "meth:strip" in repr(fo[0].value) and "_indentation" in repr(fo[0].value),
            "indentation prefixes the row; strip() removes only the trailing blank", mod=frow.module, node=frow.node, function=ctx.fq(frow),
            expected="self._indentation + row_text.strip()", found=repr(fo[0].value)[:200] if fo else "?")

def run(ctx):
    R = ctx.report
    generic.cli_converters(ctx, "C15-D2c CLI converters", "suit_generator.cmd_convert", 2)
    repo = ctx.repo
    ctx.use_files("suit_generator/cmd_convert.py", "suit_generator/cmd_keys.py")
    convert_rules(ctx)
    keys_rules(ctx)


def keys_unused(ctx):
    return None


def convert_rules(ctx):
    R = ctx.report
    repo = ctx.repo
    ev = Evaluator(repo, inline_depth=0)
    fi = repo.func(CONV, "KeyConverter._get_public_key_data")
    fq = ctx.fq(fi)
    outs = [o for o in ev.outcomes(fi) if o.kind == "return"]
    if not outs:
        raise AnalysisError(f"{fq}: no normal outcome")
    # the alternatives of the key bytes: over the normal exits (a return inside the handler is an exit of its own) and over the
    # conditional values of each
    alts = []
    for o_ in outs:
        for g_, t_ in cases(o_.value):
            g2 = dict(g_)
            g2.update({c_: True for c_ in o_.conds})
            alts.append((g2, t_))
    xy = [(g, t) for g, t in alts if len([p for p in cat_parts(t) if isinstance(p, App) and p.op == "meth:to_bytes"]) == 2]
    raw = [(g, t) for g, t in alts if isinstance(t, App) and t.op == "meth:public_bytes"]
    # decided by evaluating the key bytes of the alternative that reads the public numbers on sample coordinates of the three curve
    # sizes (leading zero bytes, top bit, all ones): exactly X||Y, each ceil(size / 8) bytes, big endian - however it is assembled
    ec = [(g, t) for g, t in alts if any(isinstance(s_, App) and s_.op == "meth:public_numbers" for s_ in subterms(t))]
    grid_decided, grid_bad, grid_n = False, None, 0
    if len(ec) == 1:
        t_ec = ec[0][1]
        xs_ = {s_ for s_ in subterms(t_ec) if isinstance(s_, App) and s_.op == "attr:x"}
        ys_ = {s_ for s_ in subterms(t_ec) if isinstance(s_, App) and s_.op == "attr:y"}
        ks_ = {s_ for s_ in subterms(t_ec) if isinstance(s_, App) and s_.op == "attr:key_size"}
        try:
            for size_ in (256, 384, 521):
                w_ = (size_ + 7) // 8
                top_ = (1 << size_) - 1
                for x_, y_ in ((1, 2), (top_, top_), (top_ >> 9, top_), (top_, 0x04), (0x0400 << (size_ - 16), top_ >> 1), (0, 0),
                               (int.from_bytes(bytes(range(1, w_ + 1)), "big") & top_, int.from_bytes(bytes(range(200, 200 - w_, -1)), "big") & top_)):
                    env = {**{s_: x_ for s_ in xs_}, **{s_: y_ for s_ in ys_}, **{s_: size_ for s_ in ks_}, **generic.loops_env(outs[0], t_ec)}
                    got = teval(t_ec, env)
                    grid_n += 1
                    if bytes(got) != x_.to_bytes(w_, "big") + y_.to_bytes(w_, "big") and grid_bad is None:
                        grid_bad = f"P-{size_}, x = {x_:#x}"[:60] + f": {len(got)} bytes {bytes(got).hex()[:40]}..."
            grid_decided = True
        except (Unknown, TypeError, ValueError, OverflowError):
            grid_decided = False
    if grid_decided:
        R.rule("C15-D1g X||Y on sample coordinates", 1, "key bytes = X then Y, each ceil(curve size / 8) bytes, big endian, for coordinates with leading zero bytes too")
        R.check("C15-D1g X||Y on sample coordinates", grid_bad is None, f"{grid_n} sample points on P-256 / P-384 / P-521", mod=fi.module, node=fi.node,
                function=fq, expected="x.to_bytes(w, 'big') + y.to_bytes(w, 'big'), w = 32 / 48 / 66", found=grid_bad or "")
    pk = [s for _g, t_ in alts for s in subterms(t_) if isinstance(s, App) and s.op.endswith("load_pem_private_key")]
    if not pk:
        raise AnalysisError(f"{fq}: key loading not recognised")
    key = pk[0]
    if grid_decided and len(xy) != 1:
        R.infos.append("X||Y not assembled from two to_bytes conversions: the width / order proof rules do not apply; decided on sample coordinates (C15-D1g)")
    else:
        import contextlib
        with (R.lenient("decided by evaluating the key bytes on sample coordinates (C15-D1g)") if grid_decided else contextlib.nullcontext()):
            r_ = _xy_shape_rules(ctx, fi, fq, alts, xy, key)
        if r_ == "x962":
            return keys_unused(ctx)
    _after_xy(ctx, fi, fq, outs, alts, raw, key)


def _xy_shape_rules(ctx, fi, fq, alts, xy, key):
    """Proof form of C15-D1: X||Y assembled from two to_bytes conversions of one curve-derived width (or the X9.62 point)."""
    R = ctx.report
    R.rule("C15-D1 fixed-width X||Y", 5, "both widths one expression, independent of the coordinate values, 32/48/66 by curve, big endian, X then Y")
    if len(xy) != 1:
        # the other sound form: the X9.62 uncompressed point 04 || X || Y with exactly the first byte removed by position
        x962 = []
        for g, t in alts:
            pbs = [s_ for s_ in subterms(t) if isinstance(s_, App) and s_.op == "meth:public_bytes" and "X962" in repr(s_)]
            if pbs:
                x962.append((t, pbs[0]))
        if x962:
            R.rule("C15-D1 fixed-width X||Y", 1, "X9.62 uncompressed point with the leading 04 removed by position")
            for t, pb in x962:
                good = t == App("slice", (pb, Const(1), Const(None), Const(None))) and "UncompressedPoint" in repr(pb)
                R.check("C15-D1 fixed-width X||Y", good, "X||Y = uncompressed point without its first byte", mod=fi.module, node=fi.node, function=fq,
                        expected="public_bytes(X962, UncompressedPoint)[1:] - exactly one byte removed, whatever the coordinates are",
                        found=f"{t!r}"[:200] + " (a value-dependent strip removes coordinate bytes equal to 0x04 as well)")
            return "x962"
        raise AnalysisError(f"{fq}: X||Y form not recognised ({len(xy)})")
    g, t = xy[0]
    tb = [p for p in cat_parts(t) if isinstance(p, App) and p.op == "meth:to_bytes"]
    nums = App("meth:public_numbers", (App("meth:public_key", (key,)),))
    X, Y = App("attr:x", (nums,)), App("attr:y", (nums,))
    R.check("C15-D1 fixed-width X||Y", len(cat_parts(t)) == 2 and tb[0].args[0] == X and tb[1].args[0] == Y, "X then Y of the key's public numbers",
            mod=fi.module, node=fi.node, function=fq, expected="x.to_bytes(...) + y.to_bytes(...)", found=repr(t)[:240])
    wx, wy = tb[0].args[1], tb[1].args[1]
    dep = [s for w in (wx, wy) for s in subterms(w) if s in (X, Y) or (isinstance(s, App) and s.op == "meth:bit_length")]
    node = None
    for n in ast.walk(fi.node):
        if isinstance(n, ast.Call) and isinstance(n.func, ast.Attribute) and n.func.attr == "bit_length":
            node = n
    R.check("C15-D1 fixed-width X||Y", not dep, "the width does not depend on the coordinate value", mod=fi.module, node=node or fi.node,
            function=fq, expected="width derived from the curve (key size), e.g. (curve.key_size + 7) // 8",
            found=f"width depends on {dep[:1]!r}: a coordinate with a leading zero byte is emitted short"[:260])
    R.check("C15-D1 fixed-width X||Y", wx == wy or not dep and _same_value(wx, wy), "both coordinates use the same width", mod=fi.module,
            node=fi.node, function=fq, expected="one width", found=f"{wx!r} / {wy!r}"[:240])
    if not dep:
        got = {}
        ok = True
        for size, want in WIDTHS.items():
            env = {}
            for s in subterms(wx):
                if isinstance(s, App) and s.op == "attr:key_size":
                    env[s] = size
            try:
                got[size] = teval(wx, env)
            except Unknown as e:
                got[size] = f"? {e}"
            ok = ok and got[size] == want
        R.check("C15-D1 fixed-width X||Y", ok, "width = ceil(curve size / 8): 32 / 48 / 66", mod=fi.module, node=fi.node, function=fq,
                expected=f"{WIDTHS}", found=f"{got}")
    R.check("C15-D1 fixed-width X||Y", all(len(x.args) > 2 and x.args[2] == Const("big") for x in tb), "big endian", mod=fi.module,
            node=fi.node, function=fq, expected="byteorder='big'", found=f"{[x.args[2:] for x in tb]}")


def _after_xy(ctx, fi, fq, outs, alts, raw, key):
    R, repo = ctx.report, ctx.repo
    ev = Evaluator(repo, inline_depth=0)
    R.rule("C15-D1b raw EdDSA key", 2, "keys without public numbers fall back to the raw public bytes")
    ok = len(raw) == 1 and raw[0][1].args[0] == App("meth:public_key", (key,))
    R.check("C15-D1b raw EdDSA key", ok and "Raw" in repr(raw[0][1]), "public_bytes(Raw, Raw) of the same key", mod=fi.module, node=fi.node,
            function=fq, expected="private_key.public_key().public_bytes(Raw, Raw)", found=repr(raw)[:240])
    R.check("C15-D1b raw EdDSA key", any("AttributeError" in repr(k) for k in (raw[0][0] if raw else {})), "fallback only when the key has no coordinates",
            mod=fi.module, node=fi.node, function=fq, expected="except AttributeError", found=f"{list(raw[0][0]) if raw else None}"[:200])

    # ---- D2 non-interference
    R.rule("C15-D2a key bytes depend on the key file only", 2, "no layout option reaches the key bytes; the key is the whole input file, no password")
    attrs = {s.op for o_ in outs for s in subterms(o_.value) if isinstance(s, App) and s.op.startswith("attr:") and s.args and s.args[0] == SELF}
    R.check("C15-D2a key bytes depend on the key file only", attrs <= {"attr:_input_file"}, "attributes of the converter read by the extractor",
            mod=fi.module, node=fi.node, function=fq, expected="only _input_file", found=f"{sorted(attrs)}")
    kw = {a.args[0].v: a.args[1] for a in key.args if isinstance(a, App) and a.op == "kw"}
    data = kw.get("data", key.args[0] if key.args and not (isinstance(key.args[0], App) and key.args[0].op == "kw") else None)
    R.check("C15-D2a key bytes depend on the key file only", data == App("filebytes", (App("attr:_input_file", (SELF,)),)),
            "key loaded from the whole binary content of the input file", mod=fi.module, node=fi.node, function=fq,
            expected="load_pem_private_key(open(input_file, 'rb').read(), None)", found=repr(data)[:160])

    R.rule("C15-D2b formatting covers every byte once", 2, "the array text of the whole pipeline = every byte once, in order, as 0x%02x, rows of <columns> bytes, no comma after the last; length = sizeof(array)")
    # decided by evaluating the array text - private helpers of the class followed, the key bytes a stand-in - on sample keys, row
    # widths and indentations, whatever way rows are split, formatted and joined
    pa = repo.func(CONV, "KeyConverter._prepare_array")
    evp = Evaluator(repo, inline_depth=4, inline_filter=lambda f: f.cls is pa.cls and f.name.startswith("_") and not f.name.startswith("__")
                    and f.name != "_get_public_key_data")
    ppo = [o for o in evp.outcomes(pa) if o.kind == "return"]
    pipeline_decided, bad_ = False, None
    # the converter's state for a sample of options: every attribute the constructor stores, evaluated from the constructor's own
    # stores (whatever the private attributes are called; the constructor's parameters are the public names)
    init_ = repo.func(CONV, "KeyConverter.__init__")
    iouts_ = [o_ for o_ in Evaluator(repo, inline_depth=0).outcomes(init_) if o_.kind == "return"]
    istores = [(e_.args[0], e_.args[1].v, e_.args[2]) for e_ in (iouts_[0].effects if len(iouts_) == 1 else ())
               if isinstance(e_, App) and e_.op == "eff:setattr" and isinstance(e_.args[1], Const)]

    def state(cols_, ind_):
        pe = {"param:columns_count": cols_, "param:indentation_count": len(ind_), "param:indentation_tab": False}
        st_ = {}
        for obj_, attr_, term_ in istores:
            if obj_ != SELF:
                continue
            try:
                st_[App("attr:" + attr_, (SELF,))] = teval(term_, {**pe, **st_})
            except Unknown:
                pass
        st_.setdefault(App("attr:_columns_count", (SELF,)), cols_)
        st_.setdefault(App("attr:_indentation", (SELF,)), ind_)
        return st_
    if len(ppo) == 1:
        try:
            n_ = 0
            for key in (b"", b"A", b"ABC", b"ABCDEFG", bytes(range(250, 256)) + bytes(range(0, 27))):
                for cols_ in (1, 3, 8):
                    for ind_ in ("", "    "):
                        env = {"__calls__": {"_get_public_key_data": lambda s_, k_=key: k_}, **state(cols_, ind_), **generic.loops_env(ppo[0])}
                        got = teval(ppo[0].value, env)
                        rows_ = [key[i_:i_ + cols_] for i_ in range(0, len(key), cols_)]
                        want_ = ",\n".join(ind_ + ", ".join("0x%02x" % b_ for b_ in r_) for r_ in rows_) + "\n"
                        n_ += 1
                        if got != want_ and bad_ is None:
                            bad_ = f"key {key.hex()} columns {cols_}: {got!r}"
            pipeline_decided = True
        except Unknown:
            pipeline_decided = False
    if pipeline_decided:
        R.check("C15-D2b formatting covers every byte once", bad_ is None, f"array text of {n_} sample keys / widths / indentations",
                mod=pa.module, node=pa.node, function=ctx.fq(pa), expected="rows of <columns> bytes '0x%02x, ', indentation in front, ',\\n' between rows, '\\n' at the end",
                found=bad_ or "")
    helpers_present = all(repo.find_func(CONV, "KeyConverter." + h_) for h_ in ("_split_bytes_per_row", "_format_row_of_bytes", "_format_row"))
    if not pipeline_decided and not helpers_present:
        raise AnalysisError(f"{ctx.fq(pa)}: the array text can neither be evaluated on samples nor taken apart into the known helpers")
    if helpers_present:
        import contextlib
        with (R.lenient("decided by evaluating the array text on sample keys (C15-D2b)") if pipeline_decided else contextlib.nullcontext()):
            _row_helper_rules(ctx, ev)
    lv = repo.func(CONV, "KeyConverter._prepare_length_variable")
    av = repo.func(CONV, "KeyConverter._prepare_array_variable")
    NAME = App("attr:_array_name", (SELF,))

    def atoms(t):
        if isinstance(t, App) and t.op in ("cat", "+"):
            out = []
            for x in t.args:
                out += atoms(x)
            return out
        if isinstance(t, App) and t.op in ("str", "call:str") and len(t.args) == 1 and isinstance(t.args[0], App) and t.args[0].op in ("cat", "+", "phi"):
            return atoms(t.args[0])
        return [t]

    def follows(fi_, marker, before):
        """in every non-empty alternative of the returned text, the array name stands right after (before=False) / before the marker"""
        seen_, ok_ = 0, True
        for o_ in ev.outcomes(fi_):
            if o_.kind != "return":
                continue
            for g_, t in cases(o_.value):
                at = atoms(t)
                for i_, a_ in enumerate(at):
                    if isinstance(a_, Const) and isinstance(a_.v, str) and marker in a_.v and not (a_.v.endswith(marker) if not before else a_.v.startswith(marker)):
                        seen_ += 1
                        ok_ = False  # the name next to the marker is a literal, not the configured array name
                    if isinstance(a_, Const) and isinstance(a_.v, str) and (a_.v.endswith(marker) if not before else a_.v.startswith(marker)):
                        seen_ += 1
                        nb = at[i_ + 1] if not before and i_ + 1 < len(at) else (at[i_ - 1] if before and i_ > 0 else None)
                        if nb not in (NAME, App("str", (NAME,))):
                            ok_ = False
        return seen_ > 0 and ok_
    R.check("C15-D2b formatting covers every byte once", follows(lv, "sizeof(", False) and follows(av, "[]", True),
            "length variable = sizeof(<the array defined above>)", mod=lv.module, node=lv.node, function=ctx.fq(lv),
            expected="sizeof(self._array_name) in every variant of the length line, the same name as in the definition",
            found="some variant of the length line measures another name")
    R.rule("C15-D2c CLI plumbing", 13, "main passes every option to the constructor parameter of the same name")
    n = argname.check_function(ctx, "C15-D2c CLI plumbing", repo.func(CONV, "main"))
    if n < 13:
        raise AnalysisError(f"cmd_convert.main: only {n} named bindings")
    init = repo.func(CONV, "KeyConverter.__init__")
    R.rule("C15-D2d constructor stores options under their own names", 10, "self._x = x for every option")
    for n_ in ast.walk(init.node):
        if isinstance(n_, ast.Assign) and isinstance(n_.targets[0], ast.Attribute) and isinstance(n_.value, ast.Name) \
                and n_.value.id in init.params():
            # a private attribute may be called anything - but not after ANOTHER option (a crossed store)
            other = n_.targets[0].attr.lstrip("_")
            crossed = other != n_.value.id and other in init.params()
            R.check("C15-D2d constructor stores options under their own names", not crossed,
                    f"self.{n_.targets[0].attr} = {n_.value.id}", mod=init.module, node=n_, function=ctx.fq(init),
                    expected=f"self._{n_.value.id} (or a name of its own)", found=f"self.{n_.targets[0].attr}: the attribute named after option {other!r} receives option {n_.value.id!r}")


def _same_value(a, b):
    return repr(a) == repr(b)


def keys_rules(ctx):
    R = ctx.report
    repo = ctx.repo
    ev0 = Evaluator(repo, inline_depth=0)
    kg = repo.cls(KEYS, "KeyGenerator")
    gp = kg.methods["generate_private_key"]
    fq = ctx.fq(gp)
    outs = ev0.outcomes(gp)
    R.rule("C15-D3a generator call conforms to the installed library", 1, "ec.generate_private_key receives a curve *instance*")
    calls = [s for o in outs if o.value is not None for s in subterms(o.value) if isinstance(s, App) and s.op.endswith("ec.generate_private_key")]
    if not calls:
        raise AnalysisError(f"{fq}: ec.generate_private_key call not recognised")
    table = ctx.ev.term(kg.attrs["supported_key_types"], kg.module)
    tvals = {k.v: v for k, v in (dict_pairs(table) or []) if isinstance(k, Const)}
    for c in calls[:1]:
        arg = c.args[0]
        # instance forms: Curve() literal call, or call(<table lookup>) when the table holds classes
        is_instance = False
        if isinstance(arg, App) and arg.op.startswith("call:") and arg.op.split(".")[-1][:4] in ("SECP", "SECT", "Brai"):
            is_instance = True
        if isinstance(arg, App) and arg.op == "call" and isinstance(arg.args[0], App) and arg.args[0].op == "idx":
            vals = [v for v in tvals.values() if not (isinstance(v, Const) and v.v is None)]
            is_instance = all(isinstance(v, Ref) and v.kind == "ext" for v in vals)
        if isinstance(arg, App) and arg.op == "idx":
            vals = [v for v in tvals.values() if not (isinstance(v, Const) and v.v is None)]
            is_instance = all(isinstance(v, App) and v.op.startswith("call:") for v in vals)
        R.check("C15-D3a generator call conforms to the installed library", is_instance, "curve argument", mod=gp.module, node=c.node,
                function=fq, expected="an EllipticCurve instance, e.g. supported_key_types[type]() (cryptography: 'curve must be an EllipticCurve instance')",
                found=f"{arg!r} with table values {[repr(v) for v in tvals.values()][:3]}"[:300])
    R.rule("C15-D3b key type dispatch", 5, "each supported type generates a key of that type")
    tp = Sym("param:" + [a_.arg for a_ in gp.node.args.args if a_.arg not in ("self", "cls")][0])
    for c in calls:
        alts_ = [t for g_, t in cases(c.args[0])]
        by_type = all(isinstance(t, App) and any(isinstance(s_, App) and s_.op == "idx" and s_.args[1] == tp for s_ in subterms(t))
                      and not any(isinstance(s_, App) and s_.op.startswith("attr:") and s_.op != "attr:supported_key_types" for s_ in subterms(t)) for t in alts_)
        R.check("C15-D3b key type dispatch", by_type, "the curve is looked up with the requested type in this call", mod=gp.module, node=c.node, function=fq,
                expected="supported_key_types[type]() - nothing remembered from an earlier call", found=f"{[repr(t)[:120] for t in alts_]}", key_extra="by-type")
    want = {"secp256r1": "SECP256R1", "secp384r1": "SECP384R1", "secp521r1": "SECP521R1"}
    for name, curve in want.items():
        v = tvals.get(name)
        R.check("C15-D3b key type dispatch", v is not None and repr(v).rstrip("()>").endswith(curve) or (isinstance(v, App) and v.op.endswith(curve)),
                f"{name} -> {curve}", mod=kg.module, node=kg.attr_nodes["supported_key_types"], function=kg.fq, expected=curve, found=repr(v), key_extra=name)
    ed = {}
    for o in outs:
        if o.kind == "return" and isinstance(o.value, App) and o.value.op.endswith(".generate"):
            for c in o.conds:
                if isinstance(c, App) and c.op == "==" and isinstance(c.args[1], Const):
                    ed[c.args[1].v] = o.value.op
    R.check("C15-D3b key type dispatch", "Ed25519PrivateKey.generate" in ed.get("ed25519", ""), "ed25519", mod=gp.module, node=gp.node, function=fq,
            expected="Ed25519PrivateKey.generate()", found=f"{ed.get('ed25519')}")
    R.check("C15-D3b key type dispatch", "Ed448PrivateKey.generate" in ed.get("ed448", ""), "ed448", mod=gp.module, node=gp.node, function=fq,
            expected="Ed448PrivateKey.generate()", found=f"{ed.get('ed448')}")
    R.rule("C15-D3c key pair belongs together and errors are reported", 5, "public = private.public_key(); both written with the requested encoding; ValueError -> GeneratorError")
    ck = kg.methods["create_key_pair"]
    co = ev0.outcomes(ck)
    rets = [o for o in co if o.kind == "return"]
    if not rets:
        raise AnalysisError("create_key_pair: no normal outcome")
    priv = App("call", (Ref("func", gp), SELF, P("key_type")))
    gens = [e for o in rets for e in all_effects(o.effects) if isinstance(e, App) and e.op == "eff:call" and e.args[0] == priv]
    R.check("C15-D3c key pair belongs together and errors are reported", len(gens) == len(rets), "exactly one key is generated per pair",
            mod=ck.module, node=ck.node, function=ctx.fq(ck), expected="one generate_private_key call", found=f"{len(gens)} calls on {len(rets)} path(s)")
    # the two files, as the evaluation of create_key_pair with its private writers followed shows them (whether the writing sits in
    # helpers or in the method itself): name, bytes, mode
    evw = Evaluator(repo, inline_depth=3, inline_filter=lambda f: f.module is ck.module and f is not ck and f is not gp and f.name.startswith("_")
                    and not f.name.startswith("__"))
    wrets = [o for o in evw.outcomes(ck) if o.kind == "return"]
    if not wrets:
        raise AnalysisError("create_key_pair: no normal outcome")
    writes = [e for e in all_effects(wrets[0].effects) if isinstance(e, App) and e.op == "eff:write"]
    okw = len(writes) == 2 and len(wrets) == 1
    foundw = f"{len(writes)} writes on {len(wrets)} normal path(s)"
    by_role = {}
    if okw:
        for prefix_ in ("out/key", "out/app.v2", "rel.dir/key.pem"):
            got_w = {}
            try:
                for e in writes:
                    fh = e.args[0]
                    name_ = teval(fh.args[0], {"param:file_name_prefix": prefix_, "param:encoding": "pem"})
                    got_w[str(name_)] = (e.args[1], fh.args[1])
            except Unknown as ex:
                raise AnalysisError(f"{ctx.fq(ck)}: file name of a key file not evaluable ({ex})")
            if set(got_w) != {f"{prefix_}_priv.pem", f"{prefix_}_pub.pem"} or any(v_[1] != Const("wb") for v_ in got_w.values()):
                okw = False
                foundw = f"prefix {prefix_!r}: { {k: repr(v[1]) for k, v in got_w.items()} }"[:300]
                break
            by_role = {"priv": got_w[f"{prefix_}_priv.pem"][0], "pub": got_w[f"{prefix_}_pub.pem"][0]}
    R.check("C15-D3c key pair belongs together and errors are reported", okw, "private -> <prefix>_priv.<enc>, public -> <prefix>_pub.<enc>",
            mod=ck.module, node=ck.node, function=ctx.fq(ck), expected="two binary writes named <prefix>_priv.<encoding> and <prefix>_pub.<encoding> (the extension appended to the prefix)",
            found=foundw)
    pb, ub = by_role.get("priv"), by_role.get("pub")
    ok = isinstance(pb, App) and pb.op == "meth:private_bytes" and pb.args[0] == priv \
        and isinstance(ub, App) and ub.op == "meth:public_bytes" and ub.args[0] == App("meth:public_key", (priv,))
    if ok:
        enc_ok = pb.args[1] == App("idx", (ctx.ev.term(kg.attrs["supported_encodings"], kg.module), P("encoding"))) == ub.args[1]
        R.check("C15-D3c key pair belongs together and errors are reported", enc_ok, "both halves use the requested encoding", mod=ck.module,
                node=ck.node, function=ctx.fq(ck), expected="supported_encodings[encoding] for private and public", found=repr([pb, ub])[:240])
        fmt_ok = pb.args[2] == App("idx", (ctx.ev.term(kg.attrs["supported_private_formats"], kg.module), P("private_format"))) \
            and ub.args[2] == App("idx", (ctx.ev.term(kg.attrs["supported_public_formats"], kg.module), P("public_format")))
        R.check("C15-D3c key pair belongs together and errors are reported", fmt_ok, "requested private/public formats", mod=ck.module, node=ck.node,
                function=ctx.fq(ck), expected="supported_private_formats[private_format] / supported_public_formats[public_format]", found=repr([pb, ub])[:240])
    R.check("C15-D3c key pair belongs together and errors are reported", ok, "public key derived from the generated private key; each written to its own file",
            mod=ck.module, node=ck.node, function=ctx.fq(ck), expected="_priv file <- private_bytes(key), _pub file <- public_bytes(key.public_key())",
            found=f"priv: {pb!r}; pub: {ub!r}"[:300])
    errs = [o for o in co if o.kind == "raise"]
    conv = {(_exc_cond(o), _exc(o)) for o in errs}
    R.check("C15-D3c key pair belongs together and errors are reported", ("ValueError", "GeneratorError") in conv, "unsupported combinations are reported as GeneratorError",
            mod=ck.module, node=ck.node, function=ctx.fq(ck), expected="except ValueError -> GeneratorError", found=f"{sorted(conv)}")
    # CLI choices are the tables' own keys
    R.rule("C15-D3d CLI choices", 5, "every choices= list is the key set of the table that is indexed")
    aa = repo.func(KEYS, "add_arguments")
    for f_, n, pos_, kws_, _recv in generic.cli_registrations(repo, repo.mod(KEYS)):
        if pos_ and isinstance(pos_[0], ast.Constant) and str(pos_[0].value).startswith("--") and "choices" in kws_:
            opt = pos_[0].value
            txt = ast.unparse(kws_["choices"])
            tbl = {"--type": "supported_key_types", "--encoding": "supported_encodings", "--private-format": "supported_private_formats",
                   "--public-format": "supported_public_formats", "--encryption": "supported_encryptions"}.get(opt)
            R.check("C15-D3d CLI choices", tbl is not None and txt in (f"KeyGenerator.{tbl}.keys()", f"KeyGenerator.{tbl}", f"list(KeyGenerator.{tbl})",
                                                                       f"list(KeyGenerator.{tbl}.keys())", f"tuple(KeyGenerator.{tbl})"),
                    opt, mod=aa.module, node=n, function=ctx.fq(aa), expected=f"KeyGenerator.{tbl}.keys()", found=txt, key_extra=opt)
    R.rule("C15-D3e CLI plumbing", 6, "main passes each option to the parameter it means")
    m = repo.func(KEYS, "main")
    call = [n for n in ast.walk(m.node) if isinstance(n, ast.Call) and isinstance(n.func, ast.Attribute) and n.func.attr == "create_key_pair"]
    got = [ast.unparse(a) for a in call[0].args] if call else []
    want = ["output_file", "type", "encoding", "private_format", "public_format", "encryption"]
    params = ck.params()[1:]
    for i, (g_, w_) in enumerate(zip(got, want)):
        R.check("C15-D3e CLI plumbing", g_ == w_ and params[i] in ("file_name_prefix", "key_type", w_), f"{w_} -> {params[i]}", mod=m.module,
                node=call[0], function=ctx.fq(m), expected=w_, found=g_, key_extra=w_)


def _exc(o):
    v = o.value
    if isinstance(v, App) and v.op == "new":
        return v.args[0].obj.name
    if isinstance(v, App) and v.op.startswith("call:"):
        return v.op.split(":")[-1]
    return "?"


def _exc_cond(o):
    for c in o.conds:
        if isinstance(c, App) and c.op == "exc":
            return c.args[0].v
    return None
