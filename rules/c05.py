"""C05 — digests, sizes and payloads taken from files describe those exact files (provenance)."""
from __future__ import annotations

import ast

from . import generic
from sa.absint import Evaluator, all_effects
from sa.index import AnalysisError
from sa.terms import App, Const, Ref, Sym, cases, subterms
from .c11 import _with_guards

EXPLANATION = ("provenance analysis of every value that create takes from an external artifact: for each reference form "
               "(file / file_direct / envelope / raw, hex / inline / path) the value stored or passed on is compared with the "
               "reference derivation over the recognised 'whole binary content' idiom (open(p,'rb').read()), the object's own "
               "algorithm and the branch's own path key; dependency embedding goes through the same refresh pipeline as "
               "stand-alone creation; classification order of the payload forms; no repository code executed")

SEC = "suit_generator.suit.security"
MAN = "suit_generator.suit.manifest"
PAY = "suit_generator.suit.payloads"
ENVM = "suit_generator.suit.envelope"
P = lambda n: Sym("param:" + n)
OBJ = P("obj")
ALG = App("idx", (OBJ, Const("suit-digest-algorithm-id")))
D = App("idx", (OBJ, Const("suit-digest-bytes")))
SET = Ref  # placeholder for readability


def guard_form(guards, container):
    """Which reference-form key is selected by the guards (``'k' in container.keys()`` true, earlier ones false)."""
    sel = None
    for g, pol in guards:
        if isinstance(g, App) and g.op == "in" and isinstance(g.args[0], Const) and pol \
                and g.args[1] in (App("meth:keys", (container,)), container):
            sel = g.args[0].v
    return sel


def run(ctx):
    R = ctx.report
    repo = ctx.repo
    ctx.use_files("suit_generator/suit/security.py", "suit_generator/suit/manifest.py", "suit_generator/suit/payloads.py",
                  "suit_generator/suit/envelope.py")
    digest_forms(ctx)
    size_forms(ctx)
    payload_forms(ctx)
    subenvelope(ctx)


def digest_forms(ctx):
    R = ctx.report
    repo = ctx.repo
    ev = Evaluator(repo, inline_depth=0)
    fi = repo.func(SEC, "SuitDigestExt.from_obj")
    fq = ctx.fq(fi)
    outs = ev.outcomes(fi)
    rets = [o for o in outs if o.kind == "return"]
    rets = generic.sole_outcome(ctx, rets, f"{fq}: expected one normal outcome")
    o = rets[0]
    stores = {}
    from sa.terms import top_cases
    for e, g in _with_guards(o.effects):
        if isinstance(e, App) and e.op == "eff:store" and e.args[0] == OBJ and e.args[1] == Const("suit-digest-bytes"):
            # one assignment per form under its guard, or one assignment of a value selected by the same guards: the same table
            for gv, alt in top_cases(e.args[2]):
                if isinstance(alt, App) and alt.op == "raises":
                    continue
                g2 = tuple(g) + tuple(gv.items())
                form = guard_form(g2, D)
                if form is None:
                    # the last alternative of a selection whose other way out raises: the key it reads, when the absence of that
                    # very key is what is rejected
                    read = {s_.args[1].v for s_ in subterms(alt) if isinstance(s_, App) and s_.op == "idx" and s_.args[0] == D
                            and isinstance(s_.args[1], Const)}
                    for k_ in read:
                        neg = [App("not", (App("in", (Const(k_), App("meth:keys", (D,)))),)), App("not", (App("in", (Const(k_), D)),)),
                               App("not in", (Const(k_), App("meth:keys", (D,)))), App("not in", (Const(k_), D))]
                        if len(read) == 1 and any(x.kind == "raise" and any(c in neg for c in x.conds) for x in outs):
                            form = k_
                stores.setdefault(form, []).append((App("eff:store", (e.args[0], e.args[1], alt), e.node), g2))
    R.rule("C05-D1a digest forms", 5, "file -> hash(own algorithm, whole file); file_direct -> file bytes as hex; envelope -> refreshed child, manifest digest under the parent's algorithm; raw -> identity")
    envcls = Ref("class", repo.cls(ENVM, "SuitEnvelopeTagged"))

    def one(form):
        lst = stores.get(form, [])
        if len(lst) != 1:
            R.fail("C05-D1a digest forms", f"{form}: one derivation", mod=fi.module, node=fi.node, function=fq,
                   expected=f"exactly one assignment for the {form!r} form", found=f"{len(lst)}", key_extra=str(form))
            return None
        return lst[0][0]

    e = one("file")
    if e is not None:
        want = App("call", (Ref("func", repo.func(SEC, "SuitHash.hash")), None, None))
        v = e.args[2]
        ok = isinstance(v, App) and v.op == "call" and isinstance(v.args[0], Ref) and v.args[0].obj.qualname == "SuitHash.hash" \
            and isinstance(v.args[1], App) and v.args[1].op == "new" and v.args[1].args[2:] == (ALG,) \
            and v.args[2] == App("filebytes", (App("idx", (D, Const("file"))),))
        R.check("C05-D1a digest forms", ok, "file: SuitHash(obj's algorithm).hash(<whole binary content of digest_dict['file']>)", mod=fi.module,
                node=e.node, function=fq, expected="SuitHash(obj['suit-digest-algorithm-id']).hash(open(file, 'rb').read())",
                found=repr(v)[:260], key_extra="file")
    e = one("file_direct")
    if e is not None:
        v = e.args[2]
        R.check("C05-D1a digest forms", v == App("meth:hex", (App("filebytes", (App("idx", (D, Const("file_direct"))),)),)),
                "file_direct: the file's whole binary content, as hex", mod=fi.module, node=e.node, function=fq,
                expected="open(file_direct, 'rb').read().hex()", found=repr(v)[:200], key_extra="file_direct")
    e = one("raw")
    if e is not None:
        R.check("C05-D1a digest forms", e.args[2] == App("idx", (D, Const("raw"))), "raw: the given value", mod=fi.module, node=e.node,
                function=fq, expected="digest_dict['raw']", found=repr(e.args[2])[:160], key_extra="raw")
    e = one("envelope")
    if e is not None:
        v = e.args[2]
        src = App("idx", (D, Const("envelope")))
        sub = App("phi", (App("isinstance", (src, Ref("builtin", "dict"))),
                          App("call", (Ref("func", repo.lookup_method(envcls.obj, "from_obj")), envcls, src)),
                          App("call", (Ref("func", repo.lookup_method(envcls.obj, "from_cbor")), envcls, App("filebytes", (src,))))))
        ok = v == App("meth:hex", (App("meth:get_manifest_digest", (sub, ALG)),))
        if not ok and isinstance(v, App) and v.op == "call" and isinstance(v.args[0], Ref) and getattr(v.args[0].obj, "qualname", "") == "SuitHash.hash" and len(v.args) == 3:
            # the same value spelled out: SuitHash(<parent's algorithm>).hash(<child>.get_manifest().to_cbor()) - what get_manifest_digest
            # computes (its own body is decided by the get_manifest_digest instance of this rule)
            h_, data_ = v.args[1], v.args[2]
            ok = isinstance(h_, App) and h_.op == "new" and h_.args[2:] == (ALG,) and data_ == App("meth:to_cbor", (App("meth:get_manifest", (sub,)),))
        R.check("C05-D1a digest forms", ok, "envelope: child built from the inline description / whole file, digest of its manifest under the parent's algorithm",
                mod=fi.module, node=e.node, function=fq,
                expected="SuitEnvelopeTagged.from_obj(desc) | from_cbor(open(path,'rb').read()) -> get_manifest_digest(obj's algorithm).hex()",
                found=repr(v)[:300], key_extra="envelope")
        # ... and get_manifest_digest(alg) is the hash under that very algorithm of the wrapped manifest bytes, on every path
        gm = repo.func("suit_generator.suit.envelope", "SuitBasicEnvelopeOperationsMixin.get_manifest_digest")
        from .c01 import hash_parts
        # SuitHash is followed into, so that the digest has one canonical form whichever of its methods produces it
        go = [o_ for o_ in Evaluator(repo, inline_depth=2, inline_filter=lambda f: f.cls is not None and f.cls.name == "SuitHash").outcomes(gm) if o_.kind == "return"]
        gmf = repo.func("suit_generator.suit.envelope", "SuitBasicEnvelopeOperationsMixin.get_manifest")
        want_data = App("meth:to_cbor", (App("call", (Ref("func", gmf), Sym("param:self"))),))
        oks = []
        for o_ in go:
            for g_, t in cases(o_.value):
                hp = hash_parts(t)
                oks.append(hp is not None and hp[0] == Sym("param:alg") and hp[1] == want_data)
        R.check("C05-D1a digest forms", bool(oks) and all(oks), "get_manifest_digest(alg) = SuitHash(alg).hash(wrapped manifest) on every path", mod=gm.module,
                node=gm.node, function=ctx.fq(gm), expected="a2b_hex(SuitHash(alg).hash(self.get_manifest().to_cbor())) - no result reused across algorithms",
                found=f"{[repr(o_.value)[:200] for o_ in go]}", key_extra="get_manifest_digest")
    e = one(None)
    if e is not None:
        g_none = generic.norm_guards(stores[None][0][1])
        absent = (App("in", (Const("suit-digest-bytes"), OBJ)), False) in g_none
        R.check("C05-D1a digest forms", e.args[2] == Const("") and absent, "no bytes given: placeholder (filled by the refreshers, C01)", mod=fi.module,
                node=e.node, function=fq, expected="'' exactly when the description has no suit-digest-bytes", found=f"{e.args[2]!r} under {[(repr(c)[:60], p_) for c, p_ in g_none][:3]}"[:240], key_extra="none")
    # the reference forms apply exactly when the bytes entry is a dict (a hex string is taken as it is)
    isd = App("isinstance", (D, Ref("builtin", "dict")))
    for form_, lst_ in stores.items():
        if form_ is None:
            continue
        for st_, g_ in lst_:
            gn = generic.norm_guards(g_)
            if (isd, True) not in gn:
                R.fail("C05-D1a digest forms", f"{form_}: applies only when suit-digest-bytes is a dict", mod=fi.module, node=st_.node or fi.node, function=fq,
                       expected="guarded by isinstance(obj['suit-digest-bytes'], dict)", found=f"{[(repr(c)[:60], p_) for c, p_ in gn][:4]}"[:240], key_extra=f"{form_}|dict")
    extra = set(stores) - {"file", "file_direct", "raw", "envelope", None}
    R.rule("C05-D1b no other digest form", 2, "unknown forms are rejected; result built from the completed description")
    rej = [x for x in outs if x.kind == "raise" and any("'file_direct'" in repr(c) for c in x.conds)]
    R.check("C05-D1b no other digest form", not extra and len(rej) == 1, "unknown reference form -> ValueError", mod=fi.module, node=fi.node,
            function=fq, expected="raise ValueError", found=f"extra forms {sorted(map(str, extra))}; {len(rej)} rejecting paths")
    v = o.value
    ok = isinstance(v, App) and v.op == "call" and isinstance(v.args[0], Ref) and v.args[0].obj.name == "from_obj" and v.args[-1] == OBJ \
        and any(isinstance(a, Ref) and a.kind == "class" and a.obj.name == "SuitDigestRaw" for a in v.args)
    R.check("C05-D1b no other digest form", ok, "result = SuitDigestRaw.from_obj(<the completed description>)", mod=fi.module, node=fi.node,
            function=fq, expected="SuitDigestRaw.from_obj(obj)", found=repr(v)[:200])


def size_forms(ctx):
    R = ctx.report
    repo = ctx.repo
    ev = Evaluator(repo, inline_depth=0)
    fi = repo.func(MAN, "SuitImageSize.from_obj")
    fq = ctx.fq(fi)
    outs = ev.outcomes(fi)
    R.rule("C05-D1c size forms", 4, "file -> getsize(obj['file']); envelope -> len(processed child bytes); file_direct -> int(text); raw -> identity")
    envcls = Ref("class", repo.cls(ENVM, "SuitEnvelopeTagged"))
    rpbd = Ref("func", repo.func(ENVM, "SuitBasicEnvelopeOperationsMixin.return_processed_binary_data"))
    want = {
        "raw": App("idx", (OBJ, Const("raw"))),
        "file": App("call:os.path.getsize", (App("idx", (OBJ, Const("file"))),)),
        "envelope": App("len", (App("call", (rpbd, envcls, App("idx", (OBJ, Const("envelope"))))),)),
        "file_direct": App("call:int", (App("filetext", (App("idx", (OBJ, Const("file_direct"))),)),)),
    }
    # case analysis: the form is the first of raw / file / envelope / file_direct that the description has; under each case every
    # normal outcome that can be taken hands exactly the reference value to the integer constructor (one return per form or one
    # return of a selected value alike)
    order = ["raw", "file", "envelope", "file_direct"]
    base = {App("isinstance", (OBJ, Ref("builtin", "dict"))): True}
    seen_forms = set()
    for i_, form in enumerate(order):
        facts = dict(base)
        for j_, k_ in enumerate(order):
            if j_ < i_:
                facts[App("in", (Const(k_), OBJ))] = False
            elif j_ == i_:
                facts[App("in", (Const(k_), OBJ))] = True
        taken = generic.taken_outcomes(outs, facts, strict=False)
        got = []
        node_ = fi.node
        for o in taken:
            if o.kind != "return":
                got.append(App("raises", (Const(o.kind),)))
                continue
            for v in generic.select_alternatives(o.value, facts):
                got.append(v.args[-1] if isinstance(v, App) and v.op in ("call", "supercall:from_obj") and v.args else v)
        if got and all(g_ == want[form] for g_ in got):
            seen_forms.add(form)
        R.check("C05-D1c size forms", bool(got) and all(g_ == want[form] for g_ in got), form, mod=fi.module, node=node_, function=fq,
                expected=repr(want[form]), found=f"{[repr(g_)[:160] for g_ in got if g_ != want[form]][:2]}", key_extra=form)
    R.rule("C05-D1d unknown size form rejected", 1, "other forms raise")
    none_facts = {**base, **{App("in", (Const(k_), OBJ)): False for k_ in order}}
    rej_unknown = generic.taken_outcomes(outs, none_facts, strict=False)
    rej_nondict = generic.taken_outcomes(outs, {App("isinstance", (OBJ, Ref("builtin", "dict"))): False}, strict=False)
    R.check("C05-D1d unknown size form rejected", bool(rej_unknown) and all(x.kind == "raise" for x in rej_unknown) and bool(rej_nondict)
            and all(x.kind == "raise" for x in rej_nondict) and seen_forms == set(order), "ValueError for non-dict / unknown form", mod=fi.module,
            node=fi.node, function=fq, expected="a description that is not a dict or has none of the four keys is rejected",
            found=f"unknown form: {[x.kind for x in rej_unknown]}; not a dict: {[x.kind for x in rej_nondict]}; forms {sorted(seen_forms)}")


def payload_forms(ctx):
    R = ctx.report
    repo = ctx.repo
    ev = Evaluator(repo, inline_depth=0)
    fi = repo.func(PAY, "SuitIntegratedPayloadMap.from_obj")
    fq = ctx.fq(fi)
    outs = ev.outcomes(fi)
    rets = [o for o in outs if o.kind == "return"]
    rets = generic.sole_outcome(ctx, rets, f"{fq}: expected one normal outcome")
    loops = [e for e in rets[0].effects if isinstance(e, App) and e.op == "eff:loop"]
    if len(loops) != 1:
        raise AnalysisError(f"{fq}: loop not recognised")
    it = loops[0].args[0]
    el = App("elem", (it,))
    k, v = App("unpack", (el, Const(0), Const(2))), App("unpack", (el, Const(1), Const(2)))
    R.rule("C05-D1e payload forms", 4, "inline description -> processed child bytes; path -> whole binary content; hex -> identity (content-preserving re-encoding only)")
    R.check("C05-D1e payload forms", it == App("meth:items", (OBJ,)), "every (name, value) of the description", mod=fi.module, node=fi.node,
            function=fq, expected="for k, v in obj.items()", found=repr(it)[:120])
    # the value handed to the payload node:  c_v.from_obj(data)
    datas = []
    for e in all_effects(loops[0].args[1].args):
        if isinstance(e, App) and e.op == "eff:call" and isinstance(e.args[0], App):
            c = e.args[0]
            if c.op == "meth:from_obj" or (c.op == "call" and isinstance(c.args[0], Ref) and c.args[0].kind == "func"
                                           and c.args[0].obj.name == "from_obj"):
                a = c.args[-1]
                if a != k and a not in datas:
                    datas.append(a)
    if len(datas) != 1:
        raise AnalysisError(f"{fq}: payload value not recognised ({len(datas)})")
    data = datas[0]
    envcls = Ref("class", repo.cls(ENVM, "SuitEnvelopeTagged"))
    rpbd = Ref("func", repo.func(ENVM, "SuitBasicEnvelopeOperationsMixin.return_processed_binary_data"))
    hexed = lambda t: App("meth:upper", (App("meth:hex", (t,)),))
    want = {
        "hex": v,
        "inline": hexed(App("call", (rpbd, envcls, v))),
        "path": hexed(App("filebytes", (v,))),
    }
    alts = cases(data)
    found = {}
    order = []
    for g, t in alts:
        for name, w in want.items():
            if t == w or (isinstance(t, App) and t.op in ("meth:upper", "meth:lower") and t.args[0] == w.args[0] if name != "hex" else False) \
                    or (name != "hex" and t == w.args[0]):
                found[name] = g
    for name in ("inline", "path", "hex"):
        R.check("C05-D1e payload forms", name in found, name, mod=fi.module, node=fi.node, function=fq, expected=repr(want[name])[:160],
                found=f"{[repr(t)[:100] for g, t in alts]}"[:400], key_extra=name)
    # guards: inline selected by isinstance(v, dict); path by is_file(Path(v))
    if "inline" in found:
        g = found["inline"]
        ok = any(gg == App("isinstance", (v, Ref("builtin", "dict"))) and pol for gg, pol in g.items())
        R.rule("C05-D1f payload classification", 2, "inline form selected for dicts, path form for existing files")
        R.check("C05-D1f payload classification", ok, "inline description <- isinstance(v, dict)", mod=fi.module, node=fi.node, function=fq,
                expected="isinstance(v, dict)", found=f"{list(g.items())}"[:200])
    if "path" in found:
        g = dict(found["path"])
        # the file test may be established by an exiting sibling branch (else: raise): take the guards of the open()
        for e, gs in _with_guards(loops[0].args[1].args):
            if isinstance(e, App) and e.op == "eff:open" and e.args[0] == v:
                g.update(dict(gs))
        ok = any("is_file" in repr(gg) and pol and any(s == v for s in subterms(gg)) for gg, pol in g.items())
        if not ok:
            # established inside a followed helper whose other branch raises: kept as a fact of the path that goes on, or as the
            # (negated) condition of the raise that pre-empts it
            facts_ = [e_.args[0] for e_ in all_effects(loops[0].args[1].args) if isinstance(e_, App) and e_.op == "eff:assume"
                      and not (isinstance(e_.args[0], App) and e_.args[0].op == "not")]
            facts_ += [c_.args[0] for e_ in all_effects(loops[0].args[1].args) if isinstance(e_, App) and e_.op == "eff:may_raise"
                       for c_ in (e_.args[0].args[1].args if len(e_.args[0].args) > 1 and isinstance(e_.args[0].args[1], App) else ())
                       if isinstance(c_, App) and c_.op == "not"]
            ok = any("is_file" in repr(c_) and not (isinstance(c_, App) and c_.op == "not") and any(s_ == v for s_ in subterms(c_)) for c_ in facts_)
        R.check("C05-D1f payload classification", ok, "path <- the value names an existing file", mod=fi.module, node=fi.node, function=fq,
                expected="pathlib.Path(v).is_file()", found=f"{list(g.items())}"[:200])
    # which strings are taken as literal hex: decided by evaluating the alternatives' guards on sample values that are neither a
    # description nor the name of an existing file - every string of hex digit pairs, the empty string (a zero-length payload, as
    # parse prints it) included, and nothing else
    from sa.teval import teval as _teval, Unknown as _Unknown, Raised as _Raised
    if "hex" in found:
        atoms = {s_ for g_, _t in alts for c_ in g_ for s_ in subterms(c_) if isinstance(s_, App) and (
            "is_file" in s_.op or "exists" in s_.op or (s_.op == "isinstance" and s_.args[0] == v))}
        verdicts, undecided = {}, None
        for smp, is_hex in (("", True), ("00", True), ("ab", True), ("ABCDEF0123456789", True), ("0a1B", True), ("xyz", False), ("0g", False)):
            env = {v: smp, **{a_: False for a_ in atoms}}
            chosen = None
            try:
                for g_, t_ in alts:
                    if all(bool(_teval(c_, env)) == bool(pol_) for c_, pol_ in g_.items()):
                        chosen = t_
                        break
            except (_Unknown, _Raised) as e_:
                undecided = f"{smp!r}: {e_}"
                break
            verdicts[smp] = (chosen == want["hex"], is_hex)
        if undecided is None:
            R.rule("C05-D1h literal hex recognised", 1, "a string of hex digit pairs - the empty string included - is taken as the payload's bytes; other strings are not")
            wrong = {k_: got_ for k_, (got_, exp_) in verdicts.items() if got_ != exp_}
            R.check("C05-D1h literal hex recognised", not wrong, "classification of sample strings", mod=fi.module, node=fi.node, function=fq,
                    expected="'' / '00' / 'ab' / 'ABCDEF0123456789' / '0a1B' are literal hex, 'xyz' / '0g' are not",
                    found=f"{ {k_: ('taken as hex' if g_ else 'not taken as hex') for k_, g_ in wrong.items()} }: parse prints an empty payload as '' - it must be accepted back")
        else:
            R.info(f"C05-D1h: classification of literal hex not evaluable ({undecided})")
    # D3: classification order — a path whose name consists of hex digits must still be read as a file
    R.rule("C05-D3 path before literal hex", 1, "the literal-hex test must not shadow the file test")
    if "hex" in found and "path" in found:
        hex_g = found["hex"]
        path_g = found["path"]
        # the hex alternative is chosen when its guard holds regardless of the file test  <=>  the file test is not among its guards
        shadow = not any("is_file" in repr(gg) for gg in hex_g) and any("hexdigits" in repr(gg) and pol is False for gg, pol in path_g.items())
        ifs = [n for n in ast.walk(fi.node) if isinstance(n, ast.If) and "hexdigits" in ast.unparse(n.test)]
        node = ifs[0] if ifs else fi.node
        R.check("C05-D3 path before literal hex", not shadow, "a value naming an existing file is read even when the name looks like hex", mod=fi.module,
                node=node.test if ifs else node, function=fq, construct="literal-hex test shadows the file test",
                expected="file test (or dict test) decides before the literal-hex test",
                found="the literal-hex test comes first: a file whose name consists of hex digits is embedded as those bytes, not read")
    # unknown -> ValueError
    rej = [x for x in outs if x.kind == "raise"]
    R.rule("C05-D1g unusable payload rejected", 1, "a value that is neither hex, description nor file raises")
    R.check("C05-D1g unusable payload rejected", len(rej) >= 1, "ValueError", mod=fi.module, node=fi.node, function=fq, expected="raise ValueError",
            found=f"{len(rej)}")


def subenvelope(ctx):
    R = ctx.report
    repo = ctx.repo
    ev = Evaluator(repo, inline_depth=0)
    R.rule("C05-D2 dependency embedded = dependency created alone", 3, "inline: same three-call pipeline as stand-alone creation; path: whole file bytes unmodified")
    fi = repo.func(ENVM, "SuitBasicEnvelopeOperationsMixin.return_processed_binary_data")
    fq = ctx.fq(fi)
    outs = ev.outcomes(fi)
    obj = P("obj")
    inline = [o for o in outs if o.kind == "return" and App("isinstance", (obj, Ref("builtin", "dict"))) in o.conds]
    path = [o for o in outs if o.kind == "return" and App("not", (App("isinstance", (obj, Ref("builtin", "dict"))),)) in o.conds]
    if len(inline) != 1:
        raise AnalysisError(f"{fq}: inline branch not recognised")
    built = App("meth:from_obj", (P("cls"), obj))
    seq = [e.args[0] for e in all_effects(inline[0].effects) if isinstance(e, App) and e.op == "eff:call" and isinstance(e.args[0], App)
           and e.args[0].op.startswith("meth:")]
    from .c01 import _summary as _refresh_summary
    names = []
    for c in seq:
        steps = _refresh_summary(ctx, c.op[5:])   # a helper that runs the refreshers on self counts as those calls
        names += [(m_, c.args[0] == built or c == built) for m_ in (steps or [c.op[5:]])]
    R.check("C05-D2 dependency embedded = dependency created alone", [n for n, _ in names] == ["from_obj", "update_severable_digests", "update_digest", "to_cbor"]
            and all(ok for _, ok in names) and inline[0].value == App("meth:to_cbor", (built,)),
            "inline: from_obj -> update_severable_digests -> update_digest -> to_cbor on the same object", mod=fi.module, node=fi.node, function=fq,
            expected="identical to InputOutputMixin.prepare_suit_data", found=f"{names}")
    psd = repo.func("suit_generator.input_output", "InputOutputMixin.prepare_suit_data")
    po = [o for o in ev.outcomes(psd) if o.kind == "return"]
    pseq = [e.args[0].op[5:] if e.args[0].op.startswith("meth:") else e.args[0].args[0].obj.name for o in po for e in all_effects(o.effects)
            if isinstance(e, App) and e.op == "eff:call" and isinstance(e.args[0], App) and (
                e.args[0].op.startswith("meth:") or (e.args[0].op == "call" and isinstance(e.args[0].args[0], Ref)))]
    pseq = [m_ for n_ in pseq for m_ in (_refresh_summary(ctx, n_) or [n_])]
    R.check("C05-D2 dependency embedded = dependency created alone", pseq == ["from_obj", "update_severable_digests", "update_digest", "to_cbor"],
            "stand-alone pipeline has the same shape (sibling agreement)", mod=psd.module, node=psd.node, function=ctx.fq(psd),
            expected="from_obj, update_severable_digests, update_digest, to_cbor", found=f"{pseq}")
    # an implicit `return None` (no file branch taken) cannot embed anything: only value-returning paths are constrained
    path = [p for p in path if p.value != Const(None)]
    ok = len(path) >= 1 and all(p.value == App("filebytes", (obj,)) for p in path)
    R.check("C05-D2 dependency embedded = dependency created alone", ok, "path: the file's whole binary content, unmodified", mod=fi.module,
            node=fi.node, function=fq, expected="open(obj, 'rb').read()", found=f"{[repr(p.value)[:100] for p in path]}")
