"""Byte-layout helpers on terms (T7)."""
from __future__ import annotations

from sa.terms import App, Const, Ref, Sym, cat_parts, subterms

HASH_LEN = {"SHA256": 32, "SHA384": 48, "SHA512": 64}


def seg_len(t):
    """Statically known byte length of a bytes-valued term, or None."""
    if isinstance(t, Const) and isinstance(t.v, (bytes, bytearray)):
        return len(t.v)
    if isinstance(t, App):
        if t.op == "attr:bytes" and isinstance(t.args[0], App) and t.args[0].op == "uuid5":
            return 16
        if t.op == "meth:to_bytes" and len(t.args) >= 2 and isinstance(t.args[1], Const):
            return t.args[1].v
        if t.op == "byte":
            return 1
        if t.op == "urandom" and isinstance(t.args[0], Const):
            return t.args[0].v
        if t.op == "hash":
            alg = t.args[0]
            if isinstance(alg, App) and alg.op.startswith("call:"):
                name = alg.op.split(".")[-1]
                if name in HASH_LEN:
                    return HASH_LEN[name]
                if name in ("SHAKE128", "SHAKE256") and alg.args and isinstance(alg.args[0], Const):
                    return alg.args[0].v
        if t.op == "repeat" and isinstance(t.args[0], Const) and isinstance(t.args[1], Const):
            return len(t.args[0].v) * t.args[1].v
        if t.op == "cat":
            ls = [seg_len(p) for p in t.args]
            return None if any(l is None for l in ls) else sum(ls)
    return None


def segments(t):
    """[(kind, payload, length)] with kind const|field."""
    out = []
    for p in cat_parts(t):
        if isinstance(p, Const) and isinstance(p.v, (bytes, bytearray)):
            out.append(("const", bytes(p.v), len(p.v)))
        else:
            out.append(("field", p, seg_len(p)))
    return out


def find_effect_calls(effects, opname):
    from sa.absint import all_effects
    out = []
    for e in all_effects(effects):
        if isinstance(e, App) and e.op == "eff:call" and isinstance(e.args[0], App) and e.args[0].op == opname:
            out.append(e.args[0])
    return out


def is_uuid5(t, ns, name):
    return isinstance(t, App) and t.op == "uuid5" and t.args[0] == ns and t.args[1] == name


DNS = Ref("ext", "uuid.NAMESPACE_DNS")


def vendor_uuid(vendor):
    return App("uuid5", (DNS, vendor))


def class_uuid(vendor, cls):
    return App("uuid5", (vendor_uuid(vendor), cls))
