"""T14 ARGNAME — an argument that is named like a callee parameter is bound to that parameter.

Belief rule (Engler): ``f(kwargs["address"], kwargs["size"])`` only makes sense when the first parameter of
``f`` is ``address``.  Checked for positional and keyword arguments whose expression carries a name hint
(``kwargs["x"]``, ``x``, ``obj.x``, ``self._x``) that is also the name of *some* parameter of the callee.
"""
from __future__ import annotations

import ast

from sa.index import walk_no_nested


def hint(e: ast.AST):
    if isinstance(e, ast.Subscript) and isinstance(e.slice, ast.Constant) and isinstance(e.slice.value, str):
        return e.slice.value
    if isinstance(e, ast.Name):
        return e.id
    if isinstance(e, ast.Attribute):
        return e.attr.lstrip("_")
    if isinstance(e, ast.Call) and isinstance(e.func, ast.Attribute) and e.func.attr == "get" and e.args and isinstance(e.args[0], ast.Constant) \
            and isinstance(e.args[0].value, str):
        return e.args[0].value  # kwargs.get("x") / kwargs.get("x", default): default only when the key is absent
    return None


def falsy_fallback(e: ast.AST):
    """`value or default` / `value if value else default`: the hinted name when a given-but-falsy value (0, '', False) is replaced."""
    if isinstance(e, ast.BoolOp) and isinstance(e.op, ast.Or) and len(e.values) >= 2:
        return hint(e.values[0])
    if isinstance(e, ast.IfExp) and hint(e.body) is not None and ast.dump(e.test) == ast.dump(e.body):
        return hint(e.body)
    return None


def check_function(ctx, rid, fi, cg=None):
    """Check every resolvable call in ``fi``. Returns number of bindings checked."""
    R = ctx.report
    repo = ctx.repo
    n = 0
    for node in walk_no_nested(fi.node):
        if not isinstance(node, ast.Call):
            continue
        target = None
        r = repo.resolve_expr(fi.module, node.func)
        if r and r[0] == "func":
            target = r[1]
        elif r and r[0] == "class":
            target = repo.lookup_method(r[1], "__init__")
        elif isinstance(node.func, ast.Attribute) and isinstance(node.func.value, ast.Name) \
                and node.func.value.id in ("self", "cls") and fi.cls is not None:
            target = repo.lookup_method(fi.cls, node.func.attr)
        if target is None:
            continue
        params = target.params()
        via_class = isinstance(node.func, ast.Attribute) and repo.class_of_expr(fi.module, node.func.value) is not None
        if params and (target.kind == "classmethod" or (target.kind == "method" and not via_class)
                       or (r and r[0] == "class")):
            params = params[1:]
        kwonly = [a.arg for a in target.node.args.kwonlyargs]
        allp = set(params) | set(kwonly)
        for i, a in enumerate(list(node.args) + [k.value for k in node.keywords if k.arg is not None]):
            fb = falsy_fallback(a)
            if fb is not None and fb in allp:
                n += 1
                R.fail(rid, f"{ctx.fq(fi)} -> {target.qualname}: {ast.unparse(a)[:50]}", mod=fi.module, node=node, function=ctx.fq(fi),
                       expected=f"the value given for {fb!r} is passed on as it is (0 / empty / False are legal values)",
                       found="`value or default`: a value that was given but is falsy is replaced by the default", key_extra=f"falsy:{fb}")
        for i, a in enumerate(node.args):
            if isinstance(a, ast.Starred):
                break
            h = hint(a)
            if h is None or h not in allp or i >= len(params):
                continue
            n += 1
            R.check(rid, params[i] == h, f"{ctx.fq(fi)} -> {target.qualname}: argument {ast.unparse(a)[:40]} at position {i}",
                    mod=fi.module, node=node, function=ctx.fq(fi),
                    expected=f"{ast.unparse(a)[:40]} bound to parameter {h!r}",
                    found=f"bound to parameter {params[i]!r} of {target.qualname}", key_extra=f"{i}:{h}")
        for k in node.keywords:
            if k.arg is None:
                continue
            h = hint(k.value)
            if h is None or h not in allp:
                continue
            n += 1
            R.check(rid, k.arg == h, f"{ctx.fq(fi)} -> {target.qualname}: {k.arg}={ast.unparse(k.value)[:40]}",
                    mod=fi.module, node=node, function=ctx.fq(fi),
                    expected=f"{ast.unparse(k.value)[:40]} bound to parameter {h!r}",
                    found=f"bound to parameter {k.arg!r}", key_extra=f"{k.arg}:{h}")
    return n


def check_module_main_block(ctx, rid, mod):
    """Calls in the ``if __name__ == '__main__'`` block of a script (ncs/build.py)."""
    from sa.index import FuncInfo
    n = 0
    for s in mod.tree.body:
        if isinstance(s, ast.If) and "__name__" in ast.unparse(s.test):
            fake = ast.FunctionDef(name="__main__", args=ast.arguments(posonlyargs=[], args=[], kwonlyargs=[], kw_defaults=[],
                                                                       defaults=[]), body=s.body, decorator_list=[],
                                   lineno=s.lineno, col_offset=0)
            fi = FuncInfo("__main__", "__main__", fake, mod)
            n += check_function(ctx, rid, fi)
    return n
