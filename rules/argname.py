"""T14 ARGNAME — an argument that is named like a callee parameter is bound to that parameter.

Belief rule (Engler): ``f(kwargs["address"], kwargs["size"])`` only makes sense when the first parameter of
``f`` is ``address``.  Checked for positional and keyword arguments whose expression carries a name hint
(``kwargs["x"]``, ``x``, ``obj.x``, ``self._x``) that is also the name of *some* parameter of the callee.
"""
from __future__ import annotations

import ast

from sa.index import walk_no_nested


def hint(e: ast.AST):
    if isinstance(e, ast.Subscript) and isinstance(e.slice, ast.Constant) and isinstance(e.slice.value, str):
        return e.slice.value
    if isinstance(e, ast.Name):
        return e.id
    if isinstance(e, ast.Attribute):
        return e.attr.lstrip("_")
    if isinstance(e, ast.Call) and isinstance(e.func, ast.Attribute) and e.func.attr == "get" and e.args and isinstance(e.args[0], ast.Constant) \
            and isinstance(e.args[0].value, str):
        return e.args[0].value  # kwargs.get("x") / kwargs.get("x", default): default only when the key is absent
    return None


def falsy_fallback(e: ast.AST):
    """`value or default` / `value if value else default`: the hinted name when a given-but-falsy value (0, '', False) is replaced."""
    if isinstance(e, ast.BoolOp) and isinstance(e.op, ast.Or) and len(e.values) >= 2:
        return hint(e.values[0])
    if isinstance(e, ast.IfExp) and hint(e.body) is not None and ast.dump(e.test) == ast.dump(e.body):
        return hint(e.body)
    return None


def hint_term(t):
    """The name hint of an argument term: kwargs['x'] / kwargs.get('x') / self._x / a parameter x."""
    from sa.terms import App, Const, Sym
    if isinstance(t, App) and t.op == "idx" and isinstance(t.args[1], Const) and isinstance(t.args[1].v, str):
        return t.args[1].v
    if isinstance(t, App) and t.op == "meth:get" and len(t.args) >= 2 and isinstance(t.args[1], Const) and isinstance(t.args[1].v, str):
        return t.args[1].v
    if isinstance(t, App) and t.op.startswith("attr:") and len(t.args) == 1 and isinstance(t.args[0], Sym):
        return t.op[5:].lstrip("_")
    if isinstance(t, Sym) and t.name.startswith("param:"):
        return t.name[6:]
    return None


def check_function_terms(ctx, rid, fi, seen):
    """The same belief rule on the calls the abstract evaluation of ``fi`` performs (arguments reach the callee through tables,
    unpacked lists, helper functions ...).  `seen`: bindings already counted by the syntactic pass."""
    from sa.absint import Evaluator, all_effects
    from sa.terms import App, Const, Ref, Sym
    from sa.index import AnalysisError
    R = ctx.report
    repo = ctx.repo
    n = 0
    try:
        outs = Evaluator(repo, inline_depth=0).outcomes(fi)
    except AnalysisError:
        return 0
    calls = []
    for o in outs:
        for e in all_effects(o.effects):
            if isinstance(e, App) and e.op == "eff:call" and isinstance(e.args[0], App) and e.args[0] not in calls:
                calls.append(e.args[0])
    for c in calls:
        if c.op == "call" and isinstance(c.args[0], Ref) and c.args[0].kind == "func":
            target, rest = c.args[0].obj, list(c.args[1:])
            params = target.params()
            if target.kind in ("method", "classmethod", "property") and rest:
                first = rest[0]
                fcls = first.obj if isinstance(first, Ref) and first.kind == "class" else (
                    first.args[0].obj if isinstance(first, App) and first.op == "new" and isinstance(first.args[0], Ref) else None)
                bound = (isinstance(first, Sym) and first.name in ("param:self", "param:cls")) or (
                    fcls is not None and target.cls is not None and target.cls in repo.mro(fcls)) or target.kind == "classmethod"
                if bound:
                    rest, params = rest[1:], params[1:]
        elif c.op == "new" and isinstance(c.args[0], Ref) and c.args[0].kind == "class":
            target = repo.lookup_method(c.args[0].obj, "__init__")
            if target is None:
                continue
            rest, params = [a for a in c.args[1:] if not (isinstance(a, Const) and isinstance(a.v, tuple) and a.v[:1] == ("site",))], target.params()[1:]
        else:
            continue
        kwonly = [a.arg for a in target.node.args.kwonlyargs]
        allp = set(params) | set(kwonly)
        pos = [a for a in rest if not (isinstance(a, App) and a.op in ("kw", "starkw", "star"))]
        for i, a in enumerate(pos):
            h = hint_term(a)
            if h is None or h not in allp or i >= len(params):
                continue
            key = (target.qualname, f"{i}:{h}")
            if key in seen:
                continue
            seen.add(key)
            n += 1
            R.check(rid, params[i] == h, f"{ctx.fq(fi)} -> {target.qualname}: argument {h!r} at position {i}", mod=fi.module, node=c.node or fi.node,
                    function=ctx.fq(fi), expected=f"the value of {h!r} bound to parameter {h!r}", found=f"bound to parameter {params[i]!r} of {target.qualname}",
                    key_extra=f"{i}:{h}")
        for a in rest:
            if isinstance(a, App) and a.op == "kw" and isinstance(a.args[0], Const):
                h = hint_term(a.args[1])
                if h is None or h not in allp:
                    continue
                key = (target.qualname, f"{a.args[0].v}:{h}")
                if key in seen:
                    continue
                seen.add(key)
                n += 1
                R.check(rid, a.args[0].v == h, f"{ctx.fq(fi)} -> {target.qualname}: {a.args[0].v}=<{h}>", mod=fi.module, node=c.node or fi.node,
                        function=ctx.fq(fi), expected=f"the value of {h!r} bound to parameter {h!r}", found=f"bound to parameter {a.args[0].v!r}",
                        key_extra=f"{a.args[0].v}:{h}")
    return n


def check_function(ctx, rid, fi, cg=None):
    """Check every resolvable call in ``fi``. Returns number of bindings checked."""
    seen = set()
    n = _check_function_ast(ctx, rid, fi, seen)
    return n + check_function_terms(ctx, rid, fi, seen)


def _check_function_ast(ctx, rid, fi, seen):
    R = ctx.report
    repo = ctx.repo
    n = 0
    for node in walk_no_nested(fi.node):
        if not isinstance(node, ast.Call):
            continue
        target = None
        r = repo.resolve_expr(fi.module, node.func)
        if r and r[0] == "func":
            target = r[1]
        elif r and r[0] == "class":
            target = repo.lookup_method(r[1], "__init__")
        elif isinstance(node.func, ast.Attribute) and isinstance(node.func.value, ast.Name) \
                and node.func.value.id in ("self", "cls") and fi.cls is not None:
            target = repo.lookup_method(fi.cls, node.func.attr)
        if target is None:
            continue
        params = target.params()
        via_class = isinstance(node.func, ast.Attribute) and repo.class_of_expr(fi.module, node.func.value) is not None
        if params and (target.kind == "classmethod" or (target.kind == "method" and not via_class)
                       or (r and r[0] == "class")):
            params = params[1:]
        kwonly = [a.arg for a in target.node.args.kwonlyargs]
        allp = set(params) | set(kwonly)
        for i, a in enumerate(list(node.args) + [k.value for k in node.keywords if k.arg is not None]):
            fb = falsy_fallback(a)
            if fb is not None and fb in allp:
                n += 1
                R.fail(rid, f"{ctx.fq(fi)} -> {target.qualname}: {ast.unparse(a)[:50]}", mod=fi.module, node=node, function=ctx.fq(fi),
                       expected=f"the value given for {fb!r} is passed on as it is (0 / empty / False are legal values)",
                       found="`value or default`: a value that was given but is falsy is replaced by the default", key_extra=f"falsy:{fb}")
        for i, a in enumerate(node.args):
            if isinstance(a, ast.Starred):
                break
            h = hint(a)
            if h is None or h not in allp or i >= len(params):
                continue
            n += 1
            seen.add((target.qualname, f"{i}:{h}"))
            R.check(rid, params[i] == h, f"{ctx.fq(fi)} -> {target.qualname}: argument {ast.unparse(a)[:40]} at position {i}",
                    mod=fi.module, node=node, function=ctx.fq(fi),
                    expected=f"{ast.unparse(a)[:40]} bound to parameter {h!r}",
                    found=f"bound to parameter {params[i]!r} of {target.qualname}", key_extra=f"{i}:{h}")
        for k in node.keywords:
            if k.arg is None:
                continue
            h = hint(k.value)
            if h is None or h not in allp:
                continue
            n += 1
            seen.add((target.qualname, f"{k.arg}:{h}"))
            R.check(rid, k.arg == h, f"{ctx.fq(fi)} -> {target.qualname}: {k.arg}={ast.unparse(k.value)[:40]}",
                    mod=fi.module, node=node, function=ctx.fq(fi),
                    expected=f"{ast.unparse(k.value)[:40]} bound to parameter {h!r}",
                    found=f"bound to parameter {k.arg!r}", key_extra=f"{k.arg}:{h}")
    return n


def check_module_main_block(ctx, rid, mod):
    """Calls in the ``if __name__ == '__main__'`` block of a script (ncs/build.py)."""
    from sa.index import FuncInfo
    n = 0
    for s in mod.tree.body:
        if isinstance(s, ast.If) and "__name__" in ast.unparse(s.test):
            fake = ast.FunctionDef(name="__main__", args=ast.arguments(posonlyargs=[], args=[], kwonlyargs=[], kw_defaults=[],
                                                                       defaults=[]), body=s.body, decorator_list=[],
                                   lineno=s.lineno, col_offset=0)
            fi = FuncInfo("__main__", "__main__", fake, mod)
            n += _check_function_ast(ctx, rid, fi, set())
    return n
