"""C06 — encryption artifacts are mutually consistent (structure) ; shared helpers for C14."""
from __future__ import annotations

import ast

from sa import cbor_mini
from sa.absint import Evaluator, all_effects
from sa.index import AnalysisError
from sa.terms import App, Const, Ref, Sym, cases, cat_parts, dict_pairs, list_items, subterms
from . import argname, generic
from .layout import find_effect_calls, seg_len

EXPLANATION = ("abstract evaluation of the encryptor, the file KMS and the CLI writers: the hard-coded AAD literal is "
               "compared with the Enc_structure of the protected header that is actually emitted (both folded with the "
               "verifier's own CBOR encoder); provenance of plaintext/AAD/nonce into AES-GCM; split and emission order as "
               "byte layouts; COSE_Encrypt shape and codes; wrap-depth algebra of the raw encryption-info form; sibling "
               "digest tables; no repository code executed")

ENC = "ncs.encrypt_script"
KMS = "ncs.basic_kms"
CMD = "suit_generator.cmd_encrypt"
P = lambda n: Sym("param:" + n)


def kms_impls(ctx):
    base = ctx.repo.cls("suit_generator.suit_kms_base", "SuitKMSBase")
    impls = [c for c in ctx.repo.subclasses(base)]
    if not impls:
        raise AnalysisError("no SuitKMSBase implementation found")
    return impls


def kms_encrypt_facts(ctx, impl):
    """Evaluate <impl>.encrypt: returns dict(nonce, tag, ct, aes_call, ret)."""
    fi = ctx.repo.lookup_method(impl, "encrypt")
    ev = Evaluator(ctx.repo, inline_depth=1)
    outs = [o for o in ev.outcomes(fi) if o.kind == "return"]
    outs = generic.sole_outcome(ctx, outs, f"{ctx.fq(fi)}: expected one normal outcome")
    o = outs[0]
    aes = [s for e in all_effects(o.effects) for s in subterms(e) if isinstance(s, App) and s.op == "meth:encrypt"
           and isinstance(s.args[0], App) and "AESGCM" in s.args[0].op]
    uniq = []
    for a in aes:
        if a not in uniq:
            uniq.append(a)
    ret = list_items(o.value)
    return dict(fi=fi, out=o, aes=uniq, ret=ret)


def encryption_info_term(ctx):
    """Term of generate_encryption_info_and_encrypted_payload as a function of its parameters."""
    fi = ctx.repo.func(ENC, "Encryptor.generate_encryption_info_and_encrypted_payload")
    ev = Evaluator(ctx.repo, inline_depth=2)
    outs = [o for o in ev.outcomes(fi) if o.kind == "return"]
    if len(outs) != 1 or list_items(outs[0].value) is None or len(list_items(outs[0].value)) != 3:
        raise AnalysisError(f"{ctx.fq(fi)}: result is not a 3-tuple")
    return fi, list_items(outs[0].value)


def unwrap_cbor(t, n):
    for _ in range(n):
        if isinstance(t, App) and t.op == "cbor":
            t = t.args[0]
        else:
            return None
    return t



def _guarded(effects, guards=()):
    """(primitive effect, conditions it is performed under) in program order."""
    for e in effects:
        if isinstance(e, App) and e.op == "eff:if":
            yield from _guarded(e.args[1].args, guards + (e.args[0],))
            yield from _guarded(e.args[2].args, guards + (App("not", (e.args[0],)),))
        elif isinstance(e, App) and e.op in ("eff:loop", "eff:partial", "eff:alts"):
            continue
        else:
            yield e, guards


def key_wrap_codes(ctx, ev0):
    """C06-D4b: decision table of the value stored in self.cose_kw_alg for each member of the key-wrap enumeration, taken from every
    method of the encryptor that stores the attribute (a dedicated converter or the entry points themselves)."""
    from sa.teval import teval as _teval, Unknown as _Unknown, Raised as _Raised
    R, repo = ctx.report, ctx.repo
    selfp = P("self")

    def stores(o):
        return [(e.args[2], g) for e, g in _guarded(o.effects) if isinstance(e, App) and e.op == "eff:setattr" and e.args[0] == selfp
                and e.args[1] == Const("cose_kw_alg")]

    setters = []
    for q, fi in sorted(repo.mod(ENC).functions.items()):
        if not q.startswith("Encryptor."):
            continue
        try:
            outs = [o for o in ev0.outcomes(fi) if o.kind == "return"]
        except AnalysisError:
            continue
        if any(stores(o) for o in outs):
            setters.append((fi, outs))
    if not setters:
        raise AnalysisError(f"{ENC}: no method of Encryptor stores self.cose_kw_alg (key-wrap selection not found)")
    R.rule("C06-D4b key-wrap codes", 2 * len(setters), "DIRECT -> -6, A256KW -> -5")
    for kwc, kouts in setters:
        members = {}
        terms = [c for o in kouts for c in o.conds] + [t for o in kouts for v, g in stores(o) for t in (v,) + tuple(g)]
        for t in terms:
            for s_ in subterms(t):
                if isinstance(s_, App) and s_.op == "enum" and isinstance(s_.args[0], Ref) and s_.args[0].obj.name == "SuitKWAlgorithms":
                    members[s_.args[1].v] = s_
        cls_kw = next((m.args[0].obj for m in members.values()), None)
        if cls_kw is not None:
            for nm, _v in ev0.enum_members(cls_kw):
                members.setdefault(nm, ev0.enum_member(cls_kw, nm))
        if not members:
            raise AnalysisError(f"{ctx.fq(kwc)}: stores self.cose_kw_alg without consulting the key-wrap enumeration")
        # the parameter carrying the key-wrap algorithm: the one compared with members of the enumeration
        params = set()
        for t in terms:
            for c in subterms(t):
                if isinstance(c, App) and c.op in ("==", "!=", "is", "is not", "in", "not in") and any(s_ in members.values() for s_ in subterms(c)):
                    params |= {s_ for s_ in subterms(c) if isinstance(s_, Sym) and s_.name.startswith("param:") and s_ != selfp}
        if len(params) != 1:
            raise AnalysisError(f"{ctx.fq(kwc)}: key-wrap selection not recognised (selected by {sorted(map(repr, params))})")
        kwp = next(iter(params))

        def holds(c, env):
            """True / False / None (not selected by the key-wrap algorithm: may hold)."""
            try:
                return bool(_teval(c, env))
            except (_Unknown, _Raised) as ex:
                if any(s_ == kwp for s_ in subterms(c)):
                    raise AnalysisError(f"{ctx.fq(kwc)}: key-wrap selection not recognised ({c!r}: {ex})")
                return None

        table = {}
        for name_ in members:
            env = {m2: ("member", n2) for n2, m2 in members.items()}
            env[kwp.name] = ("member", name_)
            vals = set()
            for o in kouts:
                if any(holds(c, env) is False for c in o.conds):
                    continue
                last = {None}  # values the attribute may hold at the exit (None: not stored on this path)
                for v, g in stores(o):
                    hs = [holds(c, env) for c in g]
                    if any(h is False for h in hs):
                        continue
                    try:
                        val = _teval(v, env)
                    except (_Unknown, _Raised) as ex:
                        raise AnalysisError(f"{ctx.fq(kwc)}: key-wrap code not a constant ({v!r}: {ex})")
                    last = {val} if all(h is True for h in hs) else last | {val}
                vals |= last
            table[name_] = vals
        if any(None in vs for vs in table.values()):
            mod_ = repo.mod(ENC)
            other = [n for n in ast.walk(mod_.tree) if isinstance(n, ast.Attribute) and n.attr == "cose_kw_alg" and isinstance(n.ctx, ast.Store)
                     and not any(n in set(ast.walk(f.node)) for f, _ in setters)] + \
                    [n for n in ast.walk(mod_.tree) if isinstance(n, ast.Name) and n.id == "cose_kw_alg" and isinstance(n.ctx, ast.Store)]
            if other:
                raise AnalysisError(f"{ctx.fq(kwc)}: self.cose_kw_alg is not stored on every path and has a default elsewhere (line "
                                    f"{other[0].lineno}): not a form the rule can follow")
        for nm, code in (("A256KW", -5), ("DIRECT", -6)):
            R.check("C06-D4b key-wrap codes", table.get(nm) == {code}, f"{nm} -> {code}", mod=kwc.module, node=kwc.node,
                    function=ctx.fq(kwc), expected=str(code), found=repr(sorted(table.get(nm, ()), key=repr)),
                    key_extra=kwc.qualname if kwc.qualname != "Encryptor._kw_alg_convert" else "")

def run(ctx):
    for entry_ in ("main", "encrypt_and_generate", "generate_info"):
        generic.kwargs_keys_are_dests(ctx, "C06-D3g keyword reads are option destinations", "suit_generator.cmd_encrypt", entry_)
    R = ctx.report
    repo = ctx.repo
    ctx.use_files("ncs/encrypt_script.py", "ncs/basic_kms.py", "suit_generator/cmd_encrypt.py", "suit_generator/suit/security.py")
    ev0 = Evaluator(repo, inline_depth=0)
    ev2 = Evaluator(repo, inline_depth=2)
    # no well-formed asset is refused by the splitter: iv(12) | tag(16) | ciphertext of any length, the empty plaintext included
    generic.no_refusal_on_grid(ctx, "C06-D3f every well-formed asset is split", repo.func(ENC, "Encryptor.parse_encrypted_assets"),
                               {"asset_bytes": [bytes(28), b"\x01" * 29, bytes(range(60)), bytes(28 + 4096)]}, inline_depth=1,
                               what="assets iv|tag|ciphertext of 28 bytes and more (28 = empty plaintext)")

    # ---------------------------------------------------------------- emitted COSE_Encrypt
    fi_info, (ret_content, ret_tag, info) = encryption_info_term(ctx)
    fq_info = ctx.fq(fi_info)
    asset = P("encrypted_asset")
    layers, tagged = 0, info
    while isinstance(tagged, App) and tagged.op == "cbor":
        layers, tagged = layers + 1, tagged.args[0]
    # no legal key identifier is refused: refusals of the functions on the info path that depend on the key id are evaluated for
    # representative 32-bit ids (the guards touch the id only through comparisons with constants: a finite set of orderings)
    from sa.teval import Raised as _Raised, Unknown as _Unknown, teval as _teval
    R.rule("C06-D4c every key id is accepted", 2, "no raise on the encryption-info path is selected by a key id in 0 .. 2^32-1")
    for q_ in ("Encryptor.generate_suit_encryption_info", "Encryptor.generate_encryption_info_and_encrypted_payload"):
        f_ = repo.func(ENC, q_)
        refused = []
        for o_ in ev0.outcomes(f_):
            if o_.kind != "raise" or not any(s_ == P("key_id") for c_ in o_.conds for s_ in subterms(c_)):
                continue
            for kid in (0, 1, 23, 24, 255, 256, 0xFFFF, 0x10000, 0x40000000, 0x7FFFFFFF, 0x80000000, 0x80000001, 0xFFFFFFFE, 0xFFFFFFFF):
                try:
                    if all(bool(_teval(c_, {P("key_id"): kid})) for c_ in o_.conds if any(s_ == P("key_id") for s_ in subterms(c_))):
                        refused.append(kid)
                except (_Unknown, _Raised):
                    pass
        R.check("C06-D4c every key id is accepted", not refused, q_, mod=f_.module, node=f_.node, function=ctx.fq(f_),
                expected="every key identifier 0 .. 0xFFFFFFFF yields encryption info", found=f"refused: {[hex(k) for k in sorted(set(refused))][:4]}", key_extra=q_)
    R.rule("C06-D4 COSE_Encrypt shape", 9, "bstr-wrapped tag 96 [protected bstr, {5: iv}, nil, [[h'', {1: kw alg, 4: bstr(key id)}, cek]]]")
    R.check("C06-D4 COSE_Encrypt shape", layers == 2,
            "exactly two cbor2.dumps layers (tagged item, then byte-string wrap)", mod=fi_info.module, node=fi_info.node,
            function=fq_info, expected="cbor2.dumps(cbor2.dumps(CBORTag(96, ...)))", found=repr(info)[:160])
    if not (isinstance(tagged, App) and tagged.op == "tag"):
        raise AnalysisError(f"{fq_info}: encryption info is not dumps*(CBORTag(..))")
    R.check("C06-D4 COSE_Encrypt shape", tagged.args[0] == Const(96), "tag number", mod=fi_info.module, node=fi_info.node,
            function=fq_info, expected="96", found=repr(tagged.args[0]))
    body = list_items(tagged.args[1])
    if body is None or len(body) != 4:
        R.fail("C06-D4 COSE_Encrypt shape", "COSE_Encrypt has four elements", mod=fi_info.module, node=fi_info.node, function=fq_info,
               expected="[protected, unprotected, ciphertext, recipients]", found=repr(tagged.args[1])[:200])
        return
    prot, unprot, ct, recips = body
    R.check("C06-D4 COSE_Encrypt shape", isinstance(prot, Const) and prot.v == cbor_mini.dumps({1: 3}), "protected = bstr(cbor({1: 3}))  (AES-GCM-256)",
            mod=fi_info.module, node=fi_info.node, function=fq_info, expected=cbor_mini.dumps({1: 3}).hex(),
            found=prot.v.hex() if isinstance(prot, Const) and isinstance(prot.v, bytes) else repr(prot))
    up = dict_pairs(unprot)
    iv_term = None
    R.check("C06-D4 COSE_Encrypt shape", up is not None and len(up) == 1 and up[0][0] == Const(5), "unprotected = {5: iv}",
            mod=fi_info.module, node=fi_info.node, function=fq_info, expected="{5: iv}", found=repr(unprot)[:120])
    if up and up[0][0] == Const(5):
        iv_term = up[0][1]
    R.check("C06-D4 COSE_Encrypt shape", ct == Const(None), "detached ciphertext (nil)", mod=fi_info.module, node=fi_info.node,
            function=fq_info, expected="None", found=repr(ct))
    rl = list_items(recips)
    rec = list_items(rl[0]) if rl and len(rl) == 1 else None
    R.check("C06-D4 COSE_Encrypt shape", rec is not None and len(rec) == 3, "one recipient [protected, unprotected, ciphertext]",
            mod=fi_info.module, node=fi_info.node, function=fq_info, expected="[[h'', {...}, cek]]", found=repr(recips)[:200])
    if rec is not None and len(rec) == 3:
        R.check("C06-D4 COSE_Encrypt shape", rec[0] == Const(b""), "recipient protected = h''", mod=fi_info.module, node=fi_info.node,
                function=fq_info, expected="b''", found=repr(rec[0]))
        rp = dict_pairs(rec[1]) or []
        rpd = {k.v: v for k, v in rp if isinstance(k, Const)}
        R.check("C06-D4 COSE_Encrypt shape", set(rpd) == {1, 4} and rpd.get(4) == App("cbor", (P("key_id"),)),
                "recipient unprotected = {1: key-wrap alg, 4: bstr(cbor(key_id))}", mod=fi_info.module, node=fi_info.node,
                function=fq_info, expected="{1: alg, 4: cbor2.dumps(key_id)}", found=repr(rec[1])[:200])
        R.check("C06-D4 COSE_Encrypt shape", rec[2] == P("encrypted_cek"), "recipient ciphertext = encrypted CEK (nil for direct)",
                mod=fi_info.module, node=fi_info.node, function=fq_info, expected="encrypted_cek", found=repr(rec[2]))
        # key-wrap algorithm codes
        key_wrap_codes(ctx, ev0)

    # ---------------------------------------------------------------- D1: AAD literal
    R.rule("C06-D1 AAD = Enc_structure of the emitted header", 1, "literal == cbor(['Encrypt', protected bstr, h''])")
    gka = repo.func(ENC, "Encryptor.generate_kms_artifacts")
    gouts = ev0.outcomes(gka)
    calls = []
    for o in gouts:
        for e in all_effects(o.effects):
            for s in subterms(e):
                if isinstance(s, App) and s.op == "meth:encrypt" and s not in calls:
                    calls.append(s)
    if len(calls) != 1:
        raise AnalysisError(f"{ctx.fq(gka)}: KMS encrypt call not recognised ({len(calls)})")
    kcall = calls[0]
    kw = {a.args[0].v: a.args[1] for a in kcall.args if isinstance(a, App) and a.op == "kw"}
    pos = [a for a in kcall.args[1:] if not (isinstance(a, App) and a.op == "kw")]
    names = ["plaintext", "key_name", "context", "aad"]
    for i, a in enumerate(pos):
        kw.setdefault(names[i], a)
    aad = kw.get("aad")
    if isinstance(prot, Const) and isinstance(prot.v, bytes):
        want = cbor_mini.dumps(["Encrypt", prot.v, b""])
        R.check("C06-D1 AAD = Enc_structure of the emitted header", isinstance(aad, Const) and aad.v == want,
                "associated data passed to the KMS", mod=gka.module, node=kcall.node, function=ctx.fq(gka),
                expected=f"{want.hex()} = cbor(['Encrypt', h'{prot.v.hex()}', h''])",
                found=aad.v.hex() if isinstance(aad, Const) and isinstance(aad.v, bytes) else repr(aad)[:120])

    # ---------------------------------------------------------------- D2: provenance into AES-GCM
    R.rule("C06-D2 provenance", 6, "plaintext and AAD reach AES-GCM unmodified; digest, size and ciphertext describe the same bytes")
    R.check("C06-D2 provenance", kw.get("plaintext") == P("asset_plaintext"), "KMS plaintext = the asset handed to generate_kms_artifacts",
            mod=gka.module, node=kcall.node, function=ctx.fq(gka), expected="plaintext=asset_plaintext", found=repr(kw.get("plaintext"))[:120])
    R.check("C06-D2 provenance", kw.get("key_name") == P("key_name") and kw.get("context") == P("context"), "key name and context passed through",
            mod=gka.module, node=kcall.node, function=ctx.fq(gka), expected="key_name=key_name, context=context",
            found=f"{kw.get('key_name')!r}, {kw.get('context')!r}")
    for impl in kms_impls(ctx):
        f = kms_encrypt_facts(ctx, impl)
        fi = f["fi"]
        if len(f["aes"]) != 1:
            raise AnalysisError(f"{ctx.fq(fi)}: AES-GCM call not recognised ({len(f['aes'])})")
        a = f["aes"][0]
        R.check("C06-D2 provenance", len(a.args) >= 4 and a.args[2] == P("plaintext") and a.args[3] == P("aad"),
                f"{impl.name}.encrypt: AESGCM.encrypt(nonce, plaintext, aad)", mod=fi.module, node=a.node, function=ctx.fq(fi),
                expected="data=plaintext parameter, associated_data=aad parameter", found=repr(a.args[2:])[:200])
        key = a.args[0].args[-1] if a.args[0].args else None
        key_ok = isinstance(key, App) and key.op == "filebytes" and any(s == P("key_name") for s in subterms(key))
        R.check("C06-D2 provenance", key_ok, f"{impl.name}.encrypt: key = whole content of the named key file", mod=fi.module,
                node=a.node, function=ctx.fq(fi), expected="AESGCM(<bytes of keys_directory/key_name.bin>)", found=repr(key)[:200])
    R.rule("C06-D2c key file", 2, "the AES key is read from keys_directory/<key name>.bin, the same file for every read of the call")
    for impl in kms_impls(ctx):
        generic.key_file_rule(ctx, "C06-D2c key file", impl, "encrypt")
    eag = repo.func(ENC, "Encryptor.encrypt_and_generate")
    eouts = [o for o in ev0.outcomes(eag) if o.kind == "return"]
    eouts = generic.sole_outcome(ctx, eouts, f"{ctx.fq(eag)}: expected one normal outcome")
    ecalls = {}
    for e in all_effects(eouts[0].effects):
        if isinstance(e, App) and e.op == "eff:call" and isinstance(e.args[0], App) and e.args[0].op == "call" \
                and isinstance(e.args[0].args[0], Ref):
            ecalls[e.args[0].args[0].obj.name] = e.args[0]
    need = ("generate_digest_size_for_plain_text", "generate_kms_artifacts", "generate_encryption_info_and_encrypted_payload")
    for n in need:
        if n not in ecalls:
            raise AnalysisError(f"{ctx.fq(eag)}: call of {n} not recognised")
    fw = P("firmware")
    R.check("C06-D2 provenance", ecalls[need[0]].args[-1] == fw and ecalls[need[1]].args[2] == fw,
            "digest/size and encryption consume the same firmware bytes", mod=eag.module, node=eag.node, function=ctx.fq(eag),
            expected="generate_digest_size_for_plain_text(firmware); generate_kms_artifacts(firmware, …)",
            found=f"{ecalls[need[0]].args[-1]!r}; {ecalls[need[1]].args[2]!r}")
    dg = repo.func(ENC, "DigestGenerator.generate_digest_size_for_plain_text")
    douts = [o for o in ev0.outcomes(dg) if o.kind == "return"]
    dv = list_items(douts[0].value) if douts else None
    ok = dv is not None and len(dv) == 2 and isinstance(dv[0], App) and dv[0].op == "hash" and dv[0].args[1] == P("plaintext") \
        and dv[1] == App("len", (P("plaintext"),))
    R.check("C06-D2 provenance", ok, "digest = hash(plaintext), size = len(plaintext)", mod=dg.module, node=dg.node, function=ctx.fq(dg),
            expected="(Hash(alg)(plaintext), len(plaintext))", found=repr(douts[0].value)[:200] if douts else "none")
    # results of encrypt_and_generate: (content, tag, info, digest, len) wired from the helper results
    rv = list_items(eouts[0].value)
    R.rule("C06-D2b result wiring", 1, "encrypt_and_generate returns (content, tag, info, digest, size) from the matching helper results")

    def unp(callname, i, n):
        return App("unpack", (ecalls[callname], Const(i), Const(n)))

    want = [unp(need[2], 0, 3), unp(need[2], 1, 3), unp(need[2], 2, 3), unp(need[0], 0, 2), unp(need[0], 1, 2)]
    R.check("C06-D2b result wiring", rv == want, "result tuple", mod=eag.module, node=eag.node, function=ctx.fq(eag),
            expected="(encrypted_payload, tag, encryption_info, digest, plaintext_len)", found=repr(eouts[0].value)[:300])
    a3 = ecalls[need[2]].args
    R.check("C06-D2b result wiring", a3[2] == unp(need[1], 0, 2) and a3[3] == unp(need[1], 1, 2) and a3[4] == P("key_id"),
            "the KMS asset and CEK feed the encryption info", mod=eag.module, node=eag.node, function=ctx.fq(eag),
            expected="generate_encryption_info_and_encrypted_payload(encrypted_asset, encrypted_cek, key_id)", found=repr(a3[2:])[:300])

    # ---------------------------------------------------------------- D3: split and emission order
    R.rule("C06-D3 split and emission order", 6, "asset = nonce(12) | tag(16) | ciphertext; parse boundaries coincide; files written tag | ciphertext")
    routs = [o for o in gouts if o.kind == "return"]
    asset_terms = []
    for o in routs:
        rv_ = list_items(o.value)
        if rv_:
            for g, t in cases(rv_[0]):
                if not any(s == Const(None) for s in cat_parts(_plus_to_cat(t))):
                    asset_terms.append(_plus_to_cat(t))
    if len(asset_terms) != 1:
        raise AnalysisError(f"{ctx.fq(gka)}: encrypted asset term not recognised ({len(asset_terms)})")
    parts = cat_parts(asset_terms[0])
    want_parts = [App("unpack", (kcall, Const(i), Const(3))) for i in range(3)]
    R.check("C06-D3 split and emission order", parts == want_parts, "asset = nonce + tag + ciphertext (order of the KMS result)",
            mod=gka.module, node=gka.node, function=ctx.fq(gka), expected="kms result[0] + result[1] + result[2]",
            found=repr(asset_terms[0])[:300])
    for impl in kms_impls(ctx):
        f = kms_encrypt_facts(ctx, impl)
        fi, ret, a = f["fi"], f["ret"], f["aes"][0]
        ok = ret is not None and len(ret) == 3
        nonce_len = seg_len(ret[0]) if ok else None
        R.check("C06-D3 split and emission order", ok and ret[0] == a.args[1] and nonce_len == 12,
                f"{impl.name}.encrypt returns the 12-byte nonce it used first", mod=fi.module, node=fi.node, function=ctx.fq(fi),
                expected="(nonce, tag, ciphertext) with nonce = the value passed to AESGCM.encrypt, 12 bytes",
                found=f"{ret[0]!r} (length {nonce_len})"[:200] if ok else repr(f["out"].value)[:200])
        tag_ok = ok and ret[1] == App("slice", (a, Const(-16), Const(None), Const(None)))
        ct_ok = ok and ret[2] == App("slice", (a, Const(None), Const(-16), Const(None)))
        if ok and not (tag_ok and ct_ok):
            # other spellings of the same split (an explicit offset len(resp) - 16, ...): decided by evaluating both terms on sample outputs
            from sa.teval import teval as _tev, Unknown as _Unk
            try:
                tag_ok = ct_ok = True
                for n_ in (16, 17, 31, 32, 33, 80):
                    resp_ = bytes(range(n_))
                    if bytes(_tev(ret[1], {a: resp_})) != resp_[-16:]:
                        tag_ok = False
                    if bytes(_tev(ret[2], {a: resp_})) != resp_[:-16]:
                        ct_ok = False
            except _Unk:
                tag_ok = ct_ok = False
        R.check("C06-D3 split and emission order", tag_ok and ct_ok, f"{impl.name}.encrypt splits AES-GCM output into ciphertext | 16-byte tag",
                mod=fi.module, node=fi.node, function=ctx.fq(fi), expected="tag = resp[-16:], ciphertext = resp[:-16]",
                found=f"tag {ret[1]!r}; ct {ret[2]!r}"[:300] if ok else "?")
    sl = lambda lo, hi: App("slice", (asset, Const(lo), Const(hi), Const(None)))
    bounds_ok = iv_term == sl(None, 12) and ret_tag == sl(12, 28) and ret_content == sl(28, None)
    if not bounds_ok and iv_term is not None and ret_tag is not None and ret_content is not None:
        from sa.teval import teval as _tev, Unknown as _Unk
        try:
            bounds_ok = True
            for n_ in (0, 5, 12, 13, 27, 28, 29, 44, 100):
                blob_ = bytes(range(n_))
                env_ = {asset: blob_}
                if (bytes(_tev(iv_term, env_)), bytes(_tev(ret_tag, env_)), bytes(_tev(ret_content, env_))) != (blob_[:12], blob_[12:28], blob_[28:]):
                    bounds_ok = False
        except _Unk:
            bounds_ok = False
    R.check("C06-D3 split and emission order", bounds_ok,
            "parse boundaries 12 / 28 coincide with nonce(12) | tag(16) | ciphertext and the IV published is bytes [0,12)",
            mod=fi_info.module, node=fi_info.node, function=fq_info, expected="iv = asset[:12], tag = asset[12:28], content = asset[28:]",
            found=f"iv {iv_term!r}; tag {ret_tag!r}; content {ret_content!r}"[:300])
    gen = repo.func(ENC, "Encryptor.generate")
    gv = [o for o in ev2.outcomes(gen) if o.kind == "return"]
    gi = list_items(gv[0].value) if gv else None
    same = gi is not None and len(gi) == 3 and gi[0] == ret_content and gi[1] == ret_tag
    R.check("C06-D3 split and emission order", same, "generate-info splits the supplied blob with the same boundaries, no other transformation",
            mod=gen.module, node=gen.node, function=ctx.fq(gen), expected="(asset[28:], asset[12:28], info(asset[:12], cek, key_id))",
            found=repr(gv[0].value)[:300] if gv else "none")
    gep = repo.func(ENC, "Encryptor.generate_encrypted_payload")
    gp = [o for o in ev0.outcomes(gep) if o.kind == "return"]
    R.check("C06-D3 split and emission order", bool(gp) and cat_parts(_plus_to_cat(gp[0].value)) == [P("tag"), P("encrypted_content")],
            "generate_encrypted_payload = tag + encrypted_content", mod=gep.module, node=gep.node, function=ctx.fq(gep),
            expected="tag + encrypted_content", found=repr(gp[0].value)[:120] if gp else "none")

    cli_rules(ctx)
    raw_form_rule(ctx)
    digest_sibling_rule(ctx)


def _plus_to_cat(t):
    if isinstance(t, App) and t.op == "+":
        from sa.terms import mk_cat
        return mk_cat([_plus_to_cat(t.args[0]), _plus_to_cat(t.args[1])])
    return t


def _effects_with_guards(effects, guards=()):
    for e in effects:
        if isinstance(e, App) and e.op == "eff:if":
            yield from _effects_with_guards(e.args[1].args, guards + ((e.args[0], True),))
            yield from _effects_with_guards(e.args[2].args, guards + ((e.args[0], False),))
        elif isinstance(e, App) and e.op in ("eff:loop",):
            yield from _effects_with_guards(e.args[1].args, guards)
        elif isinstance(e, App) and e.op == "eff:partial":
            yield from _effects_with_guards(e.args[0].args, guards)
        else:
            yield e, guards


def cli_rules(ctx):
    """Both CLI functions write tag + encrypted_content, the info unchanged, digest/size of the plaintext."""
    R = ctx.report
    repo = ctx.repo
    ev = Evaluator(repo, inline_depth=0)
    R.rule("C06-D3b CLI file outputs", 8, "each output file receives exactly the matching artifact")
    for fname, n_res, resnames in (("encrypt_and_generate", 5, ["encrypted_content", "tag", "encryption_info", "digest", "plaintext_len"]),
                                   ("generate_info", 3, ["encrypted_content", "tag", "encryption_info"])):
        fi = repo.func(CMD, fname)
        outs = [o for o in ev.outcomes(fi) if o.kind == "return"]
        outs = generic.sole_outcome(ctx, outs, f"{ctx.fq(fi)}: expected one outcome")
        writes = {}
        enc_call = None
        for e in all_effects(outs[0].effects):
            if isinstance(e, App) and e.op == "eff:write":
                fh = e.args[0]
                path = fh.args[0]
                fn = [s.v for s in subterms(path) if isinstance(s, Const) and isinstance(s.v, str) and "." in s.v]
                writes[fn[-1] if fn else repr(path)] = (e.args[1], fh.args[1], path, e)
            if isinstance(e, App) and e.op == "eff:call" and isinstance(e.args[0], App) \
                    and e.args[0].op in ("meth:encrypt_and_generate", "meth:generate"):
                enc_call = e.args[0]
        if enc_call is None:
            raise AnalysisError(f"{ctx.fq(fi)}: encryptor call not recognised")
        res = {n: App("unpack", (enc_call, Const(i), Const(n_res))) for i, n in enumerate(resnames)}
        fq = ctx.fq(fi)
        # every artifact file is written on every normal path: no condition (truthiness of a result, state of the output directory)
        cond_w = [(e, g) for e, g in _effects_with_guards(outs[0].effects) if isinstance(e, App) and e.op in ("eff:write", "eff:open") and g]
        R.check("C06-D3b CLI file outputs", not cond_w, f"{fname}: every output file is written unconditionally", mod=fi.module,
                node=cond_w[0][0].node if cond_w and getattr(cond_w[0][0], "node", None) is not None else fi.node, function=fq,
                expected="the files of one invocation describe the same encryption: none is skipped or left from an earlier run",
                found=f"write under {[repr(c)[:80] for c, _ in cond_w[0][1]][:2]}" if cond_w else "", key_extra="unconditional")

        def chk(fname_, want, mode):
            got = writes.get(fname_)
            OUT = App("idx", (P("kwargs"), Const("output_dir")))
            in_dir = False
            if got is not None:
                pth = got[2]
                if isinstance(pth, App) and pth.op == "call:os.path.join":
                    # join(dir, name): the other way round puts the name first (and an absolute directory swallows it)
                    in_dir = list(pth.args) == [OUT, Const(fname_)]
                elif isinstance(pth, App) and pth.op == "/":
                    in_dir = pth.args[1] == Const(fname_) and any(s == OUT for s in subterms(pth.args[0]))
                else:
                    in_dir = any(s == OUT for s in subterms(pth))
            ok = got is not None and _plus_to_cat(got[0]) == want and got[1] == Const(mode) and in_dir
            R.check("C06-D3b CLI file outputs", ok, f"{fname}: {fname_}", mod=fi.module, node=got[3].node if got else fi.node,
                    function=fq, expected=f"{fname_} <- {want!r} (mode {mode!r}) in output_dir",
                    found=f"{got[0]!r} mode {got[1]!r}"[:240] if got else "not written", key_extra=fname_)

        from sa.terms import mk_cat
        chk("encrypted_content.bin", mk_cat([res["tag"], res["encrypted_content"]]), "wb")
        chk("suit_encryption_info.bin", res["encryption_info"], "wb")
        if n_res == 5:
            chk("plain_text_digest.bin", res["digest"], "wb")
            chk("plain_text_size.txt", App("call:str", (res["plaintext_len"],)), "w")
        # inputs: whole binary content of the named files
        pos = [a for a in enc_call.args[1:]]
        first = pos[0] if pos else None
        src = "firmware" if n_res == 5 else "encrypted_firmware"
        R.check("C06-D3b CLI file outputs", first == App("filebytes", (App("idx", (P("kwargs"), Const(src))),)),
                f"{fname}: input = whole binary content of --{src.replace('_', '-')}", mod=fi.module, node=fi.node, function=fq,
                expected=f"open(kwargs[{src!r}], 'rb').read()", found=repr(first)[:160], key_extra="input")
    R.rule("C06-D3c CLI plumbing", 8, "key id / key name / algorithms are passed to the parameters of the same name")
    base = repo.cls("suit_generator.suit_encrypt_script_base", "SuitEncryptorBase")
    n = 0
    for fname, meth in (("encrypt_and_generate", "encrypt_and_generate"), ("generate_info", "generate")):
        fi = repo.func(CMD, fname)
        target = base.methods[meth]
        params = target.params()[1:]
        for node in ast.walk(fi.node):
            if isinstance(node, ast.Call) and isinstance(node.func, ast.Attribute) and node.func.attr == meth:
                for i, a in enumerate(node.args):
                    inner = a.args[0] if isinstance(a, ast.Call) and len(a.args) == 1 else a
                    if isinstance(a, ast.Call) and not (len(a.args) == 1 and not a.keywords and (lambda r_: r_ and r_[0] == "class")(repo.resolve_expr(fi.module, a.func))):
                        hs = [argname.hint(x) for x in ast.walk(a) if isinstance(x, (ast.Subscript, ast.Call)) and x is not a]
                        hs = [h_ for h_ in hs if h_ in params]
                        if hs and not (isinstance(a.func, ast.Attribute) and a.func.attr == "read"):
                            n += 1
                            R.fail("C06-D3c CLI plumbing", f"{fname}: {hs[0]}", mod=fi.module, node=node, function=ctx.fq(fi),
                                   expected=f"kwargs[{hs[0]!r}] (or <Enum>(kwargs[{hs[0]!r}])) is passed on",
                                   found=f"the option value goes through {ast.unparse(a.func)[:40]}(...), which may replace it", key_extra=f"wrap{hs[0]}")
                            continue
                    h = argname.hint(inner)
                    if h in params and i < len(params):
                        n += 1
                        R.check("C06-D3c CLI plumbing", params[i] == h, f"{fname}: {h}", mod=fi.module, node=node, function=ctx.fq(fi),
                                expected=f"kwargs[{h!r}] -> parameter {h}", found=f"-> parameter {params[i]}", key_extra=f"{i}{h}")
    if n < 8:
        raise AnalysisError(f"cmd_encrypt: only {n} named bindings recognised")


def raw_form_rule(ctx):
    """C06-D5: the raw / file form of suit-parameter-encryption-info leaves bstr .cbor COSE_Encrypt_Tagged."""
    R = ctx.report
    repo = ctx.repo
    S = ctx.schema
    generic.cli_converters(ctx, "C06-D3d CLI converters", "suit_generator.cmd_encrypt", 8)
    generic.subcommand_dispatch(ctx, "C06-D3e sub-command dispatch", "suit_generator.cmd_encrypt", 2)
    R.rule("C06-D5 raw encryption info accepted unchanged", 4, "file content loses exactly one bstr layer on load and regains exactly one on encode")
    fi = repo.func("suit_generator.suit.security", "SuitEncryptionInfoExt.from_obj")
    ev = Evaluator(repo, inline_depth=0)
    outs = [o for o in ev.outcomes(fi) if o.kind == "return"]
    outs = generic.sole_outcome(ctx, outs, f"{ctx.fq(fi)}: expected one normal outcome")
    v = outs[0].value
    # super().from_cbor(super().deserialize_cbor(<bytes>))
    ok = False
    src = None
    if isinstance(v, App) and v.op == "call" and isinstance(v.args[0], Ref) and v.args[0].obj.name == "from_cbor":
        inner = v.args[-1]
        if isinstance(inner, App) and inner.op == "call" and isinstance(inner.args[0], Ref) \
                and inner.args[0].obj.name == "deserialize_cbor":
            src = inner.args[-1]
            ok = v.args[0].obj.cls is not None and v.args[0].obj.cls.name == "SuitBstr"
    R.check("C06-D5 raw encryption info accepted unchanged", ok, "from_obj = SuitBstr.from_cbor(deserialize_cbor(<bytes>)) (one layer removed)",
            mod=fi.module, node=fi.node, function=ctx.fq(fi), expected="exactly one deserialize_cbor", found=repr(v)[:200])
    if src is not None:
        alts = {repr(t) for g, t in cases(src)}
        obj = P("obj")
        want = {repr(App("filebytes", (App("idx", (obj, Const("file"))),))),
                repr(App("a2b_hex", (App("idx", (obj, Const("raw"))),)))}
        R.check("C06-D5 raw encryption info accepted unchanged", alts == want, "bytes come from the whole file / the raw hex string",
                mod=fi.module, node=fi.node, function=ctx.fq(fi), expected=f"{sorted(want)}", found=f"{sorted(alts)}"[:300])
    # SuitBstr.to_cbor adds one layer; the alternative sits at wrap depth 0 next to cbstr(CoseEncryptTagged)
    tb = repo.func("suit_generator.suit.types.common", "SuitBstr.to_cbor")
    touts = [o for o in ev.outcomes(tb) if o.kind == "return"]
    ok = len(touts) == 1 and isinstance(touts[0].value, App) and touts[0].value.op == "call" \
        and touts[0].value.args[0].obj.name == "serialize_cbor" and touts[0].value.args[-1] == App("attr:value", (P("self"),))
    ext = repo.cls("suit_generator.suit.security", "SuitEncryptionInfoExt")
    ok = ok and ext.methods.get("to_cbor") is None and repo.lookup_method(ext, "to_cbor") is tb
    R.check("C06-D5 raw encryption info accepted unchanged", ok, "encode = serialize_cbor(value) (one layer added)", mod=tb.module,
            node=tb.node, function=ctx.fq(tb), expected="SuitBstr.to_cbor inherited unchanged", found=repr(touts[0].value)[:160] if touts else "?")
    union = repo.cls("suit_generator.suit.security", "SuitEncryptionInfo")
    mi = S.metadata_of(union)
    alts = [(c.cls.name if c.cls else "?", c.wrap) for c in (mi.children or [])]
    tagged = [a for a in mi.children if a.cls is not None and S.kind(a.cls) == "tag"]
    ok = len(tagged) == 1 and tagged[0].wrap == 1 and any(a.cls is ext and a.wrap == 0 for a in mi.children)
    R.check("C06-D5 raw encryption info accepted unchanged", ok, "alternatives: cbstr(<tag 96 node>) and the raw form at depth 0",
            mod=union.module, node=mi.node, function=union.fq, expected="[cbstr(CoseEncryptTagged), SuitEncryptionInfoExt]",
            found=f"{alts}")


def digest_sibling_rule(ctx):
    R = ctx.report
    repo = ctx.repo
    ev = ctx.ev
    R.rule("C06-D6 digest table sibling", 5, "DigestGenerator and SuitHash agree on primitive and output length per algorithm")
    dg = repo.cls(ENC, "DigestGenerator")
    sh = repo.cls("suit_generator.suit.security", "SuitHash")
    t1, n1 = generic.hash_table_of(ctx, dg, "generate_digest_size_for_plain_text")
    t2, _n2 = generic.hash_table_of(ctx, sh, "hash")
    d1 = {k.v: repr(v) for k, v in (dict_pairs(t1) or []) if isinstance(k, Const)}
    d2 = {k.v: repr(v) for k, v in (dict_pairs(t2) or []) if isinstance(k, Const)}
    if len(d1) < 5 or len(d2) < 5:
        raise AnalysisError("hash tables not foldable")
    for name, prim in sorted(d1.items()):
        sib = d2.get("cose-alg-" + name)
        R.check("C06-D6 digest table sibling", sib == prim, f"{name}", mod=dg.module, node=n1, function=dg.fq,
                expected=f"same primitive as SuitHash['cose-alg-{name}'] = {sib}", found=prim, key_extra=name)
