"""Rules shared between properties.

A property's check is its own rules plus the rules of neighbouring checks listed here: each listed rule states a condition that is
necessary for the borrowing property as well - shown by a seeded change (seeded/<id>/, written for the borrowing property, with a
demonstration that the property's own statement fails) that only that rule reports.  The neighbour's rules are run on the same
tree; the instances and violations of the listed rules are taken over (reported under the borrowing property), everything else
the neighbour reports is ignored here - it belongs to the neighbour's own check.

BORROWED[property] = {neighbour: {rule id: seeded changes that show the dependence}}
TRAP_FILES[property] = further files whose language traps (G3) concern the property, with the seeded change that shows it."""

BORROWED = {
    "C01": {"C02": {"C02-D5c children embedded by value": "C01-r2-1"},
            "C05": {"C05-G1 no normal exit skips the work": "C01-r3-3"}},
    "C02": {"C01": {"C01-D3 no severable member skipped": "C02-3, C02-r4-1"},
            "C05": {"C05-D1a digest forms": "C02-r3-1", "C05-D1c size forms": "C02-r6-1"},
            "C06": {"C06-G1 no normal exit skips the work": "C02-r4-3"},
            "C13": {"C13-D1a description forms": "C02-r2-3"},
            "C18": {"C18-D2 no shared state written after import": "C02-r2-3"}},
    "C03": {"C02": {"C02-D2 order preserving encode path": "C03-r2-3", "C02-D5b constructors store the value unchanged": "C03-r6-3"},
            "C08": {"C08-b uniqueness": "C03-r6-2"},
            "C05": {"C05-D1e payload forms": "C03-r4-2", "C05-D2 dependency embedded = dependency created alone": "C03-r2-1",
                    "C05-D1h literal hex recognised": "C03-r5-3"},
            "C18": {"C18-D1 no nondeterministic source on the deterministic commands": "C03-r2-1"}},
    "C04": {"C09": {"C09-D1e skip dominates signing": "C04-r2-2", "C09-D4 recursive wiring": "C04-r4-1",
                    "C09-D4b own key, bottom-up, same name": "C04-r2-3, C04-r3-2",
                    "C09-D3b checked key = signing key": "C04-r5-2"},
            "C18": {"C18-D2 no shared state written after import": "C04-r2-2"}},
    "C05": {"C01": {"C01-D5 hash table": "C05-r2-2"},
            "C18": {"C18-D1b no memoisation": "C05-r2-1"}},
    "C07": {"C13": {"C13-D2d assign_role plumbing": "C07-3", "C13-D4 quoted configuration values stay text": "C07-r3-3"},
            "C18": {"C18-D2 no shared state written after import": "C07-r2-3"}},
    "C08": {"C02": {"C02-D1 shape": "C08-r3-2"},
            "C03": {"C03-D3 union alternatives and order": "C08-r3-2"},
            "C17": {"C17-D3 nullable metadata": "C08-r6-3"}},
    "C09": {"C04": {"C04-D1b authentication block": "C09-r4-2", "C04-D3 fixed-width r||s": "C09-r4-1",
                    "C04-D2 protected header": "C09-r6-3"}},
    "C10": {"C11": {"C11-D1a selection": "C10-r3-1, C10-r4-3", "C11-D1c pairing": "C10-r5-3"},
            "C18": {"C18-D2 no shared state written after import": "C10-r2-2"}},
    "C11": {"C10": {"C10-D2r padding result (refutation)": "C11-r4-3"}},
    "C13": {"C19": {"C19-D2 build glue": "C13-r3-1", "C19-D1d root: installed-manifest identifiers and coverage": "C13-r5-3"}},
    "C14": {"C06": {"C06-D2b result wiring": "C14-r2-3", "C06-D3b CLI file outputs": "C14-r4-2",
                    "C06-G1 no normal exit skips the work": "C14-r2-1"},
            "C18": {"C18-D2 no shared state written after import": "C14-r2-3"}},
    "C16": {"C18": {"C18-D1b no memoisation": "C16-r2-2"}},
    "C17": {"C02": {"C02-D1 shape": "C17-r2-2"}},
    "C18": {"C05": {"C05-D1a digest forms": "C18-r3-2", "C05-D1f payload classification": "C18-r3-3, C18-r4-2"},
            "C12": {"C12-G2 the analysed effect is present": "C18-r5-2"},
            "C09": {"C09-D2 no output on refusal": "C18-r5-3"},
            "C04": {"C04-D1a Sig_structure": "C18-r6-3"}},
    "C19": {"C05": {"C05-D1a digest forms": "C19-2, C19-r2-2, C19-r3-2, C19-r4-2"},
            "C13": {"C13-D1a description forms": "C19-r2-1", "C13-D3 template fallback names": "C19-r6-2"},
            "C17": {"C17-D1b from_cbor receives bytes": "C19-r6-3"},
            "C20": {"C20-D3c nothing is published for a missing value": "C19-r4-3"}},
    "C20": {"C18": {"C18-D2 no shared state written after import": "C20-r2-1"}},
}

TRAP_FILES = {
    "C01": {"suit_generator/suit/manifest.py": "C01-r3-2", "suit_generator/suit/types/common.py": "the manifest bytes the digest covers are produced there"},
    "C19": {"suit_generator/suit/types/common.py": "C19-r6-1: what the templates render is accepted or refused by the generic model classes"},
}

# rules that are declared only when they have something to report (a refutation, an exit that skips the work): their absence from a
# neighbour's run that ended normally means "nothing to report"
LAZY = {"C12-G2 the analysed effect is present", "C05-D1f payload classification", "C05-D1h literal hex recognised", "C05-G1 no normal exit skips the work", "C06-G1 no normal exit skips the work", "C10-D2r padding result (refutation)"}
