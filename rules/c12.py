"""C12 — MPI records and merged MPI areas have the exact device layout."""
from __future__ import annotations

import ast
from itertools import product

from sa.absint import Evaluator, all_effects, flatten_effects
from sa.index import AnalysisError, walk_no_nested
from sa.teval import Raised, Unknown, disjuncts, ge0_form, lin_key, linear, lin_sub, teval
from sa.terms import App, Const, Ref, Sym, cases, cat_parts, subterms
from . import argname, generic
from .layout import DNS, class_uuid, find_effect_calls, seg_len, segments, vendor_uuid

EXPLANATION = ("abstract evaluation of MpiGenerator.generate/merge to byte-layout terms; the policy decision table "
               "(2x2x3 rows + rejection) is expanded completely and compared with the reference record; merge bounds test "
               "compared in linear normal form; ordering of pad/extract/digest/write effects checked on every path; "
               "no repository code executed")

MOD = "suit_generator.cmd_mpi"
REF_ROWS = {  # (downgrade prevention, independent updates, signature verification) -> policy bytes
    (dp, iu, sv): bytes([1, 2 if dp else 1, 2 if iu else 1, {None: 1, "update": 2, "update-and-boot": 3}[sv]])
    for dp in (False, True) for iu in (False, True) for sv in (None, "update", "update-and-boot")
}


def run(ctx):
    generic.kwargs_keys_are_dests(ctx, "C12-D4c keyword reads are option destinations", "suit_generator.cmd_mpi")
    R = ctx.report
    _u32 = [0, 1, 16, 0x0E1EE000, 0x7FFFFFFF, 0x80000000, 0x80000001, 0xFFFFFF00]
    for _q in ("MpiGenerator.generate", "MpiGenerator.merge"):
        generic.no_refusal_on_grid(ctx, "C12-D4 no legal address or size is refused", ctx.repo.func(MOD, _q), {"address": _u32, "size": [48, 64, 240, 256, 4096]},
                                   inline_depth=2, what="32-bit addresses and area sizes")
    generic.cli_converters(ctx, "C12-D3b CLI converters", "suit_generator.cmd_mpi", 4)
    generic.subcommand_dispatch(ctx, "C12-D3c sub-command dispatch", "suit_generator.cmd_mpi", 2)
    repo = ctx.repo
    ctx.use_files("suit_generator/cmd_mpi.py")
    generic.loops_run_to_end(ctx, "C12-D2f every input file is merged", repo.func(MOD, "MpiGenerator.merge"), {"merge", "loadhex", "fromfile", "IntelHex"}, "input files", floor=0)
    ev = Evaluator(repo)
    gen = repo.func(MOD, "MpiGenerator.generate")
    fq = ctx.fq(gen)
    outs = ev.outcomes(gen)
    rets = [o for o in outs if o.kind == "return"]
    raises = [o for o in outs if o.kind == "raise"]
    rets = generic.sole_outcome(ctx, rets, f"{fq}: expected one normal outcome, found {len(rets)}")
    o = rets[0]

    # ---- D1: record bytes placed at address and written to the output file
    R.rule("C12-D1a record placement", 3, "one IntelHex receives ljust(record, size, 0xFF) at address and is written to output_file")
    fb = find_effect_calls(o.effects, "meth:frombytes")
    wr = find_effect_calls(o.effects, "meth:write_hex_file")
    if len(fb) == 0 or len(wr) == 0:
        generic.absent(ctx, "MPI record", gen, "frombytes(record, address) and write_hex_file(output_file)", "the record is not written")
    if len(fb) != 1 or len(wr) != 1:
        raise AnalysisError(f"{fq}: frombytes/write_hex_file effects not recognised ({len(fb)}/{len(wr)})")
    fbt, wrt = fb[0], wr[0]
    hexobj, data, addr = fbt.args[0], fbt.args[1], fbt.args[2] if len(fbt.args) > 2 else None
    R.check("C12-D1a record placement", addr == Sym("param:address"), "record placed at the given address", mod=gen.module,
            node=fbt.node, function=fq, expected="frombytes(record, address)", found=f"offset {addr!r}")
    R.check("C12-D1a record placement", wrt.args[0] == hexobj and wrt.args[1] == Sym("param:output_file"),
            "the same hex object is written to output_file", mod=gen.module, node=wrt.node, function=fq,
            expected="write_hex_file(output_file) on the object that received the record",
            found=f"{wrt!r}"[:200])
    others = [e for e in all_effects(o.effects) if isinstance(e, App) and e.op == "eff:call" and isinstance(e.args[0], App)
              and e.args[0].op.startswith("meth:") and e.args[0].args and e.args[0].args[0] == hexobj
              and e.args[0].op not in ("meth:frombytes", "meth:write_hex_file")]
    pad_ok = isinstance(data, App) and data.op == "meth:ljust" and data.args[1] == Sym("param:size") \
        and len(data.args) > 2 and data.args[2] == Const(b"\xff")
    R.check("C12-D1a record placement", pad_ok and not others, "record padded with 0xFF to the reserved size, nothing else stored",
            mod=gen.module, node=fbt.node, function=fq, expected="record.ljust(size, b'\\xff') and no other data in the file",
            found=f"{repr(data)[:160]}; other writes {others}")
    if not (isinstance(data, App) and data.op == "meth:ljust"):
        return
    record = data.args[0]

    # ---- D1: decision table
    R.rule("C12-D1b policy table", 12, "every (downgrade prevention, independent updates, signature verification) row equals the reference")
    R.rule("C12-D1c record fields", 4, "reserved bytes, vendor UUID and class UUID follow the policy bytes")
    dp, iu, sv = Sym("param:downgrade_prevention_enabled"), Sym("param:independent_updates"), Sym("param:signature_verification")
    vend, cls = Sym("param:vendor_name"), Sym("param:class_name")
    field_terms = {}
    for (vdp, viu, vsv), want in sorted(REF_ROWS.items(), key=repr):
        env = {dp.name: vdp, iu.name: viu, sv.name: vsv}
        inst = f"dp={vdp} iu={viu} sv={vsv!r}"
        try:
            # substitute the finite inputs, keep the remaining fields symbolic: evaluate part by part
            parts = cat_parts(record)
            prefix = b""
            rest = []
            for p in parts:
                try:
                    v = teval(p, env)
                    if not isinstance(v, (bytes, bytearray)):
                        raise Unknown("not bytes")
                    if rest:
                        rest.append(("const", bytes(v)))
                    else:
                        prefix += bytes(v)
                except Unknown:
                    rest.append(("field", p))
        except Raised:
            R.fail("C12-D1b policy table", inst, mod=gen.module, node=gen.node, function=fq, expected=want.hex(),
                   found="raises", key_extra=inst)
            continue
        # the raise outcome must not be taken for this row
        taken = False
        for r in raises:
            try:
                if all(teval(c, env) for c in r.conds):
                    taken = True
            except Unknown:
                pass
        ok = prefix[:4] == want and not taken
        R.check("C12-D1b policy table", ok, inst, mod=gen.module, node=gen.node, function=fq, key_extra=inst,
                expected=f"bytes 0..3 = {want.hex()}", found=f"{prefix[:4].hex()}{' (rejected)' if taken else ''}")
        field_terms[(vdp, viu, vsv)] = (prefix[4:], rest)
    shapes = {(p, tuple(repr(x) for x in r)) for p, r in field_terms.values()}
    if len(shapes) == 1 and field_terms:
        prefix_rest, rest = next(iter(field_terms.values()))
        R.check("C12-D1c record fields", prefix_rest == b"\xff" * 12, "bytes 4..15 reserved = 0xFF x 12", mod=gen.module,
                node=gen.node, function=fq, expected="ff" * 12, found=prefix_rest.hex())
        fields = [x[1] for x in rest if x[0] == "field"]
        consts = [x for x in rest if x[0] == "const"]
        vid_ok = len(fields) >= 1 and fields[0] == App("attr:bytes", (vendor_uuid(vend),))
        cid_ok = len(fields) >= 2 and fields[1] == App("attr:bytes", (class_uuid(vend, cls),))
        R.check("C12-D1c record fields", vid_ok, "bytes 16..31 = UUIDv5(DNS, vendor)", mod=gen.module, node=gen.node,
                function=fq, expected="uuid5(NAMESPACE_DNS, vendor_name).bytes", found=repr(fields[0])[:160] if fields else "none")
        R.check("C12-D1c record fields", cid_ok, "bytes 32..47 = UUIDv5(UUIDv5(DNS, vendor), class)", mod=gen.module,
                node=gen.node, function=fq, expected="uuid5(uuid5(NAMESPACE_DNS, vendor_name), class_name).bytes",
                found=repr(fields[1])[:160] if len(fields) > 1 else "none")
        R.check("C12-D1c record fields", len(fields) == 2 and not consts, "nothing follows the class UUID", mod=gen.module,
                node=gen.node, function=fq, expected="record = 16 header bytes + vid + cid", found=f"{len(fields)} fields, {consts}")
    else:
        R.fail("C12-D1c record fields", "fields differ between policy rows", mod=gen.module, node=gen.node, function=fq,
               expected="same reserved/vid/cid fields on every row", found=f"{len(shapes)} different layouts")

    # unsupported policy strings are rejected with GeneratorError
    R.rule("C12-D1d rejection", 1, "an unsupported signature-verification value is rejected")
    env = {dp.name: False, iu.name: False, sv.name: "something-else"}
    rej = []
    for r in raises:
        try:
            if all(teval(c, env) for c in r.conds):
                rej.append(r)
        except Unknown:
            pass
    name = None
    if rej:
        v = rej[0].value
        name = v.args[0].obj.name if isinstance(v, App) and v.op == "new" and isinstance(v.args[0], Ref) else repr(v)[:40]
    R.check("C12-D1d rejection", bool(rej) and name == "GeneratorError", "signature_verification='something-else'",
            mod=gen.module, node=gen.node, function=fq, expected="raise GeneratorError", found=f"{name or 'accepted'}")

    # CLI choices are exactly the literals handled
    R.rule("C12-D1e CLI choices", 1, "--signature-verification choices are the handled literals")
    addargs = repo.func(MOD, "add_arguments")
    choices = None
    for n in walk_no_nested(addargs.node):
        if isinstance(n, ast.Call) and n.args and isinstance(n.args[0], ast.Constant) \
                and n.args[0].value == "--signature-verification":
            for k in n.keywords:
                if k.arg == "choices":
                    choices = ev.const(k.value, addargs.module)
    if choices is None:
        raise AnalysisError("cmd_mpi.add_arguments: --signature-verification choices not found")
    R.check("C12-D1e CLI choices", sorted(choices) == ["update", "update-and-boot"], "choices", mod=addargs.module,
            node=addargs.node, function=ctx.fq(addargs), expected="['update', 'update-and-boot']", found=f"{sorted(choices)}")

    merge_rules(ctx, ev)

    R.rule("C12-D3 argument plumbing", 11, "main(**kwargs) passes each value to the parameter of the same name")
    n = argname.check_function(ctx, "C12-D3 argument plumbing", repo.func(MOD, "main"))
    if n < 11:
        raise AnalysisError(f"cmd_mpi.main: only {n} named bindings recognised")


def merge_rules(ctx, ev):
    R = ctx.report
    repo = ctx.repo
    mg = repo.func(MOD, "MpiGenerator.merge")
    fq = ctx.fq(mg)
    outs = ev.outcomes(mg)
    rets = [o for o in outs if o.kind == "return"]
    raises = [o for o in outs if o.kind == "raise"]
    rets = generic.sole_outcome(ctx, rets, f"{fq}: expected one normal outcome")
    o = rets[0]
    address, size = Sym("param:address"), Sym("param:size")

    R.rule("C12-D2a bounds test", 3, "an input reaching outside [address, address+size-1] is rejected before it is merged")
    merges = find_effect_calls(o.effects, "meth:merge")
    if len(merges) == 0:
        generic.absent(ctx, "merge of the inputs", mg, "merged_hex.merge(<input>) for every input file", "no input record reaches the merged area")
    if len(merges) != 1:
        raise AnalysisError(f"{fq}: merge call not recognised")
    mcall = merges[0]
    target, slot = mcall.args[0], mcall.args[1]
    # the rejecting path: conditions over minaddr/maxaddr of the same slot object
    want = None
    rej = [r for r in raises if any(any(isinstance(s, App) and s.op in ("meth:minaddr", "meth:maxaddr") for s in subterms(c))
                                    for c in r.conds)]
    ok = False
    found = "no rejecting path"
    if rej:
        r = rej[0]
        cond = [c for c in r.conds if any(isinstance(s, App) and s.op in ("meth:minaddr", "meth:maxaddr") for s in subterms(c))][-1]
        ds = disjuncts(cond)
        forms = set()
        good = True
        for d in ds:
            g = ge0_form(d)
            if g is None:
                good = False
                break
            forms.add(lin_key(g))
        mn = App("meth:minaddr", (slot,))
        mx = App("meth:maxaddr", (slot,))
        want = {lin_key(ge0_form(App("<", (mn, address)))),
                lin_key(ge0_form(App(">", (mx, App("-", (App("+", (address, size)), Const(1)))))))}
        ok = good and forms == want
        found = repr(cond)[:200]
        # the merge must not be among the effects that happened before the raise
        pre = find_effect_calls(r.effects, "meth:merge")
        R.check("C12-D2a bounds test", not any(m.args[1] == slot for m in pre), "rejection precedes the merge of that input",
                mod=mg.module, node=r.node, function=fq, expected="raise before merged_hex.merge(slot_hex)",
                found="merge happens before the bounds test")
        exc = r.value
        en = exc.args[0].obj.name if isinstance(exc, App) and exc.op == "new" and isinstance(exc.args[0], Ref) else "?"
        ok = ok and en == "GeneratorError"
    R.check("C12-D2a bounds test", ok, "min < address or max > address + size - 1  ->  GeneratorError", mod=mg.module,
            node=mg.node, function=fq, expected="minaddr() < address or maxaddr() > address + size - 1 (any equivalent linear form)",
            found=found)

    # every input file is merged: nothing but the file list test and the bounds test stands between an input and its merge
    from .c11 import _with_guards
    files_p = Sym("param:files")
    mg_guards = [g for e, g in _with_guards(o.effects) if isinstance(e, App) and e.op == "eff:call" and e.args[0] is mcall or (
        isinstance(e, App) and e.op == "eff:call" and e.args[0] == mcall)]
    extra_g = []
    for g in mg_guards[:1]:
        for c, pol in g:
            is_files = c in (App("is not", (files_p, Const(None))), files_p) and pol or (c == App("is", (files_p, Const(None))) and not pol)
            is_bounds = any(isinstance(s_, App) and s_.op in ("meth:minaddr", "meth:maxaddr") for s_ in subterms(c)) and not pol \
                and rej and c == [c_ for c_ in rej[0].conds if any(isinstance(s_, App) and s_.op in ("meth:minaddr", "meth:maxaddr") for s_ in subterms(c_))][-1]
            if not (is_files or is_bounds):
                extra_g.append((c, pol))
    R.check("C12-D2a bounds test", bool(mg_guards) and not extra_g, "every input that passes the bounds test is merged", mod=mg.module, node=mcall.node,
            function=fq, expected="for file in files: bounds test; merge - no other condition skips an input",
            found=f"merge also depends on {[(repr(c)[:80], pol) for c, pol in extra_g][:2]}")
    R.rule("C12-D2b overlap policy", 1, "inputs are merged with overlap='error'")
    kws = {a.args[0].v: a.args[1] for a in mcall.args if isinstance(a, App) and a.op == "kw"}
    pos_overlap = mcall.args[2] if len(mcall.args) > 2 and not (isinstance(mcall.args[2], App) and mcall.args[2].op == "kw") else None
    ov = kws.get("overlap", pos_overlap)
    R.check("C12-D2b overlap policy", ov is None or ov == Const("error"), "merge(slot) overlap policy", mod=mg.module,
            node=mcall.node, function=fq, expected="default overlap='error' (overlapping inputs raise)", found=f"overlap={ov!r}")

    R.rule("C12-D2c area extraction", 4, "0xFF fill, exact [address, address+size-1] range, SHA-256 over exactly that, appended, placed at address")
    seqs = list(flatten_effects(o.effects))
    tob = find_effect_calls(o.effects, "meth:tobinstr")
    if len(tob) != 1:
        raise AnalysisError(f"{fq}: tobinstr not recognised")
    tb = tob[0]
    # padding set on the merged object before tobinstr on every path
    pad_ok = True
    for seq in seqs:
        idx_t = [i for i, e in enumerate(seq) if isinstance(e, App) and e.op == "eff:call" and e.args[0] == tb]
        idx_p = [i for i, e in enumerate(seq) if isinstance(e, App) and e.op == "eff:setattr" and e.args[0] == target
                 and e.args[1] == Const("padding") and e.args[2] == Const(0xFF)]
        if idx_t and not (idx_p and idx_p[-1] < idx_t[0]):
            pad_ok = False
    R.check("C12-D2c area extraction", pad_ok and tb.args[0] == target, "padding = 0xFF precedes the extraction from the merged object",
            mod=mg.module, node=tb.node, function=fq, expected="merged_hex.padding = 0xFF before merged_hex.tobinstr(...)",
            found="padding not set to 0xFF before extraction" if tb.args[0] == target else "extraction from another object")
    start = tb.args[1] if len(tb.args) > 1 else None
    end = tb.args[2] if len(tb.args) > 2 else None
    rng_ok = False
    if start is not None and end is not None and not any(isinstance(a, App) and a.op == "kw" for a in tb.args):
        ls, le = linear(start), linear(end)
        if ls and le:
            rng_ok = lin_key(ls) == lin_key(linear(address)) and lin_key(lin_sub(le, ls)) == lin_key(linear(App("-", (size, Const(1)))))
    R.check("C12-D2c area extraction", rng_ok, "tobinstr(start=address, end=address+size-1) (inclusive end)", mod=mg.module,
            node=tb.node, function=fq, expected="exactly size bytes starting at address", found=f"start={start!r} end={end!r}"[:200])
    fb = find_effect_calls(o.effects, "meth:frombytes")
    wr = find_effect_calls(o.effects, "meth:write_hex_file")
    if len(fb) == 0 or len(wr) == 0:
        generic.absent(ctx, "merged area", mg, "frombytes(area + digest, address) and write_hex_file(output_file)", "the merged area is not written")
    if len(fb) != 1 or len(wr) != 1:
        raise AnalysisError(f"{fq}: output effects not recognised")
    out_data, out_addr = fb[0].args[1], fb[0].args[2] if len(fb[0].args) > 2 else None
    want_hash = App("hash", (App("call:cryptography.hazmat.primitives.hashes.SHA256", ()), tb))
    parts = cat_parts(out_data)
    R.check("C12-D2c area extraction", parts == [tb, want_hash], "output = area || SHA-256(area)", mod=mg.module, node=fb[0].node,
            function=fq, expected="merged_bin + SHA256(merged_bin)", found=repr(out_data)[:240])
    R.check("C12-D2c area extraction", out_addr == address and wr[0].args[0] == fb[0].args[0]
            and wr[0].args[1] == Sym("param:output_file"), "output placed at address and written to output_file",
            mod=mg.module, node=fb[0].node, function=fq, expected="frombytes(data, address); write_hex_file(output_file)",
            found=f"offset {out_addr!r}")
