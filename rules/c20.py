"""C20 — version strings and default sequence numbers preserve release ordering (structural necessary conditions)."""
from __future__ import annotations

import ast
import re

from . import generic
from sa.absint import Evaluator, all_effects
from sa.index import AnalysisError
from sa.terms import App, Const, Ref, Sym, cases, cat_parts, subterms

EXPLANATION = ("the pre-release table is folded and checked to be {alpha<beta<rc<0}; the version-part converter is "
               "abstractly evaluated (numeric -> int, label -> exact-name lookup in that table, failure -> ValueError); "
               "the default sequence number is extracted as a shift polynomial whose constants prove lexicographic "
               "monotonicity for lower fields < 256; the regex alternation of the build glue is parsed and compared with "
               "the table; no repository code executed")

MAN = "suit_generator.suit.manifest"



def version_part_converter(repo):
    """The converter of one version field: by its name, or - renamed, moved and re-signed - the one private function of the
    repository that SuitComponentVersion.from_obj calls."""
    try:
        return repo.func(MAN, "SuitComponentVersion._convert_version_part")
    except AnalysisError:
        pass
    fo = repo.func(MAN, "SuitComponentVersion.from_obj")
    cands = {}
    for n in ast.walk(fo.node):
        if isinstance(n, ast.Call) and isinstance(n.func, (ast.Name, ast.Attribute)):
            nm = n.func.id if isinstance(n.func, ast.Name) else n.func.attr
            if not nm.startswith("_") or nm.startswith("__"):
                continue
            r = repo.resolve_expr(fo.module, n.func)
            if r is None and isinstance(n.func, ast.Attribute) and isinstance(n.func.value, ast.Name) and n.func.value.id in ("cls", "self"):
                g = repo.lookup_method(fo.cls, nm)
                r = ("func", g) if g is not None else None
            if r and r[0] == "func":
                cands[id(r[1])] = r[1]
    if len(cands) != 1:
        raise AnalysisError(f"anchor function {MAN}:SuitComponentVersion._convert_version_part vanished ({len(cands)} candidates by role)")
    return next(iter(cands.values()))

def run(ctx):
    R = ctx.report
    repo = ctx.repo
    ctx.use_files("suit_generator/suit/manifest.py", "ncs/build.py")
    ev = Evaluator(repo, inline_depth=1)
    conv = version_part_converter(repo)
    fq = ctx.fq(conv)
    m = repo.mod(MAN)

    # ---- D1: table
    R.rule("C20-D1a prerelease table", 3, "labels alpha < beta < rc, all negative (release pads with 0)")
    outs = ev.outcomes(conv)
    enum_refs = {s.obj for o in outs for t in ([o.value] if o.value is not None else []) for s in subterms(t)
                 if isinstance(s, Ref) and s.kind == "class" and ev.is_enum(s.obj)}
    if len(enum_refs) != 1:
        raise AnalysisError(f"{fq}: pre-release enum not recognised ({enum_refs})")
    en = next(iter(enum_refs))
    members = {n: (v.v if isinstance(v, Const) else None) for n, v in ev.enum_members(en)}
    R.check("C20-D1a prerelease table", set(members) == {"alpha", "beta", "rc"}, "labels", mod=m, node=en.node, function=en.fq,
            expected="{alpha, beta, rc}", found=f"{sorted(members)}")
    vals = [members.get(k) for k in ("alpha", "beta", "rc")]
    ints = all(isinstance(v, int) and not isinstance(v, bool) for v in vals)
    R.check("C20-D1a prerelease table", ints and vals[0] < vals[1] < vals[2], "alpha < beta < rc", mod=m, node=en.node,
            function=en.fq, expected="strictly increasing", found=f"{members}")
    R.check("C20-D1a prerelease table", ints and all(v < 0 for v in vals), "every pre-release label sorts below the release (0)",
            mod=m, node=en.node, function=en.fq, expected="all values < 0", found=f"{members}")

    # ---- D1: converter outcomes
    R.rule("C20-D1b part conversion", 5, "numeric -> int(part); label -> value of the member of that exact name; else ValueError")
    part = Sym("param:" + ([p_ for p_ in conv.params() if p_ not in ("self", "cls")] or ["part"])[0])
    isstr = App("isinstance", (part, Ref("builtin", "str")))
    isnum = App("meth:isnumeric", (part,))

    def has(o, c):
        return c in o.conds

    num = [o for o in outs if o.kind == "return" and has(o, isstr) and (has(o, isnum) or has(o, App("meth:isdecimal", (part,)))
                                                                       or has(o, App("meth:isdigit", (part,))))]
    R.check("C20-D1b part conversion", len(num) == 1 and num[0].value == App("call:int", (part,)), "numeric string -> int(part)",
            mod=m, node=conv.node, function=fq, expected="int(part)", found=f"{[repr(o.value) for o in num]}")
    lab = [o for o in outs if o.kind == "return" and has(o, isstr) and not has(o, isnum) and o not in num]
    ok = len(lab) == 1 and lab[0].value in (
        App("attr:value", (App("call:getattr", (Ref("class", en), part)),)),
        App("attr:value", (App("enum_by_name", (Ref("class", en), part)),)))
    R.check("C20-D1b part conversion", ok, "label -> PrereleaseType.<label>.value (exact name)", mod=m, node=conv.node,
            function=fq, expected="getattr(PrereleaseType, part).value", found=f"{[repr(o.value) for o in lab]}")
    bad = [o for o in outs if o.kind == "raise"]
    conv_fail = [o for o in bad if any(isinstance(c, App) and c.op == "exc" for c in o.conds)]

    def excname(o):
        v = o.value
        return v.op.split(":")[-1].split(".")[-1] if isinstance(v, App) and v.op.startswith("call:") else repr(v)[:30]

    want_exc = "AttributeError" if lab and isinstance(lab[0].value, App) and "call:getattr" in repr(lab[0].value) else "KeyError"
    handler_ok = bool(conv_fail) and all(excname(o) == "ValueError" for o in conv_fail) and any(
        c.args[0].v.split(".")[-1] in (want_exc, "Exception", "(AttributeError, KeyError)") for o in conv_fail for c in o.conds
        if isinstance(c, App) and c.op == "exc")
    R.check("C20-D1b part conversion", handler_ok, "unsupported label -> ValueError", mod=m, node=conv.node, function=fq,
            expected=f"lookup and .value inside a handler converting {want_exc} to ValueError",
            found=f"{[(excname(o), [repr(c) for c in o.conds if isinstance(c, App) and c.op == 'exc']) for o in bad]}"[:300])
    # both the lookup and the .value access are inside the try
    tries = [n for n in ast.walk(conv.node) if isinstance(n, ast.Try)]
    inside = False
    for t in tries:
        txt = "".join(ast.unparse(s) for s in t.body)
        if ("getattr(" in txt or "PrereleaseType[" in txt) and ".value" in txt:
            inside = True
    R.check("C20-D1b part conversion", inside, "lookup and value access are both guarded", mod=m, node=conv.node, function=fq,
            expected="getattr(...) and .value inside the try body", found="value access outside the handler")
    passthru = [o for o in outs if o.kind == "return" and App("isinstance", (part, Ref("builtin", "int"))) in o.conds]
    other = [o for o in bad if App("not", (App("isinstance", (part, Ref("builtin", "int"))),)) in o.conds]
    R.check("C20-D1b part conversion", len(passthru) == 1 and passthru[0].value == part and bool(other)
            and all(excname(o) == "ValueError" for o in other), "int passes through; other types -> ValueError", mod=m,
            node=conv.node, function=fq, expected="return part / raise ValueError",
            found=f"{[repr(o.value) for o in passthru]} / {[excname(o) for o in other]}")

    # ---- D1: string splitting
    R.rule("C20-D1c string split", 1, "'-' is normalised to the field separator and every part is converted")
    fo = repo.func(MAN, "SuitComponentVersion.from_obj")
    ev_fo = Evaluator(repo, inline_depth=0)
    ev_fo.never_inline = {conv.fq}  # examined on its own above; here it is the stand-in of the evaluation
    fouts = [o for o in ev_fo.outcomes(fo) if o.kind == "return"]
    obj = Sym("param:obj")
    # decided by evaluating what is handed to the list constructor on sample versions, with a stand-in for the part conversion
    # (comprehension, loop or map alike); a term that cannot be evaluated is not a verdict
    from sa.teval import teval as _teval, Unknown as _Unknown
    ok, found_ = bool(fouts), ""
    samples = ["1", "1.2.3", "1.2.3-rc.4", "1-alpha", "1.2-beta.3", "", "10.0.0-rc", [1, 2, 3], [1, 2, -1, 4]]
    try:
        for o in fouts:
            loops, louts = {}, {}
            for e_ in all_effects(o.effects):
                pass
            def collect(effs):
                for e_ in effs:
                    if isinstance(e_, App) and e_.op == "eff:loop":
                        if getattr(e_.node, "lineno", None) is not None:
                            loops[e_.node.lineno] = (e_.args[0], e_.node.iter.id if isinstance(e_.node, ast.For) and isinstance(e_.node.iter, ast.Name) else None)
                        collect(e_.args[1].args)
                    elif isinstance(e_, App) and e_.op == "eff:if":
                        collect(e_.args[1].args)
                        collect(e_.args[2].args)
            collect(o.effects)
            for s_ in subterms(o.value):
                if isinstance(s_, App) and s_.op == "loopout" and len(s_.args) == 3:
                    louts.setdefault(s_.args[1].v, {})[s_.args[0].v] = s_.args[2]
            if not (isinstance(o.value, App) and o.value.op in ("call", "supercall:from_obj") and o.value.args):
                raise AnalysisError(f"{ctx.fq(fo)}: the result is not the list constructor applied to the parts")
            arg = o.value.args[-1]
            for smp in samples:
                env = {"param:obj": smp, "__calls__": {conv.name: (lambda *a_: ("converted", a_[-1]))}, "__loops__": loops, "__loopouts__": louts}
                if not all(_teval(c_, env) for c_ in o.conds):
                    continue
                got = _teval(arg, env)
                want_ = [("converted", p_) for p_ in smp.replace("-", ".").split(".")] if isinstance(smp, str) else smp
                if list(got) != list(want_):
                    ok, found_ = False, f"{smp!r} -> {got!r}"
                    break
    except _Unknown as e_:
        raise AnalysisError(f"{ctx.fq(fo)}: the parts handed to the list constructor are not evaluable ({e_})")
    R.check("C20-D1c string split", ok, "obj.replace('-', '.').split('.') -> _convert_version_part for each part", mod=m,
            node=fo.node, function=ctx.fq(fo), expected="[convert(p) for p in obj.replace('-', '.').split('.')]; a list is taken as it is",
            found=found_ or f"{[repr(o.value)[:200] for o in fouts]}")

    # ---- D1d: the pre-release label sits at a position that does not depend on the number of numeric fields
    R.rule("C20-D1d label position", 1, "the numeric core has a fixed number of fields when a pre-release label follows")
    all_outs = Evaluator(repo, inline_depth=0).outcomes(fo)
    normalised = any(isinstance(s, App) and s.op == "len" for o in all_outs for t in (list(o.conds) + [o.value] + list(all_effects(o.effects)))
                     if t is not None for s in subterms(t))
    R.check("C20-D1d label position", normalised, "field count normalised before the label", mod=m, node=fo.node, function=ctx.fq(fo),
            expected="with a label present the numeric core is padded / restricted to one field count, so that the label of every version "
                     "is compared with the label (not with a numeric field) of every other version",
            found="the list is the plain split of the string: the label's index equals the number of numeric fields, e.g. "
                  "'1.0-rc.1' -> [1, 0, -1, 1] sorts below '1.0.0-alpha' -> [1, 0, 0, -3] although rc.1 follows alpha")

    seqnum_rules(ctx, en, members)


def _addends(t):
    if isinstance(t, App) and t.op == "+":
        return _addends(t.args[0]) + _addends(t.args[1])
    return [t]


def _field_shift(t):
    """int(version['F']) << s  ->  (F, s)."""
    sh = 0
    if isinstance(t, App) and t.op == "<<" and isinstance(t.args[1], Const):
        sh = t.args[1].v
        t = t.args[0]
    elif isinstance(t, App) and t.op == "*" and isinstance(t.args[1], Const) and t.args[1].v > 0 \
            and (t.args[1].v & (t.args[1].v - 1)) == 0:
        sh = t.args[1].v.bit_length() - 1
        t = t.args[0]
    if isinstance(t, App) and t.op == "call:int" and isinstance(t.args[0], App) and t.args[0].op == "idx" \
            and isinstance(t.args[0].args[1], Const):
        return t.args[0].args[1].v, sh
    return None


def _refute_monotone(val, order):
    """Evaluate the stored sequence-number term on ordered version tuples; returns (t1, t2, v1, v2) with t1 < t2 and v1 >= v2."""
    from sa.teval import Raised, Unknown, teval
    ver = App("idx", (Sym("param:cfg"), Const("VERSION")))
    majors = [0, 1, 2, 127, 128, 255, 256, 300, 32767, 32768, 65535, 65536]
    smalls = [0, 1, 254, 255]
    # a VERSION file may lack the tweak line: it then stands for tweak 0 and must order accordingly against files that have one
    tuples = sorted({(a, b, c, d) for a in majors for b in smalls for c in smalls for d in smalls + [None]},
                    key=lambda t: (t[0], t[1], t[2], t[3] or 0, t[3] is not None))
    prev = None
    # the derivation must not depend on which *other* entries the VERSION file carries (an explicit version string next to the fields)
    others = [{}, {"APP_ROOT_VERSION": "7.7.7"}, {"NORDIC_TOP_VERSION": "1.1.1", "SCFW_VERSION": "2.2.2"}]
    for extra_ in others[1:]:
        small = [t for t in tuples if t[0] in (0, 1, 255, 256) and t[1] in (0, 255) and t[2] in (0, 255)]
        p2 = None
        for t in small:
            env = {ver: {**{k: str(v) for k, v in zip(order, t) if v is not None}, **extra_}}
            try:
                v = teval(val, env)
                v = int(v) if isinstance(v, str) else v
            except (Unknown, Raised, ValueError, TypeError):
                return "unknown"
            same_key = p2 is not None and (p2[0][:3], p2[0][3] or 0) == (t[:3], t[3] or 0)
            if p2 is not None and not (p2[1] < v) and not (same_key and p2[1] == v):
                return p2[0], t, f"{p2[1]} (with {extra_})", v
            p2 = (t, v)
    for t in tuples:
        env = {ver: {k: str(v) for k, v in zip(order, t) if v is not None}}
        try:
            v = teval(val, env)
            v = int(v) if isinstance(v, str) else v
        except (Unknown, Raised, ValueError, TypeError):
            return "unknown"
        same_key = prev is not None and (prev[0][:3], prev[0][3] or 0) == (t[:3], t[3] or 0)
        if prev is not None and not (prev[1] < v) and not (same_key and prev[1] == v):
            return prev[0], t, prev[1], v
        prev = (t, v)
    return None


def seqnum_rules(ctx, en, members):
    R = ctx.report
    repo = ctx.repo
    fi = repo.func("ncs.build", "append_default_version_values")
    fq = ctx.fq(fi)
    outs = [o for o in Evaluator(repo, inline_depth=1).outcomes(fi) if o.kind == "return"]
    outs = generic.sole_outcome(ctx, outs, f"{fq}: expected a single normal outcome")
    stores = {}
    for e in all_effects(outs[0].effects):
        if isinstance(e, App) and e.op == "eff:store" and isinstance(e.args[1], Const):
            stores.setdefault(e.args[1].v, []).append(e)
    R.rule("C20-D2 sequence polynomial", 4, "default sequence number = sum int(field) << shift with strictly decreasing shifts, gaps >= 8")
    expected = {
        "DEFAULT_SEQ_NUM": ["VERSION_MAJOR", "VERSION_MINOR", "PATCHLEVEL", "VERSION_TWEAK"],
        "SCFW_SEQ_NUM": ["SYSCTRL_VERSION_MAJOR", "SYSCTRL_VERSION_MINOR", "SYSCTRL_VERSION_PATCH", "SYSCTRL_VERSION_TWEAK"],
    }
    for key, order in expected.items():
        if key not in stores:
            raise AnalysisError(f"{fq}: store of {key} not recognised")
        val = stores[key][0].args[2]
        polys = []
        for g, t in cases(val):
            inner = t.args[0] if isinstance(t, App) and t.op in ("str", "fmt") else t
            adds = _addends(inner)
            fs = [_field_shift(a) for a in adds]
            if all(f is not None for f in fs) and len(fs) >= 3:
                polys.append(dict(fs))
        wit0 = _refute_monotone(val, order)
        evaluable = wit0 != "unknown"
        if wit0 == "unknown":
            wit0 = None
        if wit0 is not None:
            R.fail("C20-D2 sequence polynomial", f"{key}: not strictly increasing", mod=fi.module, node=stores[key][0].node, function=fq,
                   expected="(major<<24)+(minor<<16)+(patch<<8)[+tweak], strictly increasing in (major, minor, patch, tweak)",
                   found=f"{wit0[0]} -> {wit0[2]} but {wit0[1]} -> {wit0[3]}", key_extra=key)
            continue
        if not polys:
            # not the recognised normal form: look for a concrete counterexample by evaluating the stored term on ordered tuples
            # (sound as a refutation; without one the analysis cannot stand behind a verdict)
            wit = _refute_monotone(val, order)
            if wit == "unknown" or (wit is None and not evaluable):
                raise AnalysisError(f"{fq}: {key} polynomial not recognised in {val!r}"[:300])
            if wit is None:
                # evaluated on ~1000 ordered version tuples that cross every byte boundary of every field (254/255/256, 32767/32768,
                # 65535/65536, with and without the tweak line): strictly increasing on all of them
                R.ok("C20-D2 sequence polynomial", f"{key}: strictly increasing on the grid of ordered version tuples (form not the recognised polynomial)")
                R.ok("C20-D2 sequence polynomial", f"{key}: grid")
                continue
            R.fail("C20-D2 sequence polynomial", f"{key}: not strictly increasing", mod=fi.module, node=stores[key][0].node, function=fq,
                   expected="(major<<24)+(minor<<16)+(patch<<8)[+tweak], strictly increasing in (major, minor, patch, tweak)",
                   found=f"{wit[0]} -> {wit[2]} but {wit[1]} -> {wit[3]}", key_extra=key)
            continue
        for poly in polys:
            inst = f"{key}: {sorted(poly.items(), key=lambda x: -x[1])}"
            fields = [f for f in order if f in poly]
            shifts = [poly[f] for f in fields]
            ok = set(poly) <= set(order) and fields[:3] == order[:3] and all(
                a - b >= 8 for a, b in zip(shifts, shifts[1:])) and shifts[-1] >= 0 and (
                "VERSION_TWEAK" not in "".join(poly) or shifts[-1] == 0 or len(fields) == 3)
            # lowest present field must be unshifted enough to keep fields < 256 apart: gaps >= 8 is the condition
            R.check("C20-D2 sequence polynomial", ok, inst, mod=fi.module, node=stores[key][0].node, function=fq,
                    expected="(major<<24)+(minor<<16)+(patch<<8)[+tweak]: order major>minor>patch>tweak, gaps >= 8 bits",
                    found=f"{poly}", key_extra=key + str(len(poly)))

    # ---- D3: default version string is in the encoder's language
    R.rule("C20-D3 default version labels", 5, "labels the glue can emit are labels the encoder accepts")
    pats = {s.args[0].v for o in outs for e in all_effects(o.effects) for s in subterms(e)
            if isinstance(s, App) and s.op == "call:re.match" and isinstance(s.args[0], Const)}
    if not pats:
        raise AnalysisError(f"{fq}: extraversion pattern not found")
    for pat in sorted(pats):
        labels = regex_first_group_literals(pat)
        if labels is None:
            raise AnalysisError(f"{fq}: cannot enumerate the label alternation of {pat!r}")
        R.check("C20-D3 default version labels", set(labels) <= set(members), f"labels of {pat!r}", mod=fi.module, node=fi.node,
                function=fq, expected=f"subset of {sorted(members)}", found=f"{sorted(labels)}")
    # every default version string the glue can produce is one the encoder accepts: the produced string depends on the extra-version
    # text only through the pattern match, so one representative per class of that text is a complete table (evaluated on the term)
    from sa.teval import Raised, Unknown, teval
    ver_t = App("idx", (Sym("param:cfg"), Const("VERSION")))
    samples = ["rc", "rc1", "rc.1", "rc.", "beta", "alpha.3", "alpha12", "", "foo", "rc-1", "RC1"]

    def encoder_accepts(text):
        return all(part.isnumeric() or part in members for part in text.replace("-", ".").split("."))
    for key, fields, extra in (("DEFAULT_VERSION", ("VERSION_MAJOR", "VERSION_MINOR", "PATCHLEVEL"), "EXTRAVERSION"),
                               ("SCFW_VERSION", ("SYSCTRL_VERSION_MAJOR", "SYSCTRL_VERSION_MINOR", "SYSCTRL_VERSION_PATCH"), "SYSCTRL_VERSION_EXTRA")):
        if key not in stores:
            continue
        val_ = stores[key][0].args[2]
        bad_s, unknown = [], 0
        for sx in samples + [None]:
            d_ = {f_: str(i_ + 4) for i_, f_ in enumerate(fields)}
            if sx is not None:
                d_[extra] = sx
            try:
                got = teval(val_, {ver_t: d_})
            except (Unknown, Raised):
                unknown += 1
                continue
            if not (isinstance(got, str) and encoder_accepts(got)):
                bad_s.append((sx, got))
        if unknown > len(samples) // 2:
            raise AnalysisError(f"{fq}: {key} not evaluable for the extra-version samples")
        R.check("C20-D3 default version labels", not bad_s, f"{key}: every produced string is in the encoder's language", mod=fi.module,
                node=stores[key][0].node, function=fq, expected="N.N.N[-(alpha|beta|rc)[.N]]", found=f"{extra}={bad_s[0][0]!r} -> {bad_s[0][1]!r}" if bad_s else "",
                key_extra=key + "table")
    # what is published for a VERSION section without (all) the fields: every value that the taken path stores is a text the templates
    # can use - a version string of the encoder's language, a decimal number - never the text of a missing value ('None')
    from .c11 import _with_guards as _wg
    R.rule("C20-D3c nothing is published for a missing value", 2, "for a VERSION section lacking the version fields no default version text is stored, sequence numbers stay decimal")
    published_bad, n_eval = [], 0
    partials = [{}, {"VERSION_MAJOR": "1"}, {"VERSION_MAJOR": "1", "VERSION_MINOR": "2"}, {"APP_ROOT_SEQ_NUM": "7"}, {"SYSCTRL_VERSION_MAJOR": "3"},
                {"VERSION_MAJOR": "1", "VERSION_MINOR": "2", "PATCHLEVEL": "3"}]
    for d_ in partials:
        for e_, g_ in _wg(outs[0].effects):
            if not (isinstance(e_, App) and e_.op == "eff:store" and isinstance(e_.args[1], Const) and isinstance(e_.args[1].v, str)
                    and (e_.args[1].v.endswith("_VERSION") or e_.args[1].v.endswith("_SEQ_NUM"))):
                continue
            try:
                if not all(bool(teval(c_, {ver_t: d_})) == pol_ for c_, pol_ in g_):
                    continue
                got = teval(e_.args[2], {ver_t: d_})
                n_eval += 1
            except (Unknown, Raised):
                continue
            except Exception as ex_:
                continue
            k_ = e_.args[1].v
            ok_ = isinstance(got, str) and (got.isdecimal() if k_.endswith("_SEQ_NUM") else encoder_accepts(got))
            if not ok_:
                published_bad.append((k_, d_, got))
    if n_eval < 4:
        raise AnalysisError(f"{fq}: published values not evaluable for partial VERSION sections")
    R.check("C20-D3c nothing is published for a missing value", not published_bad, "partial VERSION sections", mod=fi.module, node=fi.node, function=fq,
            expected="a value that could not be derived is not published (templates test `is defined`)",
            found=f"{published_bad[0][0]} = {published_bad[0][2]!r} for VERSION = {published_bad[0][1]}" if published_bad else "")
    R.ok("C20-D3c nothing is published for a missing value", f"{n_eval} stores evaluated")
    # fallback literal(s) appended after '-'
    for key in ("DEFAULT_VERSION", "SCFW_VERSION"):
        if key not in stores:
            raise AnalysisError(f"{fq}: store of {key} not recognised")
        val = stores[key][0].args[2]
        lits = set()
        shapes_ok = True
        for g, t in cases(val):
            parts = cat_parts(t)
            # MAJOR . MINOR . PATCH [ -label... ]
            consts = [p.v for p in parts if isinstance(p, Const) and isinstance(p.v, str)]
            if len(parts) >= 5:
                if not (consts[:2] == [".", "."]):
                    shapes_ok = False
                for c in consts[2:]:
                    if c.startswith("-") and len(c) > 1:
                        lits.add(c[1:])
                    elif c != "-":
                        shapes_ok = False
        R.check("C20-D3 default version labels", lits <= set(members) and shapes_ok, f"{key}: MAJOR.MINOR.PATCH[-label[.N]]",
                mod=fi.module, node=stores[key][0].node, function=fq, expected=f"fallback label in {sorted(members)}",
                found=f"literal labels {sorted(lits)}; shape ok={shapes_ok}", key_extra=key)


def regex_first_group_literals_cs(sub):
    items = list(sub)
    if len(items) == 1 and str(items[0][0]) == "BRANCH":
        alts = []
        for alt in items[0][1][1]:
            s = ""
            for o2, a2 in alt:
                if str(o2) != "LITERAL":
                    return None
                s += chr(a2)
            alts.append(s)
        return alts
    s = ""
    for o2, a2 in items:
        if str(o2) != "LITERAL":
            return None
        s += chr(a2)
    return [s]


def regex_first_group_literals(pat):
    """Literal alternatives of the first capturing group of ``pat`` (parser only, no matching)."""
    try:
        import re._parser as sp
    except ImportError:  # pragma: no cover
        import sre_parse as sp
    import re as _re
    tree = sp.parse(pat)
    global_ci = bool(tree.state.flags & _re.IGNORECASE)
    for op, av in tree:
        if str(op) == "SUBPATTERN":
            sub = av[3]
            if global_ci or (av[1] & _re.IGNORECASE):
                # case-insensitive matching: the group captures the text as written, e.g. 'RC' - not only the listed spellings
                lits = regex_first_group_literals_cs(sub)
                return None if lits is None else sorted({x for l in lits for x in (l, l.upper(), l.capitalize())})
            items = list(sub)
            if len(items) == 1 and str(items[0][0]) == "BRANCH":
                alts = []
                for alt in items[0][1][1]:
                    s = ""
                    for o2, a2 in alt:
                        if str(o2) != "LITERAL":
                            return None
                        s += chr(a2)
                    alts.append(s)
                return alts
            s = ""
            for o2, a2 in items:
                if str(o2) != "LITERAL":
                    return None
                s += chr(a2)
            return [s]
    return None
