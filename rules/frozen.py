"""T15 LIBFACT — no in-place mutation of containers decoded inside a CBOR tag (cbor2 >= 6 returns them immutable).

Library fact (re-derived from the installed files in the thorough tier, see rules/libfacts.py): with cbor2 major
version >= 6 the value of a decoded CBORTag is a ``frozendict`` / ``tuple``; item assignment, ``pop``, ``append``
… raise TypeError/AttributeError.  Top-level lists and dicts returned by ``cbor2.loads`` stay mutable.

The rule is an interprocedural provenance analysis: which parameters, attributes and function results can hold a
tag object that came out of ``cbor2.load(s)`` (fixpoint over call sites, constructors and attribute stores), then
every store / mutating call whose receiver is ``<such a tag>.value`` is reported.
"""
from __future__ import annotations

import ast

from sa.absint import Evaluator, all_effects
from sa.index import AnalysisError
from sa.terms import App, Const, Ref, Sym, subterms

MUTATORS = {"meth:pop", "meth:append", "meth:remove", "meth:update", "meth:clear", "meth:insert", "meth:extend",
            "meth:setdefault", "meth:popitem", "meth:sort", "meth:reverse"}


def cbor2_major(ctx) -> int:
    import glob
    import re
    import sys
    for base in sys.path:
        for p in glob.glob(base + "/cbor2-*.dist-info/METADATA"):
            m = re.search(r"^Version: (\d+)\.", open(p).read(), re.M)
            if m:
                return int(m.group(1))
    raise AnalysisError("installed cbor2 version not found (dist-info METADATA)")


class Provenance:
    def __init__(self, ctx, modules, plugin_methods):
        self.ctx = ctx
        self.repo = ctx.repo
        self.funcs = [f for m in modules for f in ctx.repo.mod(m).functions.values()]
        self.plugin = plugin_methods
        self.tparams = set()  # (func fq, param)
        self.tattrs = set()  # attribute names holding loaded tags (per class fq)
        self.treturns = set()  # func fq
        self.outs = {}
        ev = Evaluator(self.repo, inline_depth=0)
        for f in self.funcs:
            try:
                self.outs[f.fq] = ev.outcomes(f)
            except AnalysisError:
                raise
        self._fixpoint()

    def loaded(self, t, f) -> bool:
        if isinstance(t, App):
            if t.op == "cborload":
                return True
            if t.op == "phi":
                return self.loaded(t.args[1], f) or self.loaded(t.args[2], f)
            if t.op.startswith("attr:") and t.args and isinstance(t.args[0], Sym) and t.args[0].name == "param:self" \
                    and f.cls is not None and (f.cls.fq, t.op[5:]) in self.tattrs:
                return True
            if t.op == "call" and isinstance(t.args[0], Ref) and t.args[0].kind == "func" and t.args[0].obj.fq in self.treturns:
                return True
            if t.op.startswith("meth:") and t.op[5:] in self.plugin and self.plugin[t.op[5:]].fq in self.treturns:
                return True
            if t.op in ("loopout", "loopvar", "maybe_assigned"):
                return self.loaded(t.args[-1], f)
        if isinstance(t, Sym) and t.name.startswith("param:") and (f.fq, t.name[6:]) in self.tparams:
            return True
        return False

    def _mark_call(self, callee, selfarg_present, args, f):
        changed = False
        params = callee.params()
        if callee.kind in ("method", "classmethod") and params:
            params = params[1:]
        pos = [a for a in args if not (isinstance(a, App) and a.op in ("kw", "starkw"))]
        for i, a in enumerate(pos):
            if i < len(params) and self.loaded(a, f) and (callee.fq, params[i]) not in self.tparams:
                self.tparams.add((callee.fq, params[i]))
                changed = True
        for a in args:
            if isinstance(a, App) and a.op == "kw" and self.loaded(a.args[1], f) and (callee.fq, a.args[0].v) not in self.tparams:
                self.tparams.add((callee.fq, a.args[0].v))
                changed = True
        return changed

    def _fixpoint(self):
        for _ in range(12):
            changed = False
            for f in self.funcs:
                for o in self.outs[f.fq]:
                    if o.kind == "return" and o.value is not None and self.loaded(o.value, f) and f.fq not in self.treturns:
                        self.treturns.add(f.fq)
                        changed = True
                    for e in all_effects(o.effects):
                        if not isinstance(e, App):
                            continue
                        if e.op == "eff:setattr" and isinstance(e.args[0], Sym) and e.args[0].name == "param:self" \
                                and f.cls is not None and self.loaded(e.args[2], f):
                            if (f.cls.fq, e.args[1].v) not in self.tattrs:
                                self.tattrs.add((f.cls.fq, e.args[1].v))
                                changed = True
                        if e.op == "eff:call" and isinstance(e.args[0], App):
                            c = e.args[0]
                            if c.op == "call" and isinstance(c.args[0], Ref) and c.args[0].kind == "func":
                                callee = c.args[0].obj
                                args = c.args[1:]
                                if callee.kind in ("method", "classmethod") and args:
                                    args = args[1:]
                                changed |= self._mark_call(callee, True, args, f)
                            elif c.op == "new" and isinstance(c.args[0], Ref) and c.args[0].kind == "class":
                                init = self.repo.lookup_method(c.args[0].obj, "__init__")
                                if init is not None:
                                    changed |= self._mark_call(init, True, c.args[2:], f)
                            elif c.op.startswith("meth:") and c.op[5:] in self.plugin:
                                changed |= self._mark_call(self.plugin[c.op[5:]], True, c.args[1:], f)
            if not changed:
                return
        raise AnalysisError("provenance fixpoint did not converge")

    def frozen_container(self, t, f) -> bool:
        """``t`` denotes a container that lives inside a decoded tag."""
        if isinstance(t, App) and t.op == "attr:value" and self.loaded(t.args[0], f):
            return True
        if isinstance(t, App) and t.op == "idx" and self.frozen_container(t.args[0], f):
            return True
        return False

    def mutations(self):
        """Yield (func, effect node/term, description) for every in-place mutation of a frozen container."""
        for f in self.funcs:
            seen = set()
            for o in self.outs[f.fq]:
                for e in all_effects(o.effects):
                    if not isinstance(e, App):
                        continue
                    cont, what = None, None
                    if e.op in ("eff:store", "eff:delitem"):
                        cont, what = e.args[0], "item assignment" if e.op == "eff:store" else "item deletion"
                    elif e.op == "eff:call" and isinstance(e.args[0], App) and e.args[0].op in MUTATORS:
                        cont, what = e.args[0].args[0], "." + e.args[0].op[5:] + "()"
                    if cont is None or not self.frozen_container(cont, f):
                        continue
                    node = e.node if e.node is not None else (e.args[0].node if isinstance(e.args[0], App) else None)
                    key = ast.unparse(node) if node is not None else repr(e)[:100]
                    if key in seen:
                        continue
                    seen.add(key)
                    yield f, node, what, cont


def sign_plugins(repo):
    return {"sign_envelope": repo.func("ncs.sign_script", "Signer.sign_envelope")}


def check(ctx, rid, modules, plugin_methods, floor_sites_note=""):
    """Run the rule over ``modules``; returns number of mutation sites examined."""
    R = ctx.report
    major = cbor2_major(ctx)
    R.info(f"installed cbor2 major version: {major}")
    prov = Provenance(ctx, modules, plugin_methods)
    n = 0
    # all mutation sites on any '<x>.value' container, for the instance count
    for f in prov.funcs:
        for o in prov.outs[f.fq]:
            for e in all_effects(o.effects):
                if isinstance(e, App) and (e.op in ("eff:store", "eff:delitem") or (
                        e.op == "eff:call" and isinstance(e.args[0], App) and e.args[0].op in MUTATORS)):
                    n += 1
    bad = list(prov.mutations())
    if major < 6:
        R.ok(rid, f"cbor2 {major}: decoded tag content is mutable; {n} mutation sites examined")
        return n
    for f, node, what, cont in bad:
        R.fail(rid, f"{ctx.fq(f)}: {what} on the content of a decoded CBOR tag", mod=f.module, node=node, function=ctx.fq(f),
               expected="copy the decoded map into a dict/list before modifying it (cbor2 >= 6 decodes tag content as "
                        "frozendict/tuple)", found=f"{what} on {cont!r}"[:300])
    if not bad:
        R.ok(rid, f"{n} mutation sites examined, none on decoded tag content")
    return n
