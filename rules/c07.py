"""C07 — boot storage images place each installed envelope intact in its role's slot (structure)."""
from __future__ import annotations

import ast

from sa import cbor_mini
from sa.absint import Evaluator, record_fields, all_effects, flatten_effects
from sa.index import AnalysisError
from sa.teval import ge0_form, lin_key
from sa.terms import App, Const, Ref, Sym, cases, dict_pairs, list_items, subterms
from . import argname, generic
from .c11 import _with_guards
from .layout import find_effect_calls

EXPLANATION = ("slot tables are folded and checked (roles unique and complete, slots pairwise disjoint, domain = role & 0xF0, "
               "equal to the storage ABI reference); add_envelope is abstractly evaluated: slot record "
               "cbor({0:1, 1:class-id offset, 2:envelope}), class id = 16 bytes at that offset of the same bytes, the offset "
               "constant re-derived from the schema with the verifier's CBOR encoder, five rejections each dominating the "
               "single commit; placement base+offset / 0xFF fill / domain filter all taken from one layout entry; "
               "every add precedes the first write; sever list compared with the envelope member table; no repository code executed")

IMG = "suit_generator.cmd_image"
P = lambda n: Sym("param:" + n)
SELF = P("self")


def conv(t):
    if isinstance(t, Const):
        return t.v
    if isinstance(t, App) and t.op == "enum":
        return ("enum", t.args[0].obj.name, t.args[1].v)
    if isinstance(t, App) and t.op == "list":
        return [conv(a) for a in t.args]
    if isinstance(t, App) and t.op == "dict":
        return {conv(kv.args[0]): conv(kv.args[1]) for kv in t.args}
    raise AnalysisError(f"table entry is not constant: {t!r}"[:200])



def boot_files_creator(repo):
    """The function that builds the storage and writes the per-domain files: by its name, or - renamed / re-signed - the one private
    function of the module that create_files_for_boot calls."""
    f = repo.find_func(IMG, "ImageCreator._create_suit_storage_files_for_boot")
    if f is not None:
        return f
    top = repo.func(IMG, "ImageCreator.create_files_for_boot")
    m = repo.mod(IMG)
    cands = {}
    for n in ast.walk(top.node):
        if isinstance(n, ast.Call):
            nm = n.func.attr if isinstance(n.func, ast.Attribute) else (n.func.id if isinstance(n.func, ast.Name) else None)
            if nm and nm.startswith("_") and not nm.startswith("__"):
                for q, g in m.functions.items():
                    if q.rsplit(".", 1)[-1] == nm:
                        cands[id(g)] = g
    if len(cands) != 1:
        raise AnalysisError(f"anchor function {IMG}:ImageCreator._create_suit_storage_files_for_boot vanished ({len(cands)} candidates by role)")
    return next(iter(cands.values()))


def slot_lookup(repo, ev):
    """The lookup that returns a slot (offset, size) of the layout: by its name, or - renamed / re-signed - the one private method
    of the storage class whose result holds an entry's 'offset' and 'size'."""
    f = repo.find_func(IMG, "EnvelopeStorage._find_slot")
    if f is not None:
        return f
    cands = []
    for n, g in repo.cls(IMG, "EnvelopeStorage").methods.items():
        if not n.startswith("_") or n.startswith("__") or g in cands:
            continue
        try:
            vals = [o.value for o in ev.outcomes(g) if o.kind == "return" and o.value is not None]
        except AnalysisError:
            continue
        keys = {s_.args[1].v for v in vals for s_ in subterms(v) if isinstance(s_, App) and s_.op == "idx" and isinstance(s_.args[1], Const)}
        if {"offset", "size"} <= keys:
            cands.append(g)
    if len(cands) != 1:
        raise AnalysisError(f"anchor function {IMG}:EnvelopeStorage._find_slot vanished ({len(cands)} candidates by role)")
    return cands[0]

def run(ctx):
    generic.kwargs_keys_are_dests(ctx, "C07-D6b keyword reads are option destinations", "suit_generator.cmd_image")
    R = ctx.report
    repo = ctx.repo
    ctx.use_files("suit_generator/cmd_image.py", "suit_generator/envelope.py", "suit_generator/input_output.py")
    tables(ctx)
    add_envelope_rules(ctx)
    placement_rules(ctx)
    ordering_rules(ctx)
    sever_rule(ctx)
    R.rule("C07-D7 argument plumbing", 4, "CLI options reach the parameters of the same name")
    n = argname.check_function(ctx, "C07-D7 argument plumbing", repo.func(IMG, "main"))
    n += argname.check_function(ctx, "C07-D7 argument plumbing", repo.func(IMG, "ImageCreator.create_files_for_boot"))
    n += argname.check_function(ctx, "C07-D7 argument plumbing", boot_files_creator(repo))
    if n < 4:
        raise AnalysisError("cmd_image boot path: named bindings not recognised")


def tables(ctx):
    R = ctx.report
    repo = ctx.repo
    ev = ctx.ev
    abi = ctx.reference("storage_abi.json")
    roles_cls = repo.cls(IMG, "ManifestRole")
    dom_cls = repo.cls(IMG, "ManifestDomain")
    roles = {n: v.v for n, v in ev.enum_members(roles_cls)}
    doms = {n: v.v for n, v in ev.enum_members(dom_cls)}
    R.rule("C07-D1a role and domain codes", 2, "role/domain codes equal the storage ABI")
    R.check("C07-D1a role and domain codes", roles == abi["roles"], "ManifestRole", mod=roles_cls.module, node=roles_cls.node,
            function=roles_cls.fq, expected=f"{abi['roles']}", found=f"{roles}")
    R.check("C07-D1a role and domain codes", doms == abi["domains"], "ManifestDomain", mod=dom_cls.module, node=dom_cls.node,
            function=dom_cls.fq, expected=f"{abi['domains']}", found=f"{doms}")
    base = repo.cls(IMG, "EnvelopeStorage")
    socs = [c for c in repo.subclasses(base) if "_LAYOUT" in c.attrs]
    if len(socs) < 2:
        raise AnalysisError("fewer than two SoC storage layouts found")
    R.rule("C07-D1b slot table structure", 8, "roles unique and complete, slots disjoint, domain = role & 0xF0")
    R.rule("C07-D1c slot table = storage ABI", 22, "every slot's offset/size/domain equals the ABI reference")
    R.rule("C07-D1d default class table", 6, "8 default classes per SoC, unique classes and roles, same roles across SoCs")
    role_sets = {}
    for c in socs:
        lay = conv(ev.term(c.attrs["_LAYOUT"], c.module))
        node = c.attr_nodes["_LAYOUT"]
        rl = [e["role"][2] for e in lay]
        R.check("C07-D1b slot table structure", len(set(rl)) == len(rl), f"{c.name}: roles unique", mod=c.module, node=node, function=c.fq,
                expected="each role once", found=f"{sorted(r for r in rl if rl.count(r) > 1)}")
        want_roles = set(roles) - {"UNKNOWN"}
        R.check("C07-D1b slot table structure", set(rl) == want_roles, f"{c.name}: all {len(want_roles)} roles have a slot", mod=c.module,
                node=node, function=c.fq, expected=f"{sorted(want_roles)}", found=f"missing {sorted(want_roles - set(rl))} extra {sorted(set(rl) - want_roles)}")
        iv = sorted((e["offset"], e["offset"] + e["size"], e["role"][2]) for e in lay)
        overlap = [(a[2], b[2]) for a, b in zip(iv, iv[1:]) if a[1] > b[0]]
        R.check("C07-D1b slot table structure", not overlap and all(e["size"] > 0 and e["offset"] >= 0 for e in lay),
                f"{c.name}: slots pairwise disjoint", mod=c.module, node=node, function=c.fq, expected="no overlap", found=f"{overlap}")
        bad_dom = [e["role"][2] for e in lay if doms.get(e["domain"][2]) != (roles.get(e["role"][2], 0) & 0xF0)]
        R.check("C07-D1b slot table structure", not bad_dom, f"{c.name}: domain of each slot = role & 0xF0", mod=c.module, node=node,
                function=c.fq, expected="domain.value == role.value & 0xF0", found=f"{bad_dom}")
        ref = abi["layouts"].get(c.name)
        if ref is None:
            R.info(f"layout {c.name} has no ABI reference (unverified extension)")
        else:
            for e in lay:
                r = e["role"][2]
                got = {"offset": e["offset"], "size": e["size"], "domain": e["domain"][2]}
                R.check("C07-D1c slot table = storage ABI", ref.get(r) == got, f"{c.name}.{r}", mod=c.module, node=node, function=c.fq,
                        expected=f"{ref.get(r)}", found=f"{got}", key_extra=f"{c.name}.{r}")
        a = repo.class_attr(c, "_CLASS_ROLE_ASSIGNMENTS")
        tab = conv(ev.term(a[0], a[1].module))
        anode = a[1].attr_nodes["_CLASS_ROLE_ASSIGNMENTS"]
        cn = [e["class_name"] for e in tab]
        rn = [e["role"][2] for e in tab]
        R.check("C07-D1d default class table", len(tab) == 8 and len(set(cn)) == 8 and len(set(rn)) == 8, f"{c.name}: 8 unique classes / roles",
                mod=a[1].module, node=anode, function=a[1].fq, expected="8 entries, unique", found=f"{len(tab)} entries, {len(set(cn))} classes, {len(set(rn))} roles")
        refc = abi["default_classes"].get(c.name, {})
        got = {e["class_name"]: {"vendor": e["vendor_name"], "role": e["role"][2]} for e in tab}
        R.check("C07-D1d default class table", got == refc, f"{c.name}: default classes equal the reference", mod=a[1].module, node=anode,
                function=a[1].fq, expected=f"{refc}", found=f"{got}")
        R.check("C07-D1d default class table", set(rn) <= set(rl), f"{c.name}: every default role has a slot", mod=a[1].module, node=anode,
                function=a[1].fq, expected="roles subset of layout roles", found=f"{sorted(set(rn) - set(rl))}")
        role_sets[c.name] = set(rn)
    vals = list(role_sets.values())
    R.check("C07-D1d default class table", all(v == vals[0] for v in vals), "same default roles on every SoC", mod=base.module, node=base.node,
            function=base.fq, expected="identical role sets", found=f"{role_sets}")


def add_envelope_rules(ctx):
    R = ctx.report
    repo = ctx.repo
    S = ctx.schema
    ev = Evaluator(repo, inline_depth=0)
    fi = repo.func(IMG, "EnvelopeStorage.add_envelope")
    fq = ctx.fq(fi)
    outs = ev.outcomes(fi)
    rets = [o for o in outs if o.kind == "return"]
    raises = [o for o in outs if o.kind == "raise"]
    rets = generic.sole_outcome(ctx, rets, f"{fq}: expected one normal outcome")
    o = rets[0]
    env = P("envelope")
    desc = App("attr:_envelope", (env,))
    SEV = App("meth:prepare_suit_data", (env, desc))
    MANI = App("idx", (App("idx", (desc, Const("SUIT_Envelope_Tagged"))), Const("suit-manifest")))
    CID = App("idx", (MANI, Const("suit-manifest-component-id")))
    stores = [e for e in all_effects(o.effects) if isinstance(e, App) and e.op == "eff:store"]
    commits = [e for e in stores if e.args[0] == App("attr:_envelopes", (SELF,))]
    R.rule("C07-D2a slot record", 4, "cbor({0: 1, 1: class-id offset, 2: the re-encoded envelope}) committed under the role of its class id")
    if len(commits) != 1 or len(stores) != 1:
        R.fail("C07-D2a slot record", "single commit into the slot table", mod=fi.module, node=fi.node, function=fq,
               expected="exactly one store: self._envelopes[role] = envelope_bytes", found=f"{[repr(s)[:100] for s in stores]}")
        return
    role_t, rec = commits[0].args[1], commits[0].args[2]
    inner = rec.args[0] if isinstance(rec, App) and rec.op == "cbor" else None
    dp = dict_pairs(inner) if inner is not None else None
    d = {k.v: v for k, v in dp} if dp and all(isinstance(k, Const) for k, _ in dp) else {}
    R.check("C07-D2a slot record", set(d) == {0, 1, 2} and d.get(0) == Const(1), "record keys {0, 1, 2} with version 1", mod=fi.module,
            node=commits[0].node, function=fq, expected="{0: 1, 1: …, 2: …}", found=repr(inner)[:160])
    R.check("C07-D2a slot record", d.get(2) == SEV, "key 2 = envelope.prepare_suit_data(envelope._envelope) (digests refreshed, re-encoded)",
            mod=fi.module, node=commits[0].node, function=fq, expected=repr(SEV), found=repr(d.get(2))[:200])
    off = d.get(1)
    # class id offset = find(SEV, <component-id key/value bytes>) + constant
    ok = False
    const = None
    needle = None
    if isinstance(off, App) and off.op == "+" and isinstance(off.args[1], Const) and isinstance(off.args[0], App) \
            and off.args[0].op == "meth:find" and off.args[0].args[0] == SEV:
        const, needle = off.args[1].v, off.args[0].args[1]
        ok = True
    R.check("C07-D2a slot record", ok, "key 1 = position of the component-id entry in the stored bytes + prefix length", mod=fi.module,
            node=commits[0].node, function=fq, expected="severed_envelope.find(<entry bytes>) + len(prefix)", found=repr(off)[:200])
    clsid = App("slice", (SEV, off, App("+", (off, Const(16))), Const(None))) if off is not None else None
    role_ok = isinstance(role_t, App) and role_t.op == "call" and isinstance(role_t.args[0], Ref) and role_t.args[0].obj.name == "_find_role" \
        and role_t.args[-1] == clsid
    R.check("C07-D2a slot record", role_ok, "role = _find_role(16 bytes at the recorded offset of the stored bytes)", mod=fi.module,
            node=commits[0].node, function=fq, expected="self._find_role(severed_envelope[off:off+16])", found=repr(role_t)[:240])

    R.rule("C07-D5 class-id offset constant", 4, "prefix constant equals the distance derived from the schema; one-byte map header stripped; single-entry map")
    # needle = to_cbor(SuitManifest.from_obj({'suit-manifest-component-id': CID}))[1:]
    nd_ok = False
    if isinstance(needle, App) and needle.op == "slice" and needle.args[1:] == (Const(1), Const(None), Const(None)):
        m = needle.args[0]
        if isinstance(m, App) and m.op == "meth:to_cbor" and isinstance(m.args[0], App) and m.args[0].op == "call":
            c = m.args[0]
            cls_ok = any(isinstance(a, Ref) and a.kind == "class" and a.obj.name == "SuitManifest" for a in c.args)
            arg = c.args[-1]
            dpp = dict_pairs(arg)
            nd_ok = cls_ok and dpp is not None and len(dpp) == 1 and dpp[0][0] == Const("suit-manifest-component-id") and dpp[0][1] == CID
    R.check("C07-D5 class-id offset constant", nd_ok, "search key = encoding of {component-id: <the manifest's own id>} without the 1-byte map header",
            mod=fi.module, node=fi.node, function=fq, expected="SuitManifest.from_obj({'suit-manifest-component-id': id}).to_cbor()[1:]",
            found=repr(needle)[:240])
    # independent derivation from the schema: key code, list header, first part encoding of a text, header of a 16-byte bstr
    man = repo.cls("suit_generator.suit.manifest", "SuitManifest")
    mi = S.metadata_of(man)
    key = [k for k, v in mi.map if getattr(k, "name", None) == "suit-manifest-component-id"]
    if not key:
        raise AnalysisError("manifest component id key not found in the schema")
    kid = key[0].id
    typ = [v for k, v in mi.map if k is key[0]][0]
    part_union = S.metadata_of(S.metadata_of(typ.cls).children[0].cls)
    # the first alternative that accepts a Python str longer than one character: its wrap depth decides the encoding
    text_alt = None
    for alt in part_union.children:
        k_ = S.kind(alt.cls)
        if k_ == "tstr":
            text_alt = alt
            break
    if text_alt is None:
        raise AnalysisError("component identifier part has no text alternative")
    first = "INSTLD_MFST"
    # value placed in the list: the text itself (wrap 0) or cbor(text) wrapped wrap-1 more times; the list adds the last header
    enc_first = first
    for _ in range(text_alt.wrap):
        enc_first = cbor_mini.dumps(enc_first)
    full = cbor_mini.dumps({kid: [enc_first, bytes(16)]})
    derived = len(full) - 1 - 16  # minus map header, minus UUID payload
    R.check("C07-D5 class-id offset constant", const == derived, "prefix length", mod=fi.module, node=fi.node, function=fq,
            expected=f"{derived} = key({kid}) + array header + part 'INSTLD_MFST' (wrap {text_alt.wrap}) + bstr header of the UUID",
            found=f"{const}")
    R.check("C07-D5 class-id offset constant", full[0] == 0xA1, "a single-entry map has a one-byte header", mod=fi.module, node=fi.node,
            function=fq, expected="0xA1", found=hex(full[0]))
    # the INSTLD_MFST literal used by the code's own constant, if visible, must be the same string
    lits = [n.value for n in ast.walk(fi.node) if isinstance(n, ast.Constant) and isinstance(n.value, str) and n.value.isupper() and "_" in n.value]
    R.check("C07-D5 class-id offset constant", lits in ([], [first]), "the prefix is computed for the INSTLD_MFST component type", mod=fi.module,
            node=fi.node, function=fq, expected=f"[{first!r}]", found=f"{lits}")

    # ---- D3 rejections
    R.rule("C07-D3a reject before commit", 6, "five rejections, each GeneratorError, each without a commit; the commit is the only store")
    kinds = {}
    def mentions_func(t, names):
        return any(isinstance(x, App) and x.op == "call" and isinstance(x.args[0], Ref) and getattr(x.args[0].obj, "name", None) in names for x in subterms(t))

    def mentions_attr(t, attr):
        return any(isinstance(x, App) and x.op == "attr:" + attr for x in subterms(t))
    for r in raises:
        if not r.conds:
            continue
        (last, pol), = generic.norm_guards([(r.conds[-1], True)])
        if isinstance(last, App) and last.op == "in" and last.args[0] == Const("suit-manifest-component-id") and not pol:
            kinds["missing component id"] = r
        elif isinstance(last, App) and last.op == "is" and Const(None) in last.args and pol:
            x = [a_ for a_ in last.args if a_ != Const(None)][0]
            # what was looked up and not found: a slot (layout table / slot lookup), else a role (assignment table / role lookup)
            if mentions_func(x, ("_find_slot",)) or mentions_attr(x, "_LAYOUT"):
                kinds["no slot"] = r
            elif mentions_func(x, ("_find_role",)) or mentions_attr(x, "_assignments"):
                kinds["unknown class"] = r
        elif isinstance(last, App) and last.op in ("<", ">", "<=", ">=") and pol:
            kinds["too large"] = r
        elif isinstance(last, App) and last.op == "in" and mentions_attr(last.args[1], "_envelopes") and pol:
            kinds["duplicate role"] = r
    want = ["missing component id", "unknown class", "no slot", "too large", "duplicate role"]
    for w in want:
        r = kinds.get(w)
        ok = r is not None and _exc(r) == "GeneratorError" and not [
            e for e in all_effects(r.effects) if isinstance(e, App) and e.op == "eff:store"]
        R.check("C07-D3a reject before commit", ok, w, mod=fi.module, node=r.node if r else fi.node, function=fq,
                expected="raise GeneratorError before self._envelopes[role] = …", found="no such rejection" if r is None else _exc(r), key_extra=w)
    # too large: raise iff len(record) > slot size
    tl = kinds.get("too large")
    if tl is not None:
        c = tl.conds[-1]
        g = ge0_form(c)
        ln = App("len", (rec,))
        size = [a for a in c.args if a != ln]
        want_g = ge0_form(App(">", (ln, size[0]))) if size and ln in c.args else None
        # the slot may also be a NamedTuple / dataclass returned by the lookup: the field that holds entry['size']
        size_fields = set()
        try:
            fs_ = slot_lookup(repo, ev)
        except AnalysisError:
            fs_ = None
        for x_ in (ev.outcomes(fs_) if fs_ else ()):
            if x_.kind == "return" and x_.value is not None:
                for _g, alt_ in cases(x_.value):
                    rec_ = record_fields(alt_)
                    for fld_, t_ in (rec_ or {}).items():
                        if isinstance(t_, App) and t_.op == "idx" and t_.args[1] == Const("size"):
                            size_fields.add("attr:" + fld_)

        def is_size(t_):
            if not isinstance(t_, App):
                return False
            if (t_.op == "idx" and t_.args[1] in (Const(1), Const("size"))) or (t_.op == "unpack" and t_.args[1:] == (Const(1), Const(2))) \
                    or t_.op in size_fields:
                return True
            if t_.op == "phi":  # a followed lookup: every alternative that is a slot at all is that entry's size
                alts_ = [a_ for _g, a_ in cases(t_) if a_ != Const(None) and not (isinstance(a_, App) and a_.op in ("raises", "unpack", "cmeth", "idx") and a_.args and a_.args[0] == Const(None))]
                return bool(alts_) and all(is_size(a_) for a_ in alts_)
            return False
        R.check("C07-D3a reject before commit", g is not None and want_g is not None and lin_key(g) == lin_key(want_g)
                and is_size(size[0]),
                "rejected exactly when the record is larger than the slot size", mod=fi.module, node=tl.node, function=fq,
                expected="len(envelope_bytes) > slot size", found=repr(c)[:200])
    dup = kinds.get("duplicate role")
    if dup is not None:
        c = dup.conds[-1]
        R.rule("C07-D3b duplicate role", 1, "the duplicate test is on the role that is committed")
        R.check("C07-D3b duplicate role", c.args[0] == role_t, "role tested = role committed", mod=fi.module, node=dup.node, function=fq,
                expected=repr(role_t)[:100], found=repr(c.args[0])[:100])
    # _find_slot: returns (offset, size) of the entry whose role matches
    fs = slot_lookup(repo, ev)
    fo = ev.outcomes(fs)
    R.rule("C07-D3c slot lookup", 1, "the slot returned belongs to the role of the class id")
    good = False
    bad_alt = []
    for x in fo:
        if x.kind != "return" or not isinstance(x.value, (App, Const)):
            continue
        # every alternative of the result that is a slot is (offset, size) of ONE entry, selected by that entry's role
        for g_, alt in cases(x.value):
            li = list_items(alt)
            if not li and record_fields(alt) is not None:
                li = list(record_fields(alt).values())  # a NamedTuple (offset, size)
            if not li:
                if alt != Const(None):
                    bad_alt.append(repr(alt)[:80])
                continue
            if len(li) == 2 and isinstance(li[0], App) and li[0].op == "idx" and li[0].args[1] == Const("offset") \
                    and li[1] == App("idx", (li[0].args[0], Const("size"))):
                ent = li[0].args[0]
                conds_ = list(x.conds) + [c_ for c_, v_ in g_.items() if v_]
                if any(isinstance(c, App) and c.op == "==" and App("idx", (ent, Const("role"))) in c.args for c in generic.conjuncts(conds_)):
                    good = True
                else:
                    bad_alt.append("slot of an entry not selected by its role")
            else:
                bad_alt.append(repr(alt)[:80])
    good = good and not bad_alt
    R.check("C07-D3c slot lookup", good, "(entry['offset'], entry['size']) of the entry whose role equals the class's role", mod=fs.module,
            node=fs.node, function=ctx.fq(fs), expected="entry['role'] == role", found="shape not recognised")


def _exc(o):
    v = o.value
    if isinstance(v, App) and v.op == "new":
        return v.args[0].obj.name
    if isinstance(v, App) and v.op.startswith("call:"):
        return v.op.split(":")[-1]
    return "?"


def placement_rules(ctx):
    R = ctx.report
    repo = ctx.repo
    ev = Evaluator(repo, inline_depth=0)
    fi = repo.func(IMG, "EnvelopeStorage.as_intelhex")
    fq = ctx.fq(fi)
    generic.loops_run_to_end(ctx, "C07-D2e every layout entry is visited", fi, {"frombytes", "merge", "puts", "ljust"}, "layout entries (slots)", floor=0)
    outs = [o for o in ev.outcomes(fi) if o.kind == "return"]
    R.rule("C07-D2b placement", 5, "per layout entry: same entry's role selects the bytes, its size pads with 0xFF, its offset places, its domain filters")
    lay = App("attr:_LAYOUT", (SELF,))
    e = App("elem", (lay,))
    loops = [x for o in outs for x in o.effects if isinstance(x, App) and x.op == "eff:loop" and x.args[0] == lay]
    if not loops:
        raise AnalysisError(f"{fq}: loop over the layout not recognised")
    body = loops[0].args[1].args
    fb = [(x.args[0], g) for x, g in _with_guards(body) if isinstance(x, App) and x.op == "eff:call" and isinstance(x.args[0], App)
          and x.args[0].op == "meth:frombytes"]
    if len(fb) == 0:
        generic.absent(ctx, "slot placement", fi, "frombytes(<padded slot>, base address + offset) per layout entry", "no slot is placed in the image")
    if len(fb) != 1:
        raise AnalysisError(f"{fq}: placement call not recognised")
    call, guards = fb[0]
    data, addr = call.args[1], call.args[2] if len(call.args) > 2 else None
    envs = App("attr:_envelopes", (SELF,))
    role, size, offset, dom = (App("idx", (e, Const(k))) for k in ("role", "size", "offset", "domain"))
    R.check("C07-D2b placement", data == App("meth:ljust", (App("idx", (envs, role)), size, Const(b"\xff"))),
            "bytes of the entry's role, padded with 0xFF to the entry's size", mod=fi.module, node=call.node, function=fq,
            expected="self._envelopes[entry['role']].ljust(entry['size'], b'\\xff')", found=repr(data)[:240])
    want_addr = [App("+", (App("attr:_base_address", (SELF,)), offset)), App("+", (offset, App("attr:_base_address", (SELF,))))]
    R.check("C07-D2b placement", addr in want_addr, "placed at base address + the entry's offset", mod=fi.module, node=call.node, function=fq,
            expected="self._base_address + entry['offset']", found=repr(addr)[:160])
    # domain filter and presence test
    sd = P("storage_domain")
    filt = App("and", (App("is not", (sd, Const(None))), App("!=", (sd, dom))))
    filt_pos = [App("or", (App("is", (sd, Const(None))), App("==", (sd, dom)))), App("or", (App("==", (sd, dom)), App("is", (sd, Const(None)))))]
    filt_neg = [filt, App("and", (App("!=", (sd, dom)), App("is not", (sd, Const(None)))))]
    has_filter = any((g in filt_neg and not pol) or (g in filt_pos and pol) for g, pol in guards)
    R.check("C07-D2b placement", has_filter, "entries of other domains are skipped (filter compares the entry's own domain)", mod=fi.module,
            node=fi.node, function=fq, expected="if storage_domain is not None and storage_domain != entry['domain']: continue",
            found="filter not recognised")
    present = any(g == App("in", (role, envs)) and pol for g, pol in generic.norm_guards(guards))
    R.check("C07-D2b placement", present, "only roles that hold an envelope are written", mod=fi.module, node=fi.node, function=fq,
            expected="if entry['role'] in self._envelopes", found=f"{guards}"[:200])
    merges = [x.args[0] for x, g in _with_guards(body) if isinstance(x, App) and x.op == "eff:call" and isinstance(x.args[0], App)
              and x.args[0].op == "meth:merge"]
    okm = len(merges) == 1 and merges[0].args[1] == call.args[0] and not any(isinstance(a, App) and a.op == "kw" for a in merges[0].args)
    R.check("C07-D2b placement", okm, "each slot is merged into the domain image with the default overlap policy (error)", mod=fi.module,
            node=fi.node, function=fq, expected="combined_hex.merge(envelope_hex)", found=repr(merges)[:200])
    # per-domain files, decided on the storage-file creator with the single-domain writer followed and the loop over the domain
    # enumeration unrolled: one guarded write per domain, named after it, holding what as_intelhex(<that domain>) returned -
    # wherever the writer's statements live
    R.rule("C07-D2c per-domain file", 2, "one file per domain, written only when the domain has envelopes")
    if not _per_domain_files_unrolled(ctx):
        _per_domain_writer_rules(ctx, ev)


def _per_domain_files_unrolled(ctx):
    from sa.teval import teval, Unknown
    R, repo = ctx.report, ctx.repo
    fi = boot_files_creator(repo)
    fq = ctx.fq(fi)
    evi = Evaluator(repo, inline_depth=1, inline_filter=lambda f: f.name == "_create_single_domain_storage_file_for_boot")
    outs = [o for o in evi.outcomes(fi) if o.kind == "return"]
    dom = repo.cls(IMG, "ManifestDomain")
    members = [n for n, _v in evi.enum_members(dom)]
    calls = [(x.args[0], g) for o in outs for x, g in _with_guards(o.effects) if isinstance(x, App) and x.op == "eff:call" and isinstance(x.args[0], App)]
    wr = [(c, g) for c, g in calls if c.op == "meth:write_hex_file"]
    mg = [(c, g) for c, g in calls if c.op == "meth:merge"]
    if not wr or not members or len(outs) != 1:
        return False
    files = {}
    try:
        for c, g in wr:
            files.setdefault(teval(c.args[1], {"param:dir_name": "<dir>"}), []).append((c, g))
    except Unknown:
        return False  # the loop over the domains is not unrolled here: the writer's own rules decide

    def member_of(t):
        return t.args[1].v if isinstance(t, App) and t.op == "enum" and isinstance(t.args[0], Ref) and t.args[0].obj is dom else None

    bad = []
    for m in members:
        f_ = f"<dir>/suit_installed_envelopes_{m.lower()}_merged.hex"
        ws = files.pop(f_, [])
        if len(ws) != 1:
            bad.append(f"{m}: {len(ws)} writes of {f_}")
            continue
        c, g = ws[0]
        # what the written object holds: the merge into it, of as_intelhex(storage, <this domain>), under the same guard
        into = [mc for mc, mg_ in mg if mc.args[0] == c.args[0] and norm_guard_set(mg_) == norm_guard_set(g)]
        srcs = [mc.args[1] for mc in into if isinstance(mc.args[1], App) and mc.args[1].op == "meth:as_intelhex" and len(mc.args[1].args) > 1]
        if len(into) != 1 or len(srcs) != 1 or member_of(srcs[0].args[1]) != m:
            bad.append(f"{m}: file does not hold as_intelhex({m}) ({[repr(x)[:80] for x in into]})")
            continue
        guarded = any(isinstance(c_, App) and c_.op == "is not" and c_.args[0] == srcs[0] and c_.args[1] == Const(None) and pol for c_, pol in generic.norm_guards(g))
        if not guarded:
            bad.append(f"{m}: written even when as_intelhex({m}) returned nothing")
    R.check("C07-D2c per-domain file", not bad, "each domain: written only when as_intelhex(domain) returned data, holding exactly that data", mod=fi.module,
            node=fi.node, function=fq, expected="for every domain: if as_intelhex(domain) is not None: merge + write", found="; ".join(bad)[:300])
    R.check("C07-D2c per-domain file", not files, "file named after the domain whose slots it holds; no other file", mod=fi.module, node=fi.node,
            function=fq, expected="dir/suit_installed_envelopes_<domain>_merged.hex for each domain", found=f"{sorted(files)}"[:200])
    return True


def norm_guard_set(g):
    return frozenset((repr(c_), bool(pol)) for c_, pol in generic.norm_guards(g))


def _per_domain_writer_rules(ctx, ev):
    """Proof form of C07-D2c over the single-domain writer helper (used when the loop over the domains cannot be unrolled)."""
    R, repo = ctx.report, ctx.repo
    # single-domain writer: file name from the domain, only when something was placed
    w = repo.func(IMG, "ImageCreator._create_single_domain_storage_file_for_boot")
    wo = [o for o in ev.outcomes(w) if o.kind == "return"]
    wr = [(x.args[0], g) for o in wo for x, g in _with_guards(o.effects) if isinstance(x, App) and x.op == "eff:call"
          and isinstance(x.args[0], App) and x.args[0].op == "meth:write_hex_file"]
    ok = len(wr) == 1 and any(isinstance(g, App) and g.op == "is not" and g.args[1] == Const(None) and pol for g, pol in wr[0][1])
    R.check("C07-D2c per-domain file", ok, "written only when as_intelhex(domain) returned data", mod=w.module, node=w.node, function=ctx.fq(w),
            expected="if envelopes_hex is not None: write", found=repr(wr)[:200])
    name_ok = bool(wr) and any(s == App("meth:lower", (App("attr:name", (P("domain"),)),)) for s in subterms(wr[0][0])) \
        and any(isinstance(s, Const) and s.v == "/suit_installed_envelopes_" for s in subterms(wr[0][0])) \
        and any(isinstance(s, App) and s.op == "meth:as_intelhex" and s.args[1] == P("domain") for o in wo for x in o.effects for s in subterms(x))
    R.check("C07-D2c per-domain file", name_ok, "file named after the domain whose slots it holds", mod=w.module, node=w.node, function=ctx.fq(w),
            expected="dir/suit_installed_envelopes_<domain>_merged.hex from storage.as_intelhex(domain)", found="not recognised")


def ordering_rules(ctx):
    R = ctx.report
    repo = ctx.repo
    ev = Evaluator(repo, inline_depth=0)
    R.rule("C07-D3d add before write", 3, "every envelope is added (all rejections possible) before the first file is written")
    fi = boot_files_creator(repo)
    fq = ctx.fq(fi)
    outs = [o for o in ev.outcomes(fi) if o.kind == "return"]
    outs = generic.sole_outcome(ctx, outs, f"{fq}: expected one outcome")
    ok = True
    saw = False
    for seq in flatten_effects(outs[0].effects, twice=True):
        names = []
        for e in seq:
            if isinstance(e, App) and e.op == "eff:call" and isinstance(e.args[0], App):
                c = e.args[0]
                if c.op == "meth:add_envelope":
                    names.append("add")
                if (c.op == "call" and isinstance(c.args[0], Ref) and c.args[0].obj.name == "_create_single_domain_storage_file_for_boot") \
                        or c.op in ("meth:write_hex_file", "meth:tofile"):
                    names.append("write")
        if "write" in names and "add" in names:
            saw = True
            if max(i for i, n in enumerate(names) if n == "add") > min(i for i, n in enumerate(names) if n == "write"):
                ok = False
    R.check("C07-D3d add before write", ok and saw, "add_envelope for all inputs precedes the per-domain writers", mod=fi.module, node=fi.node,
            function=fq, expected="for envelope in envelopes: add; then for domain: write", found="a write can precede an add")
    adds = [e.args[0] for e in all_effects(outs[0].effects) if isinstance(e, App) and e.op == "eff:call" and isinstance(e.args[0], App)
            and e.args[0].op == "meth:add_envelope"]
    R.check("C07-D3d add before write", len(adds) == 1 and adds[0].args[1] == App("elem", (P("envelopes"),)), "every input envelope is added",
            mod=fi.module, node=fi.node, function=fq, expected="storage.add_envelope(envelope) for envelope in envelopes", found=repr(adds)[:200])
    top = repo.func(IMG, "ImageCreator.create_files_for_boot")
    creator_ = boot_files_creator(repo)
    ev_top = Evaluator(repo, inline_depth=0)
    ev_top.never_inline = {creator_.fq}  # examined on its own above: kept as a call here, whatever it is called
    touts = [o for o in ev_top.outcomes(top) if o.kind == "return"]
    touts = generic.sole_outcome(ctx, touts, f"{ctx.fq(top)}: expected one normal outcome")
    writes = [e for e in all_effects(touts[0].effects) if isinstance(e, App) and (e.op == "eff:write" or (
        e.op == "eff:open" and len(e.args) > 1 and isinstance(e.args[1], Const) and isinstance(e.args[1].v, str) and set(e.args[1].v) & set("wax+"))
        or (e.op == "eff:call" and isinstance(e.args[0], App) and e.args[0].op in ("meth:write_hex_file", "meth:tofile", "meth:write")))]
    seq_ok, saw = True, False

    def fname(c):
        return c.args[0].obj.name if c.op == "call" and isinstance(c.args[0], Ref) and hasattr(c.args[0].obj, "name") else c.op
    for seq in flatten_effects(touts[0].effects, twice=True):
        names = [fname(e.args[0]) for e in seq if isinstance(e, App) and e.op == "eff:call" and isinstance(e.args[0], App)]
        if creator_.name in names:
            saw = True
            i_create = names.index(creator_.name)
            loads = [i for i, n in enumerate(names) if n == "load"]
            severs = [i for i, n in enumerate(names) if n == "sever"]
            if loads:
                # every loaded envelope is severed before it is collected, everything before the storage is built
                if len(severs) != len(loads) or any(sv < ld for ld, sv in zip(loads, severs)) or max(severs) > i_create:
                    seq_ok = False
    same_obj = True
    for e in all_effects(touts[0].effects):
        if isinstance(e, App) and e.op == "eff:call" and isinstance(e.args[0], App) and e.args[0].op == "meth:append":
            appended = e.args[0].args[1]
            sev = [x.args[0].args[1] for x in all_effects(touts[0].effects) if isinstance(x, App) and x.op == "eff:call" and isinstance(x.args[0], App)
                   and fname(x.args[0]) == "sever"]
            same_obj = same_obj and appended in sev
    R.check("C07-D3d add before write", not writes and seq_ok and saw and same_obj, "create_files_for_boot loads and severs every input, writes nothing itself",
            mod=top.module, node=top.node, function=ctx.fq(top), expected="load -> sever -> collect (the severed object) -> _create_suit_storage_files_for_boot",
            found=f"{len(writes)} direct writes; order ok={seq_ok}; severed object collected={same_obj}")
    # soc dispatch: the storage object that receives the envelopes, per SoC name
    R.rule("C07-D6 SoC dispatch", 2, "each SoC name selects its own layout class")
    recv = [e.args[0].args[0] for e in all_effects(outs[0].effects) if isinstance(e, App) and e.op == "eff:call" and isinstance(e.args[0], App)
            and e.args[0].op == "meth:add_envelope"]
    if not recv:
        generic.absent(ctx, "envelopes added to the storage", fi, "storage.add_envelope(envelope) for every input envelope",
                       "no envelope reaches the storage image (and none of the rejections can happen)")
    # guards of the whole function select the class: collect (soc literal -> class) from the if-structure
    chosen = {}
    for e, g in _with_guards(outs[0].effects):
        if isinstance(e, App) and e.op == "eff:call" and isinstance(e.args[0], App) and e.args[0].op == "new" and isinstance(e.args[0].args[0], Ref):
            c = e.args[0]
            socs = [gc.args[1].v for gc, pol in g if pol and isinstance(gc, App) and gc.op == "==" and gc.args[0] == P("soc") and isinstance(gc.args[1], Const)]
            socs += [gc.args[0].v for gc, pol in g if pol and isinstance(gc, App) and gc.op == "==" and gc.args[1] == P("soc") and isinstance(gc.args[0], Const)]
            if len(socs) == 1:
                pos = [a_ for a_ in c.args[1:] if not (isinstance(a_, Const) and isinstance(a_.v, tuple)) and not (isinstance(a_, App) and a_.op == "kw")]
                kws = {a_.args[0].v: a_.args[1] for a_ in c.args[1:] if isinstance(a_, App) and a_.op == "kw"}
                chosen[socs[0]] = (c.args[0].obj.name, pos[:1] == [P("storage_address")] and kws.get("kconfig") == P("config_file"), c)
    for soc, cname in (("nrf54h20", "EnvelopeStorageNrf54h20"), ("nrf9280", "EnvelopeStorageNrf9280")):
        got = chosen.get(soc)
        R.check("C07-D6 SoC dispatch", got is not None and got[0] == cname and got[1] and any(got[2] in [x for _, x in cases(rv)] for rv in recv),
                f"{soc} -> {cname}(storage_address, kconfig=config_file)", mod=fi.module, node=fi.node, function=fq,
                expected=f"{cname}(storage_address, kconfig=config_file) receives the envelopes", found=f"{got[0] if got else 'no class'}", key_extra=soc)
    unknown = [o for o in ev.outcomes(fi) if o.kind == "raise"]
    R.check("C07-D6 SoC dispatch", bool(unknown), "an unknown SoC name is rejected", mod=fi.module, node=fi.node, function=fq,
            expected="raise for any other name", found="falls through")


def sever_rule(ctx):
    """sever(): on every normal path, every severable member and both integrated pseudo members are popped from the tagged envelope
    map; manifest and wrapper never.  Decided on the evaluator's effects (loop / comprehension / unrolled form alike)."""
    R = ctx.report
    repo = ctx.repo
    S = ctx.schema
    R.rule("C07-D4 severed members", 3, "sever() strips every severable member and the integrated payload/dependency pseudo members, never manifest or wrapper")
    fi = repo.func("suit_generator.envelope", "SuitEnvelope.sever")
    fq = ctx.fq(fi)
    env = repo.cls("suit_generator.suit.envelope", "SuitEnvelope")
    mi = S.metadata_of(env)
    man = repo.cls("suit_generator.suit.manifest", "SuitManifest")
    mmi = S.metadata_of(man)
    # severable = envelope members that the manifest can reference by digest (union with a digest alternative)
    sev = set()
    for k, v in mmi.map:
        if v.cls is not None and S.kind(v.cls) == "union":
            u = S.metadata_of(v.cls)
            if any(c.cls is not None and c.cls.name == "SuitDigest" or (c.cls is not None and S.kind(c.cls) == "union" and any(
                    S.from_cbor_always_raises(x.cls) for x in (S.metadata_of(c.cls).children or []) if x.cls)) for c in u.children):
                sev.add(k.name)
    env_names = {k.name for k, v in mi.map}
    pseudo = {k.name for k, v in mi.map if isinstance(k.id, int) and k.id < 0}
    must = (sev & env_names) | pseudo
    keep = {"suit-manifest", "suit-authentication-wrapper"}
    if len(sev & env_names) < 5:
        raise AnalysisError(f"severable members not derived from the schema: {sorted(sev)}")
    MAP = App("idx", (App("attr:_envelope", (P("self"),)), Const("SUIT_Envelope_Tagged")))
    ev = Evaluator(repo, inline_depth=0)
    rets = [o for o in ev.outcomes(fi) if o.kind == "return"]
    if not rets:
        raise AnalysisError(f"{fq}: no normal outcome")

    def popped_names(effects, guard_names=None):
        """names removed from MAP by this effect list; None = a removal whose key set is not a constant"""
        out = set()
        for e in effects:
            if not isinstance(e, App):
                continue
            if e.op == "eff:loop":
                it, body = e.args[0], list(e.args[1].args)
                sel = None
                for b in body:
                    if isinstance(b, App) and b.op == "eff:assume" and isinstance(b.args[0], App) and b.args[0].op == "in" \
                            and isinstance(b.args[0].args[0], App) and b.args[0].args[0].op == "elem" and isinstance(b.args[0].args[1], Const):
                        sel = set(b.args[0].args[1].v)
                inner = popped_names(body, sel)
                if inner is None:
                    return None
                out |= inner
            elif e.op == "eff:if":
                # guarded by membership in a constant list: the then-branch removes exactly those names
                g = e.args[0]
                if isinstance(g, App) and g.op == "in" and isinstance(g.args[1], Const) and isinstance(g.args[0], App) and g.args[0].op == "elem":
                    a1 = popped_names(e.args[1].args, set(g.args[1].v))
                    a2 = popped_names(e.args[2].args, guard_names)
                    if a1 is None or a2 is None:
                        return None
                    out |= a1
                else:
                    a1, a2 = popped_names(e.args[1].args, guard_names), popped_names(e.args[2].args, guard_names)
                    if a1 is None or a2 is None:
                        return None
                    out |= (a1 & a2)  # only what both branches remove is removed on every path
            elif e.op in ("eff:call", "eff:delitem"):
                c = e.args[0] if e.op == "eff:call" else e
                if isinstance(c, App) and c.op in ("meth:pop", "eff:delitem") and c.args and c.args[0] == MAP:
                    k = c.args[1]
                    if isinstance(k, Const):
                        out.add(k.v)
                    elif isinstance(k, App) and k.op == "elem" and guard_names is not None:
                        out |= set(guard_names)
                    else:
                        return None
        return out
    worst = None
    for o in rets:
        names = popped_names(o.effects)
        if names is None:
            raise AnalysisError(f"{fq}: a removal from the envelope map has a non-constant key set (unrecognised form)")
        worst = names if worst is None else (worst & names)
    names = worst
    for n in sorted(must):
        R.check("C07-D4 severed members", n in names, n, mod=fi.module, node=fi.node, function=fq,
                expected=f"{n!r} is stripped on every normal path before the envelope is stored",
                found="not removed on some path (early return or missing from the list)", key_extra=n)
    all_names = set()
    for o in rets:
        all_names |= popped_names(o.effects) or set()
    R.check("C07-D4 severed members", not (all_names & keep), "manifest and authentication wrapper are kept", mod=fi.module, node=fi.node,
            function=fq, expected="never stripped", found=f"{sorted(all_names & keep)}")
    R.check("C07-D4 severed members", all_names <= env_names, "every removed name is an envelope member", mod=fi.module, node=fi.node, function=fq,
            expected="names of envelope members", found=f"{sorted(all_names - env_names)}")
