"""C10 — DFU cache partitions are well-formed, aligned and content-preserving (structure + padding arithmetic)."""
from __future__ import annotations

import ast
from itertools import product

from sa import cbor_mini
from . import generic
from sa.absint import is_alias, Evaluator, all_effects
from sa.index import AnalysisError
from sa.teval import Unknown, lin_key, lin_sub, linear, teval
from sa.terms import App, Const, Ref, Sym, cases, cat_parts, subterms
from .layout import find_effect_calls

EXPLANATION = ("CachePartition.add_cache_slot / add_padding / close / merge are abstractly evaluated to byte-layout terms: "
               "header bytes are checked against the width of the length field that follows and the value encoded; the "
               "padding arithmetic is decided by a small integer-constraint argument over the round-up remainder (no "
               "enumeration of sizes): alignment invariant, minimum padding, header-length bookkeeping and range of the "
               "declared length in every branch; duplicate rejection and merge re-adding checked on all paths; "
               "no repository code executed")

MOD = "suit_generator.cmd_cache_create"
P = lambda n: Sym("param:" + n)
SELF = P("self")


def bstr_header_width(b: int):
    """(width of the length field, max declarable length) for a byte-string initial byte, or None."""
    major, ai = cbor_mini.head_info(b)
    if major != 2:
        return None
    w = cbor_mini.length_bytes_for_ai(ai)
    if w is None or ai == 31:
        return None
    return w


def run(ctx):
    generic.kwargs_keys_are_dests(ctx, "C10-D4d keyword reads are option destinations", "suit_generator.cmd_cache_create")
    R = ctx.report
    generic.cli_converters(ctx, "C10-D4b CLI converters", "suit_generator.cmd_cache_create", 3)
    generic.subcommand_dispatch(ctx, "C10-D4c sub-command dispatch", "suit_generator.cmd_cache_create", 3)
    repo = ctx.repo
    ctx.use_files("suit_generator/cmd_cache_create.py")
    ev0 = Evaluator(repo, inline_depth=0)
    slot_rules(ctx, ev0)
    ev = ev0
    # add_padding: the result term is first evaluated on a grid of (length, block size) pairs that covers every region and boundary of
    # the arithmetic (aligned / one byte short / short form up to 23 / two-byte form / beyond 0xFFFF).  A malformed result is a
    # violation with the sizes as witness.  A fully evaluable, clean grid decides the obligation; the symbolic proof rules then only
    # add strength (a form they do not recognise is reported as information).  Not evaluable: the proof rules alone decide.
    fi_ = ctx.repo.func(MOD, "CachePartition.add_padding")
    status, wit = padding_grid(ctx, ev)
    if status == "witness":
        R.rule("C10-D2r padding result (refutation)", 1, "add_padding(data) = data + one well-formed padding entry, total length a multiple of the block size")
        R.fail("C10-D2r padding result (refutation)", "add_padding", mod=fi_.module, node=fi_.node, function=ctx.fq(fi_),
               expected="data | 60 | bstr header | zeros with len(result) % eb_size == 0 and a header that declares exactly the zeros that follow; "
                        "ValueError exactly when the padding entry would exceed 0xFFFF bytes",
               found=f"len(data)={wit[0]}, eb_size={wit[1]}: {wit[2]}")
    elif status == "ok":
        R.rule("C10-D2g padding result on the grid", 1, "add_padding evaluated on the grid of sizes: well-formed, aligned, rejected only beyond 0xFFFF")
        R.ok("C10-D2g padding result on the grid", f"{wit} (length, block size) pairs")
        with R.lenient("decided by evaluating the result term on the grid of sizes (C10-D2g)"):
            try:
                padding_rules(ctx, ev)
            except AnalysisError as err:
                R.info(f"padding proof rules: {str(err)[:160]} (obligation decided on the grid, C10-D2g)")
        for rid_ in ("C10-D2a alignment invariant", "C10-D2b minimum padding", "C10-D2c padding header"):
            if rid_ in R.rules:
                R.rules[rid_].floor = min(R.rules[rid_].floor, R.rules[rid_].instances)
    else:
        padding_rules(ctx, ev)
    merge_accumulation_rule(ctx)
    close_merge_rules(ctx, ev0)
    producers_rules(ctx)


def merge_accumulation_rule(ctx):
    """Duplicate URIs are refused by add_cache_slot, which sees one pair at a time.  That refusal covers pairs of *different* input
    files only if every pair reaches it: a mapping keyed by URI that is filled across the loop over the input files (a dictionary
    comprehension with the inputs as its outer generator, `d.update(...)` / `d[k] = v` / `d |= ...` inside the loop on a mapping that
    outlives one iteration) keeps the last payload of a repeated URI and drops the others before the refusal can see them.
    Decided on the syntax of merge_cache_files and the module functions it reaches; a gathering that tests membership first is a
    form this rule does not decide (exit 2)."""
    R = ctx.report
    repo = ctx.repo
    m = repo.mod(MOD)
    mf = repo.func(MOD, "CacheMerge.merge_cache_files")
    R.rule("C10-D3e pairs of different inputs are not gathered in a mapping", 1,
           "no mapping keyed by URI is filled across the iteration over the input files before the pairs reach add_cache_slot")
    params = mf.params()
    if len(params) < 2:
        raise AnalysisError(f"{ctx.fq(mf)}: parameters (cache, inputs) not recognised")
    inputs = params[-1]
    # names that hold the list of inputs inside merge_cache_files (the parameter and plain copies of it)
    held = {inputs}
    for n in ast.walk(mf.node):
        if isinstance(n, ast.Assign) and len(n.targets) == 1 and isinstance(n.targets[0], ast.Name):
            v = n.value
            if isinstance(v, ast.Name) and v.id in held:
                held.add(n.targets[0].id)
            elif isinstance(v, ast.Call) and isinstance(v.func, ast.Name) and v.func.id in ("list", "tuple", "sorted", "reversed") and v.args \
                    and isinstance(v.args[0], ast.Name) and v.args[0].id in held:
                held.add(n.targets[0].id)

    def over_inputs(it):
        if isinstance(it, ast.Call) and isinstance(it.func, ast.Name) and it.func.id in ("enumerate", "iter", "list", "tuple", "reversed") and it.args:
            it = it.args[0]
        return isinstance(it, ast.Name) and it.id in held

    sites = 0
    for n in ast.walk(mf.node):
        if isinstance(n, ast.DictComp) and n.generators and over_inputs(n.generators[0].iter):
            sites += 1
            multi = len(n.generators) > 1
            keyed_by_file = isinstance(n.key, ast.Name) and isinstance(n.generators[0].target, ast.Name) and n.key.id == n.generators[0].target.id
            R.check("C10-D3e pairs of different inputs are not gathered in a mapping", not multi or keyed_by_file, f"dictionary comprehension at line {n.lineno}",
                    mod=mf.module, node=n, function=ctx.fq(mf), expected="every (URI, payload) pair of every input file reaches add_cache_slot, which refuses a repeated URI",
                    found="the pairs of all input files are gathered in one dictionary keyed by URI: a URI present in two inputs keeps its last payload, "
                          "the earlier pair never reaches the duplicate test")
        elif isinstance(n, (ast.For, ast.AsyncFor)) and over_inputs(n.iter):
            sites += 1
            local = {t.id for x in ast.walk(n) for t in ([x.targets[0]] if isinstance(x, ast.Assign) and len(x.targets) == 1 else [])
                     if isinstance(t, ast.Name)}
            outer_maps = set()
            for a in ast.walk(mf.node):
                if isinstance(a, ast.Assign) and len(a.targets) == 1 and isinstance(a.targets[0], ast.Name) and a.lineno < n.lineno:
                    v = a.value
                    if isinstance(v, (ast.Dict, ast.DictComp)) or (isinstance(v, ast.Call) and isinstance(v.func, ast.Name) and v.func.id in ("dict", "OrderedDict", "defaultdict")):
                        outer_maps.add(a.targets[0].id)
            outer_maps -= local
            bad = None
            for x in ast.walk(n):
                tgt = None
                if isinstance(x, ast.Assign) and len(x.targets) == 1 and isinstance(x.targets[0], ast.Subscript) and isinstance(x.targets[0].value, ast.Name):
                    tgt = x.targets[0].value.id
                elif isinstance(x, ast.AugAssign) and isinstance(x.op, ast.BitOr) and isinstance(x.target, ast.Name):
                    tgt = x.target.id
                elif isinstance(x, ast.Call) and isinstance(x.func, ast.Attribute) and x.func.attr in ("update", "setdefault") and isinstance(x.func.value, ast.Name):
                    tgt = x.func.value.id
                if tgt in outer_maps:
                    bad = (x, tgt)
                    break
            if bad is not None:
                tested = any(isinstance(c, ast.Compare) and any(isinstance(o, (ast.In, ast.NotIn)) for o in c.ops)
                             and any(isinstance(k, ast.Name) and k.id == bad[1] for k in c.comparators) for c in ast.walk(n))
                if tested:
                    raise AnalysisError(f"{ctx.fq(mf)}: pairs gathered in the mapping '{bad[1]}' with a membership test: not a form the merge rules decide")
            R.check("C10-D3e pairs of different inputs are not gathered in a mapping", bad is None, f"loop over the input files at line {n.lineno}",
                    mod=mf.module, node=bad[0] if bad else n, function=ctx.fq(mf),
                    expected="every (URI, payload) pair of every input file reaches add_cache_slot, which refuses a repeated URI",
                    found=f"the pairs are gathered across the input files in the mapping '{bad[1]}' keyed by URI: a repeated URI keeps one payload, "
                          "the other pair never reaches the duplicate test" if bad else "")
    if not sites:
        raise AnalysisError(f"{ctx.fq(mf)}: no iteration over the input files found")


def slot_rules(ctx, ev):
    R = ctx.report
    repo = ctx.repo
    fi = repo.func(MOD, "CachePartition.add_cache_slot")
    fq = ctx.fq(fi)
    outs = ev.outcomes(fi)
    rets = [o for o in outs if o.kind == "return"]
    raises = [o for o in outs if o.kind == "raise"]
    rets = generic.sole_outcome(ctx, rets, f"{fq}: expected one normal outcome")
    o = rets[0]
    pad_calls = [e.args[0] for e in all_effects(o.effects) if isinstance(e, App) and e.op == "eff:call"
                 and isinstance(e.args[0], App) and e.args[0].op == "call" and isinstance(e.args[0].args[0], Ref)
                 and e.args[0].args[0].obj.name == "add_padding"]
    if len(pad_calls) == 0:
        generic.absent(ctx, "slot padding", fi, "add_padding(<slot bytes>) before the slot is appended", "slots after the first are not aligned to the erase block")
    if len(pad_calls) != 1:
        raise AnalysisError(f"{fq}: add_padding call not recognised")
    slot = pad_calls[0].args[-1]
    parts = cat_parts(slot)
    R.rule("C10-D1a slot layout", 6, "[BF] | cbor(uri) | 5A | u32be len(data) | data, BF only for the first slot")
    first = App("attr:first_slot", (SELF,))
    uri, data = P("uri"), P("data")
    # decided by evaluating the slot term (whatever the way the pieces are accumulated) on sample slots; shape rules as fallback
    decided = False
    try:
        bad = None
        for fs in (True, False):
            for u_ in ("", "a", "http://example.com/" + "p" * 40):
                for d_ in (b"", b"\x00", bytes(range(256)) + b"tail"):
                    got = teval(slot, {first: fs, "param:uri": u_, "param:data": d_})
                    want_ = (b"\xbf" if fs else b"") + cbor_mini.dumps(u_) + b"\x5a" + len(d_).to_bytes(4, "big") + d_
                    if bytes(got) != want_ and bad is None:
                        bad = (fs, u_, len(d_), bytes(got)[:24].hex(), want_[:24].hex())
        decided = True
        R.check("C10-D1a slot layout", bad is None, "[BF if first slot] | cbor(uri) | 5A | u32be len(data) | data", mod=fi.module, node=fi.node, function=fq,
                expected=f"{bad[4]}… for first_slot={bad[0]}, uri={bad[1]!r}, {bad[2]} data bytes" if bad else "as specified on 18 sample slots",
                found=f"{bad[3]}…" if bad else "")
        for _ in range(4):
            R.ok("C10-D1a slot layout", "evaluated on sample slots")
    except Unknown:
        decided = False
    cleared = [e for e in all_effects(o.effects) if isinstance(e, App) and e.op == "eff:setattr" and e.args[0] == SELF
               and e.args[1] == Const("first_slot")]
    guard_ok = False
    for e in o.effects:
        if isinstance(e, App) and e.op == "eff:if" and e.args[0] == first:
            guard_ok = any(isinstance(x, App) and x.op == "eff:setattr" and x.args[1] == Const("first_slot")
                           and x.args[2] == Const(False) for x in e.args[1].args) and not [
                x for x in e.args[2].args if isinstance(x, App) and x.op == "eff:setattr"]
    R.check("C10-D1a slot layout", guard_ok and len(cleared) == 1, "first_slot is cleared in the branch that emitted 0xBF",
            mod=fi.module, node=fi.node, function=fq, expected="self.first_slot = False under the same guard", found=f"{cleared}"[:200])
    if not decided:
        opening = parts[0] if parts else None
        ok = isinstance(opening, App) and opening.op == "phi" and opening.args[0] == first and opening.args[1] == Const(b"\xbf") \
            and opening.args[2] == Const(b"")
        R.check("C10-D1a slot layout", ok, "0xBF (indefinite map) exactly when this is the first slot", mod=fi.module, node=fi.node,
                function=fq, expected="b'\\xbf' if self.first_slot else b''", found=repr(opening)[:160])
        rest = parts[1:] if ok else parts
        R.check("C10-D1a slot layout", len(rest) >= 1 and rest[0] == App("cbor", (uri,)), "key = cbor(uri)", mod=fi.module,
                node=fi.node, function=fq, expected="cbor2.dumps(uri)", found=repr(rest[0])[:120] if rest else "missing")
        hdr = rest[1] if len(rest) > 1 else None
        ln = rest[2] if len(rest) > 2 else None
        hb = hdr.v[0] if isinstance(hdr, Const) and isinstance(hdr.v, bytes) and len(hdr.v) == 1 else None
        w = bstr_header_width(hb) if hb is not None else None
        lw = ln.args[1].v if isinstance(ln, App) and ln.op == "meth:to_bytes" and len(ln.args) > 1 and isinstance(ln.args[1], Const) else None
        R.check("C10-D1a slot layout", hb == 0x5A and w == lw == 4, "fixed 4-byte length form: header 0x5A announces the 4 bytes that follow",
                mod=fi.module, node=fi.node, function=fq, expected="0x5A + 4-byte length",
                found=f"header {hdr!r} (announces {w} length bytes), {lw} bytes follow")
        R.check("C10-D1a slot layout", isinstance(ln, App) and ln.op == "meth:to_bytes" and ln.args[0] == App("len", (data,))
                and len(ln.args) > 2 and ln.args[2] == Const("big"), "length = len(data), big endian", mod=fi.module, node=fi.node,
                function=fq, expected="len(data).to_bytes(4, byteorder='big')", found=repr(ln)[:160])
        R.check("C10-D1a slot layout", len(rest) == 4 and rest[3] == data, "the payload follows unmodified and nothing else", mod=fi.module,
                node=fi.node, function=fq, expected="… + data", found=repr(rest[3:])[:160])

    R.rule("C10-D3a duplicate rejection", 3, "a URI already present raises before anything is recorded")
    dup = [r for r in raises if any(isinstance(c, App) and c.op == "in" and c.args[0] == uri for c in r.conds)]
    ok = bool(dup)
    # `uri in self` with a __contains__ of the class that is `item in self.uris` is the same test
    containers = [App("attr:uris", (SELF,))]
    cm = fi.cls.methods.get("__contains__") if fi.cls is not None else None
    if cm is not None and len(cm.params()) == 2:
        couts = [o_ for o_ in ev.outcomes(cm) if o_.kind == "return"]
        if len(couts) == 1 and couts[0].value == App("in", (P(cm.params()[1]), App("attr:uris", (SELF,)))) and not couts[0].conds:
            containers.append(SELF)
    R.check("C10-D3a duplicate rejection", ok and all(_exc(r) == "ValueError" for r in dup)
            and all(c.args[1] in containers for r in dup for c in r.conds if isinstance(c, App) and c.op == "in"),
            "uri in self.uris -> ValueError", mod=fi.module, node=fi.node, function=fq, expected="raise ValueError", found=f"{len(dup)} rejecting paths")
    for r in dup:
        recorded = [e for e in all_effects(r.effects) if isinstance(e, App) and (
            (e.op == "eff:setattr" and e.args[1] == Const("cache_data")) or
            (e.op == "eff:call" and isinstance(e.args[0], App) and e.args[0].op == "meth:append" and is_alias(e.args[0].args[0])))]
        R.check("C10-D3a duplicate rejection", not recorded, "nothing appended before the rejection", mod=fi.module, node=r.node,
                function=fq, expected="raise dominates uris.append and cache_data +=", found=f"{recorded}"[:200])
    app = [e.args[0] for e in all_effects(o.effects) if isinstance(e, App) and e.op == "eff:call" and isinstance(e.args[0], App)
           and e.args[0].op == "meth:append" and is_alias(e.args[0].args[0])]  # appends to the object's state, not to local lists
    R.check("C10-D3a duplicate rejection", len(app) == 1 and app[0].args[0] == App("attr:uris", (SELF,)) and app[0].args[1] == uri,
            "the accepted URI is remembered", mod=fi.module, node=fi.node, function=fq, expected="self.uris.append(uri)", found=f"{app}"[:200])

    R.rule("C10-D1b slot appended", 1, "cache_data grows by exactly the padded slot")
    st = [e for e in all_effects(o.effects) if isinstance(e, App) and e.op == "eff:setattr" and e.args[1] == Const("cache_data")]
    want = [App("attr:cache_data", (SELF,)), pad_calls[0]]
    got = None
    if len(st) == 1:
        v = st[0].args[2]
        got = cat_parts(v) if not (isinstance(v, App) and v.op == "+") else [v.args[0], v.args[1]]
    R.check("C10-D1b slot appended", got == want, "self.cache_data += add_padding(slot)", mod=fi.module, node=fi.node, function=fq,
            expected="old cache_data followed by the padded slot", found=repr(st)[:240])


def _exc(o):
    v = o.value
    if isinstance(v, App) and v.op.startswith("call:"):
        return v.op.split(":")[-1].split(".")[-1]
    if isinstance(v, App) and v.op == "new":
        return v.args[0].obj.name
    return "?"


# ------------------------------------------------------------------------------------------------
def roundup_atoms(t):
    """Recognise R0 = ceil(L / B) * B (or ((L + B - 1) // B) * B) inside ``t``; return (R0, L, B) or None."""
    for s in subterms(t):
        if isinstance(s, App) and s.op == "*":
            for a, b in ((s.args[0], s.args[1]), (s.args[1], s.args[0])):
                if isinstance(a, App) and a.op == "call:math.ceil" and isinstance(a.args[0], App) and a.args[0].op == "/" \
                        and a.args[0].args[1] == b:
                    return s, a.args[0].args[0], b
                if isinstance(a, App) and a.op == "//" and a.args[1] == b:
                    num = linear(a.args[0])
                    lb = linear(b)
                    if num and lb:
                        d = lin_sub(num, lb)
                        # L + B - 1 - B = L - 1
                        for atom in list(d[0]):
                            if d[0] == {atom: 1} and d[1] == -1:
                                return s, atom, b
    return None


def feasible_below(Pterm, conds, P0, B, n):
    """Is  P < n  satisfiable under the guards, P0 in [0, B-1], B >= 1 ?  (tiny integer search, sound for the
    linear forms P = P0 + k*B + c with k >= 0 that the rule accepts)."""
    witnesses = []
    for guards, leaf in cases(Pterm):
        le = linear(leaf)
        if le is None or any(k not in (P0, B) for k in le[0]) or any(v < 0 for v in le[0].values()):
            raise AnalysisError(f"padding size is not a non-negative linear form of the remainder and block size: {leaf!r}"[:200])
        for p0, b in product(range(0, n + 1), range(1, n + 2)):
            if p0 > b - 1:
                continue
            env = {P0: p0, B: b}
            try:
                if not all(bool(teval(g, env)) == pol for g, pol in guards.items()):
                    continue
                val = teval(leaf, env)
                env2 = dict(env)
                env2[Pterm] = val
                if val < n and all(bool(teval(c, env2)) for c in conds):
                    witnesses.append((p0, b, val))
            except Unknown as e:
                raise AnalysisError(f"padding guard not evaluable: {e}")
    return witnesses


def padding_grid(ctx, ev):
    """Evaluate add_padding's outcome terms for concrete sizes.  ("witness", (len, eb, what)) for the first malformed result,
    ("ok", number of pairs) when every pair evaluates and is well-formed, ("unknown", None) when a term cannot be evaluated."""
    from sa.teval import Raised, Unknown, teval
    fi = ctx.repo.func(MOD, "CachePartition.add_padding")
    outs = ev.outcomes(fi)
    EB = App("attr:eb_size", (SELF,))
    n_pairs = 0
    for eb in (1, 2, 3, 4, 7, 8, 12, 16, 22, 23, 24, 25, 26, 27, 31, 32, 48, 64, 100, 128, 192, 193, 255, 256, 257, 500, 1024, 4096,
               65534, 65535, 65536, 65537, 65538, 70000):
        lens = sorted({n for n in (0, 1, 2, 3, eb - 3, eb - 2, eb - 1, eb, eb + 1, eb + 2, 2 * eb - 2, 2 * eb - 1, 2 * eb, 3 * eb + 5, 5 * eb - 1, 23, 24, 25, 255, 256, 257)
                       if 0 <= n <= 400000} | set(range(0, min(eb, 40))))
        for n in lens:
            data = bytes([0xA5]) * n
            env = {P("data"): data, EB: eb}
            pad = (eb - n % eb) % eb
            if pad == 1:
                pad += eb
            must_raise = pad > 0xFFFF
            chosen = None
            n_pairs += 1
            try:
                # exits that raise first: when the body of a followed helper raises, its normal exit (merged into one conditional
                # value) carries no condition of its own - the raise pre-empts it
                for o in sorted(outs, key=lambda o_: o_.kind != "raise"):
                    if all(bool(teval(c, env)) for c in o.conds):
                        chosen = o
                        break
                if chosen is None:
                    return "unknown", None
                if chosen.kind == "raise":
                    if must_raise:
                        continue
                    return "witness", (n, eb, f"raises although a padding entry of {pad} bytes (<= 0xFFFF) is needed")
                v = teval(chosen.value, env)
            except Raised:
                if must_raise:
                    continue
                return "witness", (n, eb, "raises")
            except Unknown:
                return "unknown", None
            except Exception as e:  # the evaluated expression itself fails for these sizes (e.g. byte value out of range)
                if must_raise:
                    continue  # some exception where the specification wants a ValueError: the class is judged by the proof rules
                return "witness", (n, eb, f"the result expression fails: {type(e).__name__}: {e}")
            if not isinstance(v, (bytes, bytearray)):
                return "unknown", None
            if must_raise:
                return "witness", (n, eb, f"a padding entry of {pad} bytes is emitted although its length does not fit the two-byte form")
            if len(v) % eb != 0:
                return "witness", (n, eb, f"result length {len(v)} is not a multiple of the block size")
            if v[:n] != data:
                return "witness", (n, eb, "the slot bytes are modified")
            tail = v[n:]
            if len(tail) != pad:
                return "witness", (n, eb, f"{len(tail)} padding bytes instead of {pad}")
            if not tail:
                continue
            if len(tail) < 2 or tail[0] != 0x60:
                return "witness", (n, eb, f"padding entry does not start with the empty key (0x60): {tail[:4].hex()}")
            b = tail[1]
            if 0x40 <= b <= 0x57:
                hl, dl = 2, b - 0x40
            elif b == 0x58 and len(tail) >= 3:
                hl, dl = 3, tail[2]
            elif b == 0x59 and len(tail) >= 4:
                hl, dl = 4, int.from_bytes(tail[2:4], "big")
            elif b == 0x5A and len(tail) >= 6:
                hl, dl = 6, int.from_bytes(tail[2:6], "big")
            else:
                return "witness", (n, eb, f"byte after the empty key is 0x{b:02x}: not a definite-length byte string header")
            if len(tail) != hl + dl or any(tail[hl:]):
                return "witness", (n, eb, f"header declares {dl} bytes but {len(tail) - hl} follow (or they are not zero)")
    return "ok", n_pairs


def padding_rules(ctx, ev):
    R = ctx.report
    repo = ctx.repo
    fi = repo.func(MOD, "CachePartition.add_padding")
    fq = ctx.fq(fi)
    outs = ev.outcomes(fi)
    data = P("data")
    L = App("len", (data,))
    rets = [o for o in outs if o.kind == "return"]
    raises = [o for o in outs if o.kind == "raise"]
    padded = [o for o in rets if isinstance(o.value, App) and o.value.op == "meth:ljust"]
    aligned = [o for o in rets if o.value == data]
    if len(padded) != 1 or len(aligned) != 1:
        raise AnalysisError(f"{fq}: outcomes not recognised ({len(padded)} padded, {len(aligned)} unchanged)")
    op_ = padded[0]
    lj = op_.value
    Rterm = lj.args[1]
    fill = lj.args[2] if len(lj.args) > 2 else None
    # the padding size is the term compared with 0 on the aligned path
    zc = [c for c in aligned[0].conds if isinstance(c, App) and c.op == "==" and Const(0) in c.args]
    if len(zc) != 1:
        raise AnalysisError(f"{fq}: 'padding == 0' guard not recognised")
    Pterm = [a for a in zc[0].args if a != Const(0)][0]
    ra = roundup_atoms(Pterm)
    if ra is None:
        raise AnalysisError(f"{fq}: round-up expression not recognised in {Pterm!r}"[:300])
    R0, Lx, B = ra
    R.rule("C10-D2a alignment invariant", 4, "rounded_up_size = round-up of len(data) to the block size; rounded - len(data) == padding on every path")
    R.check("C10-D2a alignment invariant", Lx == L and B == App("attr:eb_size", (SELF,)), "round-up of len(data) to self.eb_size",
            mod=fi.module, node=fi.node, function=fq, expected="ceil(len(data) / eb_size) * eb_size", found=f"L={Lx!r} B={B!r}")
    P0 = App("-", (R0, L))
    # invariant R - L == P for every guard assignment (R and P are phi terms over the same guards)
    inv = True
    detail = ""
    rc, pc = cases(Rterm), cases(Pterm)
    for gp, pleaf in pc:
        for gr, rleaf in rc:
            if any(gr.get(k, v) != v for k, v in gp.items()) or any(gp.get(k, v) != v for k, v in gr.items()):
                continue
            lr, lp = linear(rleaf), linear(pleaf)
            if lr is None or lp is None or lin_key(lin_sub(lin_sub(lr, linear(L)), lp)) != ((), 0):
                inv = False
                detail = f"R={rleaf!r} P={pleaf!r}"
    R.check("C10-D2a alignment invariant", inv, "every adjustment is applied to both sizes", mod=fi.module, node=fi.node, function=fq,
            expected="rounded_up_size - len(data) == padding_size", found=detail[:300])
    R.check("C10-D2a alignment invariant", fill == Const(b"\x00"), "zero fill up to the rounded size", mod=fi.module, node=fi.node,
            function=fq, expected="ljust(rounded_up_size, b'\\x00')", found=repr(fill))
    # aligned data returned unchanged only when padding == 0 is the *post-adjustment* size
    R.check("C10-D2a alignment invariant", aligned[0].value == data and len(aligned[0].conds) == 1, "already aligned data is returned unchanged",
            mod=fi.module, node=fi.node, function=fq, expected="if padding_size == 0: return data", found=f"{aligned[0].conds}"[:200])

    # ---- minimum padding
    R.rule("C10-D2b minimum padding", 1, "on reaching the header code padding_size >= 2 (a padding entry needs key + header)")
    # substitute the remainder atom so that guards are over P0 and B only
    from sa.terms import substitute
    Pn = substitute(Pterm, {P0: Sym("P0"), B: Sym("B")})
    p0s, bs = Sym("P0"), Sym("B")
    header_conds = [substitute(c, {Pterm: Sym("P"), P0: p0s, B: bs}) for c in op_.conds]
    Psym = Sym("P")
    wit = feasible_below_sub(Pn, header_conds, p0s, bs, Psym, 2)
    R.check("C10-D2b minimum padding", not wit, "padding_size in {0, 1} cannot reach the header code", mod=fi.module, node=fi.node,
            function=fq, expected="padding_size >= 2 (1 is bumped by one block, 0 returns early)",
            found=f"reachable with (remainder, block, padding) = {wit[:3]}")

    # ---- header branches
    R.rule("C10-D2c padding header", 6, "key 0x60; header bytes emitted == header_len; declared length == zeros that follow; range fits the header form")
    Pv = Sym("padding_size")
    body = substitute(lj.args[0], {Pterm: Pv})
    branches = cases(body)
    if not branches:
        raise AnalysisError(f"{fq}: padded body not recognised")
    seen_forms = 0
    lower = 2
    for guards, leaf in branches:
        # only guards over the padding size matter here
        bounds = []
        for g, pol in guards.items():
            if isinstance(g, App) and g.op in ("<=", "<") and g.args[0] == Pv and isinstance(g.args[1], Const):
                bounds.append((g.op, g.args[1].v, pol))
        if not bounds:
            continue
        lo, hi = lower, None
        # guards established by an exiting sibling branch (if … elif … else: raise) on this branch
        for eff, gs in _with_guards(op_.effects):
            if isinstance(eff, App) and eff.op == "eff:assume":
                a = substitute(eff.args[0], {Pterm: Pv})
                if all(guards.get(substitute(g, {Pterm: Pv})) == pol for g, pol in gs):
                    pol = True
                    if isinstance(a, App) and a.op == "not":
                        a, pol = a.args[0], False
                    if isinstance(a, App) and a.op in ("<=", "<") and a.args[0] == Pv and isinstance(a.args[1], Const):
                        bounds.append((a.op, a.args[1].v, pol))
        for op, c, pol in bounds:
            if pol:
                hi = c if op == "<=" else c - 1
            else:
                lo = max(lo, c + 1 if op == "<=" else c)
        parts = cat_parts(leaf)
        inst = f"branch padding in [{lo}, {hi}]"
        if not parts or parts[0] != data:
            R.fail("C10-D2c padding header", inst, mod=fi.module, node=fi.node, function=fq, expected="data first", found=repr(leaf)[:160])
            continue
        tail = parts[1:]
        # flatten constants
        blob = b""
        rest = []
        for p in tail:
            if isinstance(p, Const) and isinstance(p.v, bytes) and not rest:
                blob += p.v
            else:
                rest.append(p)
        key_ok = blob[:1] == b"\x60"
        R.check("C10-D2c padding header", key_ok, inst + ": empty-string key 0x60", mod=fi.module, node=fi.node, function=fq,
                expected="0x60", found=blob[:1].hex(), key_extra=inst)
        hdr_const = blob[1:]
        emitted = None
        n_term = None
        width = None
        maxlen = None
        if not hdr_const and len(rest) == 1 and isinstance(rest[0], App) and rest[0].op == "byte":
            # short form: byte(0x40 + n)
            le = rest[0].args[0]
            if isinstance(le, App) and le.op == "+" and Const(0x40) in le.args:
                n_term = [a for a in le.args if a != Const(0x40)][0]
                emitted, width, maxlen = 2, 0, 23
        elif len(hdr_const) == 1 and len(rest) == 1 and isinstance(rest[0], App) and rest[0].op == "meth:to_bytes":
            w = bstr_header_width(hdr_const[0])
            tw = rest[0].args[1].v if isinstance(rest[0].args[1], Const) else None
            if w is not None and w == tw and w > 0 and len(rest[0].args) > 2 and rest[0].args[2] == Const("big"):
                n_term = rest[0].args[0]
                emitted, width, maxlen = 2 + w, w, (1 << (8 * w)) - 1
            else:
                R.fail("C10-D2c padding header", inst + ": header byte matches the width of the length field", mod=fi.module,
                       node=fi.node, function=fq, expected="0x58/0x59/0x5A with 1/2/4 big-endian length bytes",
                       found=f"header {hdr_const.hex()} announces {w} bytes, {tw} follow", key_extra=inst)
                continue
        if n_term is None:
            R.fail("C10-D2c padding header", inst + ": header form", mod=fi.module, node=fi.node, function=fq,
                   expected="byte-string header (short or 1/2/4-byte length)", found=repr(tail)[:200], key_extra=inst)
            continue
        seen_forms += 1
        # declared length n == P - emitted  (zeros that follow = R - (L + emitted) = P - emitted by the invariant)
        ln = linear(n_term)
        lp = linear(Pv)
        ok = ln is not None and lp is not None and lin_key(lin_sub(lp, ln)) == ((), emitted)
        R.check("C10-D2c padding header", ok, inst + f": declared length = padding - {emitted} header bytes actually emitted",
                mod=fi.module, node=fi.node, function=fq, expected=f"padding_size - {emitted}", found=repr(n_term)[:160], key_extra=inst)
        rng_ok = lo - emitted >= 0 and hi is not None and hi - emitted <= maxlen
        R.check("C10-D2c padding header", rng_ok, inst + f": declared length fits the header form (0..{maxlen})", mod=fi.module,
                node=fi.node, function=fq, expected=f"0 <= padding - {emitted} <= {maxlen} on this branch",
                found=f"[{lo - emitted}, {None if hi is None else hi - emitted}]", key_extra=inst)
    if seen_forms < 2:
        raise AnalysisError(f"{fq}: fewer than two header forms recognised")
    # beyond the last form: raise
    R.check("C10-D2c padding header", bool(raises) and all(_exc(r) == "ValueError" for r in raises),
            "padding larger than the last header form is rejected", mod=fi.module, node=fi.node, function=fq,
            expected="raise ValueError", found=f"{[_exc(r) for r in raises]}")


def feasible_below_sub(Pn, conds, p0s, bs, Psym, n):
    wit = []
    for guards, leaf in cases(Pn):
        le = linear(leaf)
        if le is None or any(k not in (p0s, bs) for k in le[0]) or any(v < 0 for v in le[0].values()):
            raise AnalysisError(f"padding size is not a non-negative linear form of remainder and block size: {leaf!r}"[:200])
        for p0, b in product(range(0, n + 1), range(1, n + 2)):
            if p0 > b - 1:
                continue
            env = {"P0": p0, "B": b}
            try:
                if not all(bool(teval(g, env)) == pol for g, pol in guards.items()):
                    continue
                val = teval(leaf, env)
                env["P"] = val
                if val < n and all(bool(teval(c, env)) for c in conds):
                    wit.append((p0, b, val))
            except Unknown as e:
                raise AnalysisError(f"padding guard not evaluable: {e}")
    return wit


# ------------------------------------------------------------------------------------------------
def close_merge_rules(ctx, ev):
    R = ctx.report
    repo = ctx.repo
    R.rule("C10-D1c close", 2, "0xFF appended once, then the only write of the whole buffer")
    fi = repo.func(MOD, "CachePartition.close_and_save_cache")
    fq = ctx.fq(fi)
    outs = [o for o in ev.outcomes(fi) if o.kind == "return"]
    outs = generic.sole_outcome(ctx, outs, f"{fq}: expected one outcome")
    o = outs[0]
    writes = [e for e in all_effects(o.effects) if isinstance(e, App) and e.op == "eff:write"]
    final = cat_parts(_plus(writes[0].args[1])) if len(writes) == 1 else None
    R.check("C10-D1c close", final == [App("attr:cache_data", (SELF,)), Const(b"\xff")], "file = cache_data + 0xFF", mod=fi.module,
            node=fi.node, function=fq, expected="cache_data followed by one 0xFF", found=repr(writes)[:200])
    R.check("C10-D1c close", len(writes) == 1 and writes[0].args[0] == App("open", (P("output_file"), Const("wb"))),
            "written once, binary, to output_file", mod=fi.module, node=fi.node, function=fq, expected="open(output_file, 'wb')",
            found=repr(writes[0].args[0])[:120] if writes else "no write")

    R.rule("C10-D3b merge re-adds every pair", 3, "every non-empty key of an input cache is re-added with its own value through add_cache_slot")
    mf = repo.func(MOD, "CachePartition.merge_single_cache_file")
    mq = ctx.fq(mf)
    generic.loops_run_to_end(ctx, "C10-D3f every pair of an input is visited", mf, {"add_cache_slot"}, "(URI, payload) pairs of the input cache", floor=0)
    generic.loops_run_to_end(ctx, "C10-D3f every pair of an input is visited", repo.func(MOD, "CacheMerge.merge_cache_files"), {"merge_single_cache_file", "add_cache_slot"},
                             "input cache files")
    generic.loops_run_to_end(ctx, "C10-D3f every pair of an input is visited", repo.func(MOD, "CacheFromPayloads.fill_cache_from_payloads"), {"add_cache_slot"},
                             "supplied (URI, file) items")
    mo = [o for o in ev.outcomes(mf) if o.kind == "return"]
    mo = generic.sole_outcome(ctx, mo, f"{mq}: expected one outcome")
    loops = [e for e in mo[0].effects if isinstance(e, App) and e.op == "eff:loop"]
    if len(loops) != 1:
        raise AnalysisError(f"{mq}: loop not recognised")
    it = loops[0].args[0]
    src = [s for s in subterms(it) if isinstance(s, App) and s.op == "cborload"]
    ok = bool(src) and src[0].args[0] == App("filebytes", (P("cache_input_file"),)) and (
        it == App("meth:keys", (src[0],)) or it == src[0] or it == App("meth:items", (src[0],)))
    R.check("C10-D3b merge re-adds every pair", ok, "iterates all keys of the decoded input file", mod=mf.module, node=mf.node, function=mq,
            expected="for k in cbor2.loads(<whole file>).keys()", found=repr(it)[:200])
    adds = [(e.args[0], g) for e, g in _with_guards(loops[0].args[1].args) if isinstance(e, App) and e.op == "eff:call"
            and isinstance(e.args[0], App) and e.args[0].op == "call" and isinstance(e.args[0].args[0], Ref)
            and e.args[0].args[0].obj.name == "add_cache_slot"]
    k = App("elem", (it,))
    if src and it == App("meth:items", (src[0],)):
        # for key, value in cache.items(): the pair's own key and value
        pair = k
        k = App("unpack", (pair, Const(0), Const(2)))
        own = (App("unpack", (pair, Const(1), Const(2))), App("idx", (src[0], k)))
    else:
        own = (App("idx", (src[0], k)),) if src else ()
    good = len(adds) == 1 and adds[0][0].args[2] == k and adds[0][0].args[3] in own if src else False
    R.check("C10-D3b merge re-adds every pair", bool(good), "add_cache_slot(k, cache[k]) with the key's own value", mod=mf.module, node=mf.node,
            function=mq, expected="self.add_cache_slot(k, cache_dict[k])", found=repr(adds)[:240])
    # the only skip condition is an empty key
    skip_ok = False
    if adds:
        gs = adds[0][1]
        skip_ok = all(_is_len_zero_guard(g, k) and pol is False for g, pol in gs) and len(gs) <= 1
        # alternatives form (continue) shows up as eff:alts; accept when the loop body has exactly one alternative with the add
    alts = [e for e in loops[0].args[1].args if isinstance(e, App) and e.op == "eff:alts"]
    conds_ok = _merge_skip_only_empty(mf)
    R.check("C10-D3b merge re-adds every pair", conds_ok, "only empty (padding) keys are skipped", mod=mf.module, node=mf.node, function=mq,
            expected="if len(k) == 0: continue", found="other skip condition")
    # main(): merge goes through the same cache object and close
    R.rule("C10-D3c sub-commands share one partition", 4, "all three sub-commands fill one CachePartition(eb_size) that is closed to output_file")
    main = repo.func(MOD, "main")
    ev3 = Evaluator(repo, inline_depth=1)
    mo = [o for o in ev3.outcomes(main) if o.kind == "return"]
    mo = generic.sole_outcome(ctx, mo, "cmd_cache_create.main: expected one normal outcome")
    kw = P("kwargs")
    news = [s for e in all_effects(mo[0].effects) for s in subterms(e) if isinstance(s, App) and s.op == "new"
            and isinstance(s.args[0], Ref) and s.args[0].obj.name == "CachePartition"]
    cache = news[0] if news else None
    R.check("C10-D3c sub-commands share one partition", cache is not None and cache.args[2] == App("idx", (kw, Const("eb_size"))),
            "CachePartition(kwargs['eb_size'])", mod=main.module, node=main.node, function=ctx.fq(main), expected="eb_size from the CLI",
            found=repr(cache)[:160])
    called = {}
    for e in all_effects(mo[0].effects):
        if isinstance(e, App) and e.op == "eff:call" and isinstance(e.args[0], App) and e.args[0].op == "call" \
                and isinstance(e.args[0].args[0], Ref):
            called[e.args[0].args[0].obj.name] = e.args[0]
    for name in ("fill_cache_from_payloads", "fill_cache_from_envelope", "merge_cache_files"):
        c = called.get(name)
        R.check("C10-D3c sub-commands share one partition", c is not None and c.args[1] == cache, f"{name}(cache, …)", mod=main.module,
                node=main.node, function=ctx.fq(main), expected="the partition object created in main", found=repr(c)[:160], key_extra=name)


def producers_rules(ctx):
    """The three producers hand exactly the supplied pairs to the partition: from_payloads adds (uri, whole file) per "uri,path" item,
    merge_cache_files merges every input file, main closes the same partition into --output-file."""
    R = ctx.report
    repo = ctx.repo
    ev = Evaluator(repo, inline_depth=0)
    R.rule("C10-D3d producers", 4, "from_payloads: add_cache_slot(uri, <whole binary file>) per item; merge: every input; main: close_and_save_cache(output_file)")
    fp = repo.func(MOD, "CacheFromPayloads.fill_cache_from_payloads")
    outs = [o for o in ev.outcomes(fp) if o.kind == "return"]
    outs = generic.sole_outcome(ctx, outs, f"{ctx.fq(fp)}: expected one outcome")
    INP = P("input")
    item = App("elem", (INP,))
    split = App("meth:split", (item, Const(",")))
    adds = [(e.args[0], g) for e, g in _with_guards(outs[0].effects) if isinstance(e, App) and e.op == "eff:call" and isinstance(e.args[0], App)
            and e.args[0].op == "meth:add_cache_slot"]
    if not adds:
        generic.absent(ctx, "payloads added", fp, "cache.add_cache_slot(uri, data) for every input item", "no payload reaches the cache")
    want = App("meth:add_cache_slot", (P("cache"), App("unpack", (split, Const(0), Const(2))), App("filebytes", (App("unpack", (split, Const(1), Const(2))),))))
    loops = [e for e in outs[0].effects if isinstance(e, App) and e.op == "eff:loop" and e.args[0] == INP]
    R.check("C10-D3d producers", len(adds) == 1 and adds[0][0] == want and not adds[0][1] and len(loops) == 1, "from_payloads: one slot per \"uri,path\" item",
            mod=fp.module, node=fp.node, function=ctx.fq(fp), expected="for item in input: uri, path = item.split(','); add_cache_slot(uri, open(path,'rb').read())",
            found=f"{[repr(a)[:200] for a, g in adds]} guards {[len(g) for a, g in adds]}")
    rej = [o for o in ev.outcomes(fp) if o.kind == "raise"]
    _few = (App("<", (App("len", (split,)), Const(2))), App("not", (App(">=", (App("len", (split,)), Const(2))),)), App("<=", (App("len", (split,)), Const(1))),
            App("not", (App(">", (App("len", (split,)), Const(1))),)))
    cond_ok = any(any(c in _few for c in o.conds) for o in rej)
    R.check("C10-D3d producers", cond_ok, "from_payloads: an item without a comma is rejected, an item with one is accepted", mod=fp.module, node=fp.node,
            function=ctx.fq(fp), expected="raise exactly when len(item.split(',')) < 2", found=f"{[[repr(c)[:60] for c in o.conds[-1:]] for o in rej]}")
    mf = repo.func(MOD, "CacheMerge.merge_cache_files")
    mo = [o for o in ev.outcomes(mf) if o.kind == "return"]
    mo = generic.sole_outcome(ctx, mo, f"{ctx.fq(mf)}: expected one outcome")
    mcalls = [(e.args[0], g) for e, g in _with_guards(mo[0].effects) if isinstance(e, App) and e.op == "eff:call" and isinstance(e.args[0], App)
              and e.args[0].op == "meth:merge_single_cache_file"]
    if not mcalls:
        generic.absent(ctx, "input caches merged", mf, "cache.merge_single_cache_file(file) for every input", "no input cache reaches the partition")
    R.check("C10-D3d producers", len(mcalls) == 1 and mcalls[0][0] == App("meth:merge_single_cache_file", (P("cache"), item)) and not mcalls[0][1],
            "merge: every input file is merged into the same partition", mod=mf.module, node=mf.node, function=ctx.fq(mf),
            expected="for f in input: cache.merge_single_cache_file(f)", found=f"{[repr(a)[:160] for a, g in mcalls]}")
    main = repo.func(MOD, "main")
    mo = [o for o in ev.outcomes(main) if o.kind == "return"]
    mo = generic.sole_outcome(ctx, mo, "cmd_cache_create.main: expected one normal outcome")
    closes = [(e.args[0], g) for e, g in _with_guards(mo[0].effects) if isinstance(e, App) and e.op == "eff:call" and isinstance(e.args[0], App)
              and (e.args[0].op == "meth:close_and_save_cache" or (e.args[0].op == "call" and isinstance(e.args[0].args[0], Ref)
                                                                   and e.args[0].args[0].obj.name == "close_and_save_cache"))]
    if not closes:
        generic.absent(ctx, "partition written", main, "cache.close_and_save_cache(kwargs['output_file'])", "no cache file is written")
    c0, g0 = closes[0]
    news = [s_ for e in all_effects(mo[0].effects) for s_ in subterms(e) if isinstance(s_, App) and s_.op == "new" and isinstance(s_.args[0], Ref)
            and s_.args[0].obj.name == "CachePartition"]
    R.check("C10-D3d producers", len(closes) == 1 and not g0 and c0.args[-1] == App("idx", (P("kwargs"), Const("output_file"))) and bool(news) and news[0] in c0.args,
            "main: the partition filled by the sub-command is closed into --output-file, unconditionally", mod=main.module, node=main.node,
            function=ctx.fq(main), expected="cache.close_and_save_cache(kwargs['output_file']) after the sub-command", found=f"{repr(c0)[:200]} guards {len(g0)}")


def _plus(t):
    from sa.terms import mk_cat
    if isinstance(t, App) and t.op == "+":
        return mk_cat([_plus(t.args[0]), _plus(t.args[1])])
    return t


def _with_guards(effects, guards=()):
    for e in effects:
        if isinstance(e, App) and e.op == "eff:if":
            yield from _with_guards(e.args[1].args, guards + ((e.args[0], True),))
            yield from _with_guards(e.args[2].args, guards + ((e.args[0], False),))
        elif isinstance(e, App) and e.op == "eff:alts":
            for alt in e.args:
                yield from _with_guards(alt.args, guards)
        elif isinstance(e, App) and e.op == "eff:loop":
            yield from _with_guards(e.args[1].args, guards)
        else:
            yield e, guards


def _is_len_zero_guard(g, k):
    return isinstance(g, App) and g.op == "==" and g.args[0] == App("len", (k,)) and g.args[1] == Const(0)


def _merge_skip_only_empty(mf) -> bool:
    """Syntactic, on the loop body: every `continue`/`break`/skip is guarded by a test that the key is empty."""
    loops = [n for n in ast.walk(mf.node) if isinstance(n, ast.For)]
    if len(loops) != 1:
        return False
    loop = loops[0]
    # the name of the key: `for k in d` / `for k in d.keys()` / `for k, v in d.items()`
    if isinstance(loop.target, ast.Tuple) and len(loop.target.elts) == 2 and isinstance(loop.iter, ast.Call) and isinstance(loop.iter.func, ast.Attribute) \
            and loop.iter.func.attr == "items" and isinstance(loop.target.elts[0], ast.Name):
        tgt = loop.target.elts[0].id
    else:
        tgt = ast.unparse(loop.target)
    for n in ast.walk(loop):
        if isinstance(n, (ast.Continue, ast.Break)):
            # find the enclosing If inside the loop
            parent_if = None
            for cand in ast.walk(loop):
                if isinstance(cand, ast.If) and any(x is n for x in ast.walk(cand)):
                    parent_if = cand
            if parent_if is None:
                return False
            t = ast.unparse(parent_if.test).replace(" ", "")
            if t not in (f"len({tgt})==0", f"not{tgt}", f"{tgt}==''", f'{tgt}==""', f"notlen({tgt})"):
                return False
    # no other conditional around add_cache_slot
    for n in ast.walk(loop):
        if isinstance(n, ast.If):
            body_calls = [x for b in n.body for x in ast.walk(b) if isinstance(x, ast.Call) and isinstance(x.func, ast.Attribute)
                          and x.func.attr == "add_cache_slot"]
            if body_calls:
                t = ast.unparse(n.test).replace(" ", "")
                if t not in (f"len({tgt})!=0", f"len({tgt})>0", f"{tgt}", f"{tgt}!=''", f'{tgt}!=""', f"len({tgt})"):
                    return False
    return True
